#!/venv/bin/python
"""Entry point:  /venv/bin/python run.py <Cxx> [--tier quick|thorough] [--replay file]
exit 0 = property held on everything explored, 1 = VIOLATION printed, 2 = harness error (no verdict)."""
import os, sys

ROOT = os.path.dirname(os.path.abspath(__file__))
REPO = os.environ.get("VERIF_REPO", "/repo")

if os.environ.get("PYTHONHASHSEED") != "0":
    env = dict(os.environ)
    env["PYTHONHASHSEED"] = "0"
    os.execve(sys.executable, [sys.executable] + sys.argv, env)

os.chdir(ROOT)
sys.path.insert(0, ROOT)
sys.path.insert(0, REPO)
sys.setrecursionlimit(20000)
os.environ.setdefault("LITEDRAM_VERIF", "1")


def main():
    import argparse
    ap = argparse.ArgumentParser()
    ap.add_argument("prop")
    ap.add_argument("--tier", default=os.environ.get("VERIF_TIER", "quick"))
    ap.add_argument("--replay", default=None)
    a = ap.parse_args()
    tier = a.tier if a.tier in ("quick", "thorough") else "quick"
    try:
        import importlib
        import lib.compat  # noqa
        mod = importlib.import_module("props." + a.prop.lower())
        from lib.runner import run_property
        rc = run_property(mod, tier, a.replay)
    except SystemExit:
        raise
    except Exception:
        import traceback
        sys.stderr.write("HARNESS ERROR:\n" + traceback.format_exc())
        rc = 2
    sys.stdout.flush()
    sys.exit(rc)


if __name__ == "__main__":
    main()
