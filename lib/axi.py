"""AXI4 master driver, device wrapper, run loop and oracle for C09 (LiteDRAMAXI2Native on the realistic native slave).

Everything here is a per-cycle Python object in the style of lib/native.py: `cycle(sim, t)` looks at the settled
values of cycle t and returns the writes that become visible after the next edge.  No RNG, no clock.

Stimulus (`stim`, JSON-able):
  ops      : program-ordered list of bursts, each
               {kind: "w"|"r", addr: byte OFFSET inside the DRAM window (axi address = base + addr), burst: 0 FIXED|1 INCR|2 WRAP,
                len: beats-1, id, gap: idle cycles on the address channel before the burst is offered,
                dep: index of an EARLIER op that must have completed (B received / last R beat received) before this burst
                     is offered, or None;
                writes only: dseed (beat data = data_of(dseed, beat)), strb: list of strobe values used cyclically per beat,
                     wgap: list of idle cycles before each W beat (cyclic), wrel: >= 0: the first W beat is offered no earlier than
                     wrel cycles after AWVALID was raised; < 0: AWVALID is raised no earlier than -wrel cycles after the first W
                     beat was offered (W leads AW).  All of these depend on VALID times only, never on a READY (AXI4 A3.3.1).}
  b_ready / r_ready : ready schedule: None = always, [a,b,c,..] = ready a cycles, stalled b, ready c ... (cyclic),
                      int d = ready raised d cycles after valid was seen and dropped after the handshake
  slave    : {ready, wlat, rlat, qmax} for lib.native.NativeSlave
"""
import json
import lib.compat  # noqa
from migen import *
from lib.fastsim import FastSim, MigenSim, compile_dut, HarnessError
from lib.native import NativeSlave, schedule_iter, native_slave

FIXED, INCR, WRAP = 0, 1, 2
BNAME = {0: "FIXED", 1: "INCR", 2: "WRAP"}
AXI_AW = 32
_CACHE = {}


# ---------------------------------------------------------------------------------------------------
# device
class AXIDUT(Module):
    """cfg: {dw, aw (native address width, words), idw, wdepth, rdepth, base, rmw}"""
    def __init__(self, cfg):
        from litedram.common import LiteDRAMNativePort
        from litedram.frontend.axi import LiteDRAMAXIPort, LiteDRAMAXI2Native
        self.axi = LiteDRAMAXIPort(cfg["dw"], AXI_AW, id_width=cfg["idw"])
        self.port = LiteDRAMNativePort("both", cfg["aw"], cfg["dw"])
        self.submodules.bridge = LiteDRAMAXI2Native(self.axi, self.port, w_buffer_depth=cfg["wdepth"], r_buffer_depth=cfg["rdepth"],
                                                    base_address=cfg["base"], with_read_modify_write=bool(cfg["rmw"]))

    def observed(self):
        a, p = self.axi, self.port
        return [a.aw.ready, a.w.ready, a.b.valid, a.b.id, a.b.resp, a.ar.ready, a.r.valid, a.r.data, a.r.id, a.r.last, a.r.resp,
                p.cmd.valid, p.cmd.we, p.cmd.addr, p.cmd.last, p.wdata.valid, p.wdata.data, p.wdata.we, p.rdata.ready]


def get_sim(cfg, backend="fast"):
    if backend == "migen":
        dut = AXIDUT(cfg)
        return dut, MigenSim(dut, {"sys": 10})
    k = json.dumps(cfg, sort_keys=True)
    ent = _CACHE.get(k)
    if ent is None:
        if len(_CACHE) > 6:
            _CACHE.clear()
        dut = AXIDUT(cfg)
        ent = _CACHE[k] = (dut, compile_dut(dut, {"sys": 10}))
    return ent[0], FastSim(ent[1])


# ---------------------------------------------------------------------------------------------------
# independent AXI4 definitions (ARM IHI 0022 A3.4.1)
def beat_addresses(addr, burst, nbeats, nbytes):
    """byte address of every beat of a full-width burst whose start address is aligned to the transfer size"""
    if burst == FIXED:
        return [addr] * nbeats
    if burst == INCR:
        return [addr + i * nbytes for i in range(nbeats)]
    span = nbytes * nbeats
    lo = (addr // span) * span
    return [lo + ((addr - lo) + i * nbytes) % span for i in range(nbeats)]


_M64 = (1 << 64) - 1


def _mix(x):
    x = (x + 0x9E3779B97F4A7C15) & _M64
    x = ((x ^ (x >> 30)) * 0xBF58476D1CE4E5B9) & _M64
    x = ((x ^ (x >> 27)) * 0x94D049BB133111EB) & _M64
    return x ^ (x >> 31)


def data_of(dseed, beat, dw):
    v = 0
    for c in range((dw + 63) // 64):
        v |= _mix(dseed * 1000003 + beat * 257 + c * 65537) << (64 * c)
    return v & ((1 << dw) - 1)


def legal_burst(cfg, op):
    """AXI4 legality + the bridge's documented domain (full-width transfers inside the DRAM window)"""
    nbytes = cfg["dw"] // 8
    n = op["len"] + 1
    a = op["addr"]
    if a % nbytes or a < 0:
        return False
    if op["burst"] == FIXED and not 1 <= n <= 16:
        return False
    if op["burst"] == WRAP and n not in (2, 4, 8, 16):
        return False
    if op["burst"] == INCR and (not 1 <= n <= 256 or a // 4096 != (a + n * nbytes - 1) // 4096):
        return False
    if op["burst"] not in (FIXED, INCR, WRAP):
        return False
    if max(beat_addresses(a, op["burst"], n, nbytes)) + nbytes > (1 << cfg["aw"]) * nbytes:
        return False
    if not 0 <= op["id"] < (1 << cfg["idw"]):
        return False
    return True


# ---------------------------------------------------------------------------------------------------
def _norm(spec):
    """schedule_iter alternates ready/stalled by a running index, so an odd-length pattern swaps roles on every pass:
    make that explicit"""
    if isinstance(spec, list) and len(spec) % 2:
        return spec * 2
    return spec


def chan_time(spec, n):
    """upper bound on the cycles a channel with this ready schedule needs for n handshakes when valid is always offered"""
    spec = _norm(spec)
    if not spec and not isinstance(spec, int):
        return n + 2
    if isinstance(spec, int):
        return n * (spec + 3) + 2
    rdy = sum(spec[0::2])
    if rdy == 0:
        return n + sum(spec) + 2
    return (n // rdy + 2) * sum(spec)


class ReadySched:
    def __init__(self, spec):
        self.spec = spec
        self.it = None if isinstance(spec, int) else schedule_iter(spec)
        self.seen = 0

    def next(self, valid_waiting):
        """ready value to drive for the next cycle; valid_waiting = valid seen now and not handshaken now"""
        if self.it is not None:
            return next(self.it)
        if valid_waiting:
            self.seen += 1
        else:
            self.seen = 0
        return 1 if (valid_waiting and self.seen > self.spec) or (self.spec == 0) else 0


class AXIMaster:
    """Protocol-conforming AXI4 master.  Once a valid is raised it stays, with stable payload, until the handshake."""

    def __init__(self, axi, cfg, stim):
        self.axi = axi
        self.cfg = cfg
        self.dw = cfg["dw"]
        self.nbytes = self.dw // 8
        self.size = self.nbytes.bit_length() - 1
        self.base = cfg["base"]
        self.ops = stim["ops"]
        self.wr = [i for i, op in enumerate(self.ops) if op["kind"] == "w"]
        self.rd = [i for i, op in enumerate(self.ops) if op["kind"] == "r"]
        n = len(self.ops)
        self.offer_t = [None] * n        # AWVALID / ARVALID first visible
        self.acc_t = [None] * n          # AW / AR handshake
        self.w_first_t = [None] * n      # first W beat first visible
        self.w_acc_t = [[] for _ in range(n)]   # W handshake per beat
        self.done_t = [None] * n         # B handshake / last R beat handshake
        self.b_log = []                  # (t handshake, id, resp, t first valid)
        self.r_log = []                  # (t handshake, id, data, last, resp, t first valid)
        self.proto = []                  # (channel, t, what)
        self.flags = set()
        self.bs = ReadySched(stim.get("b_ready"))
        self.rs = ReadySched(stim.get("r_ready"))
        # channel state
        self.aw_i = 0; self.aw_cur = False; self.aw_gap = self.ops[self.wr[0]]["gap"] if self.wr else 0
        self.ar_i = 0; self.ar_cur = False; self.ar_gap = self.ops[self.rd[0]]["gap"] if self.rd else 0
        self.w_i = 0; self.w_j = 0; self.w_cur = False
        self.w_gap = self._wgap(0, 0)
        self.d_b = 0; self.d_r = 0
        self.b_hold = None; self.r_hold = None
        self.r_k = 0; self.r_j = 0       # read burst / beat expected next (for dependency tracking only)
        self.w_last_acc = 0              # write bursts whose last W beat was accepted

    def _wgap(self, i, j):
        if i >= len(self.wr):
            return 0
        g = self.ops[self.wr[i]].get("wgap") or [0]
        return g[j % len(g)]

    def _dep_ok(self, op):
        d = op.get("dep")
        return d is None or self.done_t[d] is not None

    def done(self):
        return (self.aw_i >= len(self.wr) and self.w_i >= len(self.wr) and self.ar_i >= len(self.rd)
                and len(self.b_log) >= len(self.wr) and self.r_k >= len(self.rd))

    def outstanding(self):
        out = []
        if self.aw_i < len(self.wr): out.append("aw")
        if self.w_i < len(self.wr): out.append("w")
        if len(self.b_log) < len(self.wr): out.append("b")
        if self.ar_i < len(self.rd): out.append("ar")
        if self.r_k < len(self.rd): out.append("r")
        return out

    def cycle(self, sim, t):
        g = sim.get
        a = self.axi
        w = []
        ops = self.ops
        # ------------------------------------------------ observe
        if self.aw_cur and g(a.aw.ready):
            self.acc_t[self.wr[self.aw_i]] = t
            self.aw_cur = False
            self.aw_i += 1
            self.aw_gap = ops[self.wr[self.aw_i]]["gap"] if self.aw_i < len(self.wr) else 0
        if self.ar_cur and g(a.ar.ready):
            self.acc_t[self.rd[self.ar_i]] = t
            self.ar_cur = False
            self.ar_i += 1
            self.ar_gap = ops[self.rd[self.ar_i]]["gap"] if self.ar_i < len(self.rd) else 0
        if self.w_cur and g(a.w.ready):
            k = self.wr[self.w_i]
            self.w_acc_t[k].append(t)
            self.w_cur = False
            self.w_j += 1
            if self.w_j > ops[k]["len"]:
                self.w_i += 1
                self.w_j = 0
                self.w_last_acc += 1
            self.w_gap = self._wgap(self.w_i, self.w_j)
        # B
        b_wait = False
        if g(a.b.valid):
            pay = (g(a.b.id), g(a.b.resp))
            if self.b_hold is None:
                self.b_hold = [t, pay]
            elif self.b_hold[1] != pay:
                self.proto.append(("b", t, "payload changed from %s to %s while BVALID was waiting for BREADY" % (self.b_hold[1], pay)))
                self.b_hold[1] = pay
            if self.d_b:
                nb = len(self.b_log)
                self.b_log.append((t, pay[0], pay[1], self.b_hold[0]))
                if nb < len(self.wr):
                    self.done_t[self.wr[nb]] = t
                self.b_hold = None
            else:
                b_wait = True
                if self.w_last_acc - len(self.b_log) >= 2:
                    self.flags.add("b_stalled_2_pending")
        elif self.b_hold is not None:
            self.proto.append(("b", t, "BVALID dropped before BREADY (raised at cycle %d)" % self.b_hold[0]))
            self.b_hold = None
        # R
        r_wait = False
        if g(a.r.valid):
            pay = (g(a.r.id), g(a.r.data), g(a.r.last), g(a.r.resp))
            if self.r_hold is None:
                self.r_hold = [t, pay]
            elif self.r_hold[1] != pay:
                self.proto.append(("r", t, "payload changed while RVALID was waiting for RREADY"))
                self.r_hold[1] = pay
            if self.d_r:
                self.r_log.append((t, pay[0], pay[1], pay[2], pay[3], self.r_hold[0]))
                self.r_hold = None
                if self.r_k < len(self.rd):
                    k = self.rd[self.r_k]
                    self.r_j += 1
                    if self.r_j > ops[k]["len"]:
                        self.done_t[k] = t
                        self.r_k += 1
                        self.r_j = 0
            else:
                r_wait = True
                if self.ar_i - self.r_k >= 2:
                    self.flags.add("r_stalled_2_pending")
        elif self.r_hold is not None:
            self.proto.append(("r", t, "RVALID dropped before RREADY (raised at cycle %d)" % self.r_hold[0]))
            self.r_hold = None
        # ------------------------------------------------ drive
        # AW
        if not self.aw_cur:
            go = False
            if self.aw_i < len(self.wr):
                k = self.wr[self.aw_i]
                op = ops[k]
                if self.aw_gap > 0:
                    self.aw_gap -= 1
                elif self._dep_ok(op):
                    wrel = op.get("wrel", 0)
                    if wrel >= 0 or (self.w_first_t[k] is not None and t + 1 >= self.w_first_t[k] - wrel):
                        go = True
            if go:
                self.aw_cur = True
                self.offer_t[k] = t + 1
                w += [(a.aw.valid, 1), (a.aw.addr, self.base + op["addr"]), (a.aw.burst, op["burst"]), (a.aw.len, op["len"]),
                      (a.aw.size, self.size), (a.aw.id, op["id"])]
            else:
                w.append((a.aw.valid, 0))
        # AR
        if not self.ar_cur:
            go = False
            if self.ar_i < len(self.rd):
                k = self.rd[self.ar_i]
                op = ops[k]
                if self.ar_gap > 0:
                    self.ar_gap -= 1
                elif self._dep_ok(op):
                    go = True
            if go:
                self.ar_cur = True
                self.offer_t[k] = t + 1
                w += [(a.ar.valid, 1), (a.ar.addr, self.base + op["addr"]), (a.ar.burst, op["burst"]), (a.ar.len, op["len"]),
                      (a.ar.size, self.size), (a.ar.id, op["id"])]
            else:
                w.append((a.ar.valid, 0))
        # W
        if not self.w_cur:
            go = False
            if self.w_i < len(self.wr):
                k = self.wr[self.w_i]
                op = ops[k]
                if self.w_gap > 0:
                    self.w_gap -= 1
                elif self.w_j > 0:
                    go = True
                elif self._dep_ok(op):
                    wrel = op.get("wrel", 0)
                    if wrel < 0 or (self.offer_t[k] is not None and t + 1 >= self.offer_t[k] + wrel):
                        go = True
            if go:
                self.w_cur = True
                j = self.w_j
                if j == 0:
                    self.w_first_t[k] = t + 1
                s = op["strb"]
                w += [(a.w.valid, 1), (a.w.data, data_of(op["dseed"], j, self.dw)), (a.w.strb, s[j % len(s)]), (a.w.last, 1 if j == op["len"] else 0)]
            else:
                w.append((a.w.valid, 0))
        self.d_b = self.bs.next(b_wait)
        self.d_r = self.rs.next(r_wait)
        w.append((a.b.ready, self.d_b))
        w.append((a.r.ready, self.d_r))
        return w


# ---------------------------------------------------------------------------------------------------
class AXIRun:
    pass


def nbeats_of(stim):
    return sum(op["len"] + 1 for op in stim["ops"])


def cycle_cap(cfg, stim):
    """proportional to the number of beats (and to the stalls the case itself asks for); a completed case stops long before"""
    sl = stim.get("slave", {})
    per_cmd = max((sl.get("wlat") or [3]) + (sl.get("rlat") or [5])) + sum(sl.get("ready") or [0]) + 4      # qmax = 1: strictly serial
    wb = sum(op["len"] + 1 for op in stim["ops"] if op["kind"] == "w")
    rb = sum(op["len"] + 1 for op in stim["ops"] if op["kind"] == "r")
    nw = sum(1 for op in stim["ops"] if op["kind"] == "w")
    cyc = (wb * (2 if cfg["rmw"] else 1) + rb) * per_cmd + wb * (8 if cfg["rmw"] else 2) + rb * 2
    cyc += chan_time(stim.get("b_ready"), nw) + chan_time(stim.get("r_ready"), rb)
    for op in stim["ops"]:
        cyc += op.get("gap", 0) + 6
        if op["kind"] == "w":
            cyc += abs(op.get("wrel", 0)) + (op["len"] + 1) * max(op.get("wgap") or [0])
    return 300 + 2 * cyc


def idle_limit(stim):
    """longest period without any handshake / native event that the testbench itself can cause, with margin"""
    sl = stim.get("slave", {})
    n = max((sl.get("wlat") or [3]) + (sl.get("rlat") or [5])) + max((_norm(sl.get("ready")) or [0, 0])[1::2])
    for spec in (stim.get("b_ready"), stim.get("r_ready")):
        n += (spec + 2) if isinstance(spec, int) else max((_norm(spec) or [0, 0])[1::2])
    n += max([op.get("gap", 0) + abs(op.get("wrel", 0)) + max(op.get("wgap") or [0]) for op in stim["ops"]] or [0])
    return 100 + 2 * n


def run_axi(cfg, stim, backend="fast", max_cycles=None, trace=None):
    """runs until the master has finished and the slave is idle for 16 cycles, or until the cap (proportional to the number
    of beats) is reached, or until nothing at all has happened on the five AXI channels and the native port for idle_limit
    cycles (a deadlocked bridge is reported without simulating the whole cap)"""
    dut, sim = get_sim(cfg, backend)
    sl = stim.get("slave", {})
    slave = native_slave([dut.port], sl)
    master = AXIMaster(dut.axi, cfg, stim)
    cap = max_cycles or cycle_cap(cfg, stim)
    lim = idle_limit(stim)
    obs = dut.observed() if trace is not None else None
    t = 0
    quiet = 0
    done = False
    sig = None
    last_act = 0
    m = master
    while t < cap:
        if obs is not None:
            trace.append([sim.get(s) for s in obs])
        w = slave.cycle(sim, t)
        w += master.cycle(sim, t)
        sim.step(w)
        t += 1
        if master.done() and slave.idle():
            quiet += 1
            if quiet >= 16:
                done = True
                break
        else:
            quiet = 0
            ns = (m.aw_i, m.w_i, m.w_j, len(m.b_log), m.ar_i, len(m.r_log), len(slave.log), m.aw_cur, m.ar_cur, m.w_cur)
            if ns != sig:
                sig = ns
                last_act = t
            elif t - last_act > lim and max_cycles is None:
                break
    if hasattr(slave, "finish"):
        slave.finish(t)
    r = AXIRun()
    r.cfg, r.stim, r.dut, r.master, r.slave, r.cycles, r.completed, r.cap = cfg, stim, dut, master, slave, t, done, cap
    r.idle_stop = (not done) and t < cap
    return r


# ---------------------------------------------------------------------------------------------------
# oracle
def _byte(word, b):
    return (word >> (8 * b)) & 0xff


def oracle_axi(run, P="C09"):
    """returns (findings, classes).  Grounded in the property statement; the only structural assumption about the bridge is
    its documented 'no reordering' (writes take effect in AW order, reads answered in AR order)."""
    cfg, stim, m, s = run.cfg, run.stim, run.master, run.slave
    ops = stim["ops"]
    dw = cfg["dw"]
    nb = dw // 8
    full = (1 << nb) - 1
    rmw = bool(cfg["rmw"])
    fs = []
    classes = set(m.flags)
    tag = "rmw" if rmw else "plain"

    # ---- write beats in AW order -------------------------------------------------------------------
    wbeats = []        # global beat index -> (op index, write number, beat, word address, data, strb)
    cum = []           # per write number: number of beats up to and including it
    chain = {}         # byte address -> [(write number, value)] in AW/beat order
    for wn, k in enumerate(m.wr):
        op = ops[k]
        n = op["len"] + 1
        for j, ba in enumerate(beat_addresses(op["addr"], op["burst"], n, nb)):
            d = data_of(op["dseed"], j, dw)
            st = op["strb"][j % len(op["strb"])]
            wbeats.append((k, wn, j, ba // nb, d, st))
            for b in range(nb):
                if (st >> b) & 1:
                    chain.setdefault(ba + b, []).append((wn, _byte(d, b)))
        cum.append(len(wbeats))
        if op["burst"] != INCR:
            classes.add("write_" + BNAME[op["burst"]])
        if any(op["strb"][j % len(op["strb"])] != full for j in range(n)):
            classes.add("partial_strobe_" + tag)
        if n > 16:
            classes.add("long_burst")
    for k in m.rd:
        if ops[k]["burst"] != INCR:
            classes.add("read_" + BNAME[ops[k]["burst"]])
        if ops[k]["len"] >= 16:
            classes.add("long_burst")

    def bgbyte(x):
        return _byte(s.bg(x // nb, dw), x % nb)

    # ---- diagnosis from interface-observable facts (labels in the finding key only, never a verdict) -------------------
    # The labels name the condition under which a deviation was seen, so that different deviations stay distinguishable.
    labels = []
    cmds = [e for e in s.log if e[0] == "C"]
    wcmd_t = [e[1] for e in cmds if e[3]]              # native write commands accepted, in order (one per W beat)
    nwl = [e for e in s.log if e[0] == "W"]            # native writes performed, in order
    wt = [e[1] for e in nwl]
    wd = cfg["wdepth"]
    if rmw:
        # follow the native writes; for a partial-strobe beat the word written must be (previous content of ITS word) merged
        # with the beat's strobed bytes.  If not, name what it was merged with.
        memsim = {}

        def cur(wa):
            v = memsim.get(wa)
            return s.bg(wa, dw) if v is None else v

        def merge(old, d, st):
            for b_ in range(nb):
                if (st >> b_) & 1:
                    old = (old & ~(0xff << (8 * b_))) | (d & (0xff << (8 * b_)))
            return old
        hist = {}
        wci = [ci for ci, e in enumerate(cmds) if e[3]]
        for gi, e in enumerate(nwl):
            if not e[6]:
                continue
            if gi < len(wbeats) and not labels:
                kk, wn, j, wa, d, st = wbeats[gi]
                if st != full and (e[3] != wa or e[4] != merge(cur(wa), d, st)):
                    prev = cmds[wci[gi] - 1] if gi < len(wci) and wci[gi] > 0 else None
                    t_rmw = prev[1] if (prev is not None and not prev[3]) else (wcmd_t[gi] if gi < len(wcmd_t) else None)
                    if m.acc_t[kk] is None or (t_rmw is not None and t_rmw <= m.acc_t[kk]):
                        labels.append("rmw_merge_not_on_own_word:started_before_aw")           # partial beat processed before its AW reached the bridge
                    elif any(e[4] == merge(old, d, st) for h in range(max(0, gi - wd - 2), gi) for old in hist.get(wbeats[h][3], []) + [cur(wbeats[h][3])]):
                        labels.append("rmw_merge_not_on_own_word:word_of_earlier_buffered_beat")
                    else:
                        labels.append("rmw_merge_not_on_own_word:other")
            hist.setdefault(e[3], []).append(cur(e[3]))
            memsim[e[3]] = merge(cur(e[3]), e[4], e[5])
    # native write commands accepted whose data phase has not happened yet
    ev = sorted([(t, 0) for t in wcmd_t] + [(t, 1) for t in wt])
    cur = mx = 0
    for t, kind in ev:
        cur += 1 if kind == 0 else -1
        mx = max(mx, cur)
    if mx > wd and (wd + 1) & wd == 0:
        labels.append("native_writes_outstanding_reach_wdepth_plus_1_pow2")     # wdepth + 1 = 2**n outstanding native writes
    # write bursts between the native command of their first beat and the native data phase of their last beat
    ev = []
    for i in range(len(cum)):
        first = cum[i - 1] if i else 0
        if first < len(wcmd_t):
            ev.append((wcmd_t[first], 0))
            if cum[i] - 1 < len(wt):
                ev.append((wt[cum[i] - 1], 1))
    cur = mx = 0
    for t, kind in sorted(ev):
        cur += 1 if kind == 0 else -1
        mx = max(mx, cur)
    if mx > wd:
        labels.append("write_bursts_in_pipeline_gt_wdepth")
    # write bursts completely handed to the native port whose B has not been taken by the master yet
    ev = []
    for i in range(len(cum)):
        if cum[i] - 1 < len(wt):
            ev.append((wt[cum[i] - 1], 0))
            if i < len(m.b_log):
                ev.append((m.b_log[i][0], 1))
    cur = mx = 0
    for t, kind in sorted(ev):
        cur += 1 if kind == 0 else -1
        mx = max(mx, cur)
    if mx > wd:
        labels.append("responses_waiting_gt_wdepth")
    if wd == 1:
        labels.insert(0, "wdepth_1")        # litex SyncFIFO(depth=1) is a plain register stage whose `level` is a constant 0
    cause = labels[0] if labels else None

    def key(base):
        return base + "/" + tag + ("/" + "+".join(labels) if labels else "")

    # ---- lost beats on the native side -------------------------------------------------------------------
    for e in s.lost:
        if e[0] == "W-extra":
            fs.append(dict(clause=P + ".extra_write_beat", key=key(e[0]), what="stream-style native port: more write-data beats than write commands were put on the port (a beat is left over at the end of the run)"))
            break
        fs.append(dict(clause=P + ".lost_beat", key=key(e[0]), what="native-side %s at cycle %d (word 0x%x): the bridge was not %s when the one-cycle strobe arrived" % (
            e[0], e[1], e[3], "presenting write data" if e[0].startswith("W") else "ready for read data")))
        break
    # ---- handshake rule on B / R -------------------------------------------------------------------------
    for ch, t, what in m.proto:
        fs.append(dict(clause=P + ".valid_not_held", key=ch + "/" + tag, what="cycle %d: %s" % (t, what)))
        break

    # ---- write responses -----------------------------------------------------------------------------------
    by_word = {}
    for e in nwl:
        if e[6]:
            by_word.setdefault(e[3], []).append(e)
    for i, (tb, bid, bresp, tbv) in enumerate(m.b_log):
        if i >= len(m.wr):
            fs.append(dict(clause=P + ".b_count", key=key("extra"), what="write response #%d (id %d) at cycle %d but only %d write bursts were issued" % (i, bid, tb, len(m.wr))))
            break
        k = m.wr[i]
        op = ops[k]
        if bid != op["id"]:
            fs.append(dict(clause=P + ".b_id", key=key("id"), what="write response #%d carries id %d, write burst #%d (op %d) was issued with id %d" % (i, bid, i, k, op["id"])))
            break
        if bresp != 0:
            fs.append(dict(clause=P + ".resp", key="b/" + tag, what="write response #%d has BRESP=%d" % (i, bresp)))
            break
        acc = m.w_acc_t[k]
        if len(acc) <= op["len"] or tbv <= acc[-1]:
            fs.append(dict(clause=P + ".b_early", key=key("before_last_w_accepted"), what="BVALID of write burst #%d (op %d, %d beats) raised at cycle %d, %s" % (
                i, k, op["len"] + 1, tbv, ("its last W beat was accepted at cycle %d" % acc[-1]) if len(acc) > op["len"] else ("only %d of its W beats had been accepted when the run ended" % len(acc)))))
            break
        # handed to the native port: the burst's last beat is native write number cum[i]; fall back to a value-based test so
        # that a bridge merging beats would not be flagged
        if len(wt) < cum[i] or wt[cum[i] - 1] > tbv:
            t0 = min(x for x in (m.offer_t[k], m.w_first_t[k]) if x is not None)
            final = {}
            for (kk, wn, j, wa, d, st) in wbeats[cum[i] - op["len"] - 1:cum[i]]:
                for b in range(nb):
                    if (st >> b) & 1:
                        final[(wa, b)] = _byte(d, b)
            miss = None
            for (wa, b), v in sorted(final.items()):
                if not any(t0 <= e[1] <= tbv and (e[5] >> b) & 1 and _byte(e[4], b) == v for e in by_word.get(wa, [])):
                    miss = (wa, b, v)
                    break
            if miss:
                fs.append(dict(clause=P + ".b_before_data", key=key("native"), what="BVALID of write burst #%d (op %d) raised at cycle %d but only %d of the %d native writes up to its last beat had been performed by then (byte %d of word 0x%x = 0x%02x not yet handed to the memory)" % (
                    i, k, tbv, sum(1 for x in wt if x <= tbv), cum[i], miss[1], miss[0], miss[2])))
                break

    # ---- read beats ---------------------------------------------------------------------------------------
    nprefix_at = lambda t_ar: sum(1 for x in m.b_log[:len(m.wr)] if x[0] < t_ar)
    start = []
    for k in m.wr:
        c = [x for x in (m.offer_t[k], m.w_first_t[k]) if x is not None]
        start.append(min(c) if c else None)
    pos = 0
    rfail = False
    for rn, k in enumerate(m.rd):
        op = ops[k]
        n = op["len"] + 1
        addrs = beat_addresses(op["addr"], op["burst"], n, nb)
        t_ar = m.offer_t[k]
        npre = nprefix_at(t_ar) if t_ar is not None else 0
        for j in range(n):
            if pos >= len(m.r_log):
                break
            tr, rid, rdata, rlast, rresp, trv = m.r_log[pos]
            pos += 1
            if t_ar is None or trv < t_ar:
                fs.append(dict(clause=P + ".r_count", key="unrequested/" + tag, what="R beat at cycle %d before read burst #%d was requested" % (trv, rn)))
                rfail = True
                break
            if rid != op["id"]:
                fs.append(dict(clause=P + ".r_id", key=tag, what="beat %d of read burst #%d (op %d, id %d) carries id %d" % (j, rn, k, op["id"], rid)))
                rfail = True
                break
            if rlast != (1 if j == n - 1 else 0):
                fs.append(dict(clause=P + ".r_last", key=("missing" if not rlast else "early") + "/" + tag, what="beat %d of %d of read burst #%d (op %d, %s) has RLAST=%d" % (j, n, rn, k, BNAME[op["burst"]], rlast)))
                rfail = True
                break
            if rresp != 0:
                fs.append(dict(clause=P + ".resp", key="r/" + tag, what="beat %d of read burst #%d has RRESP=%d" % (j, rn, rresp)))
                rfail = True
                break
            for b in range(nb):
                x = addrs[j] + b
                ent = chain.get(x, [])
                basev = bgbyte(x)
                allowed = set()
                for wn, v in ent:
                    if wn < npre:
                        basev = v
                    elif start[wn] is not None and start[wn] <= tr:
                        allowed.add(v)
                allowed.add(basev)
                got = _byte(rdata, b)
                if got not in allowed:
                    older = [v for wn, v in ent if wn < npre][:-1] + [bgbyte(x)]
                    kind = "stale_after_b" if (npre and got in older and any(wn < npre for wn, _ in ent)) else "unexpected_value"
                    fs.append(dict(clause=P + ".read_data", key=key(kind), what="beat %d of read burst #%d (op %d, %s, offset 0x%x) byte %d (byte address 0x%x) returned 0x%02x at cycle %d, allowed %s (AR raised at cycle %d, %d write responses received before)" % (
                        j, rn, k, BNAME[op["burst"]], op["addr"], b, x, got, tr, sorted("0x%02x" % v for v in allowed), t_ar, npre)))
                    rfail = True
                    break
            if rfail:
                break
        if rfail:
            break
        # classes: read of an address whose write response was just received
        if t_ar is not None and npre:
            words = set(a_ // nb for a_ in addrs)
            for wn in range(npre):
                kk = m.wr[wn]
                if 0 < t_ar - m.b_log[wn][0] <= 16:
                    wa = set(a_ // nb for a_ in beat_addresses(ops[kk]["addr"], ops[kk]["burst"], ops[kk]["len"] + 1, nb))
                    if wa & words:
                        classes.add("read_just_after_b_same_address")
                        break
        if t_ar is not None:
            for wn, kk in enumerate(m.wr):
                if start[wn] is not None and wn >= npre and start[wn] <= (m.done_t[k] or run.cycles):
                    classes.add("read_concurrent_with_write")
                    break
    if not rfail and pos < len(m.r_log):
        e = m.r_log[pos]
        fs.append(dict(clause=P + ".r_count", key="extra/" + tag, what="R beat at cycle %d (id %d) beyond the %d beats requested by %d read bursts" % (e[0], e[1], pos, len(m.rd))))

    # ---- completion --------------------------------------------------------------------------------------
    if not run.completed:
        out = m.outstanding()
        fs.append(dict(clause=P + ".incomplete", key=key("+".join(out) if out else "native"), what="not finished after %d cycles (%s): outstanding %s; AW %d/%d W-bursts %d/%d B %d/%d AR %d/%d R-bursts %d/%d, native slave idle=%s" % (
            run.cycles, ("no handshake or native event for the last %d cycles" % idle_limit(stim)) if run.idle_stop else ("cap for %d beats" % nbeats_of(stim)), out, m.aw_i, len(m.wr), m.w_i, len(m.wr), len(m.b_log), len(m.wr), m.ar_i, len(m.rd), m.r_k, len(m.rd), s.idle())))
    else:
        # ---- final memory ----------------------------------------------------------------------------------
        touched = set(x // nb for x in chain)
        for wa in sorted(touched | set(s.mem)):
            exp = 0
            for b in range(nb):
                ent = chain.get(wa * nb + b)
                exp |= (ent[-1][1] if ent else bgbyte(wa * nb + b)) << (8 * b)
            got = s.read_mem(wa, dw)
            if got != exp:
                fs.append(dict(clause=P + ".final_memory", key=key("untouched_word" if wa not in touched else "written_word"), what="after quiescence native word 0x%x holds 0x%x, reference 0x%x (xor 0x%x)" % (wa, got, exp, got ^ exp)))
                break
    # ---- read-modify-write mode: only full-word native writes -------------------------------------------------
    if rmw:
        for e in nwl:
            if e[6] and e[5] != full:
                fs.append(dict(clause=P + ".rmw_partial_native_write", key="rmw", what="native write of word 0x%x at cycle %d carries byte enables 0x%x in read-modify-write mode" % (e[3], e[1], e[5])))
                break
    run.cause = cause
    return fs, classes


# ---------------------------------------------------------------------------------------------------
def diff_selftest(cfg, stim, ncycles=300):
    ta, tb = [], []
    run_axi(cfg, stim, "fast", max_cycles=ncycles, trace=ta)
    run_axi(cfg, stim, "migen", max_cycles=ncycles, trace=tb)
    n = min(len(ta), len(tb))
    for c in range(n):
        if ta[c] != tb[c]:
            bad = [i for i in range(len(ta[c])) if ta[c][i] != tb[c][i]]
            raise HarnessError("fastsim differs from migen.sim at cycle %d, observed signal indexes %s, cfg=%s" % (c, bad[:5], cfg))
    if len(ta) != len(tb):
        raise HarnessError("fastsim and migen.sim runs end at different cycles (%d / %d), cfg=%s" % (len(ta), len(tb), cfg))
    return n
