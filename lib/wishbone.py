"""Wishbone drivers: a conforming classic/incrementing-burst master with aborts, a memory slave with generated ack latency."""

CTI_CLASSIC, CTI_INCR, CTI_END = 0, 2, 7


class WBMaster:
    """ops: list of accesses {we, adr, sel, data, gap, cti, hold_cyc, abort_after, abort_idle}
      gap         idle cycles (cyc = stb = 0) before the access starts (ignored inside a burst: hold_cyc)
      hold_cyc    keep cyc (and stb) asserted into the next access (back-to-back / burst beats)
      abort_after if not None: drop cyc and stb after that many cycles without an acknowledge, stay idle abort_idle >= 1 cycles
    Conforming: adr/we/sel/dat_w/cti stable from the cycle stb rises until ack (or abort)."""

    def __init__(self, wb, ops):
        self.wb = wb
        self.ops = ops
        self.i = 0
        self.active = False
        self.waited = 0
        self.gap = ops[0].get("gap", 0) if ops else 0
        self.result = [None] * len(ops)        # ("ack", t, dat_r) or ("abort", t)
        self.start_t = [None] * len(ops)
        self.spurious = []                     # cycles with ack while not cyc & stb
        self.idle_after_abort = 0
        self.max_wait = 0

    def done(self):
        return self.i >= len(self.ops) and not self.active

    def cycle(self, sim, t):
        wb = self.wb
        g = sim.get
        w = []
        ack = g(wb.ack)
        if self.active:
            if ack:
                self.result[self.i] = ("ack", t, g(wb.dat_r))
                self.max_wait = max(self.max_wait, t - self.start_t[self.i])
                hold = self.ops[self.i].get("hold_cyc", False)
                self.active = False
                self.i += 1
                if self.i < len(self.ops):
                    self.gap = 0 if hold else self.ops[self.i].get("gap", 0)
                    if not hold and self.gap == 0:
                        self.gap = 0
                self._last_hold = hold
            else:
                self.waited += 1
                ab = self.ops[self.i].get("abort_after")
                if ab is not None and self.waited > ab:
                    self.result[self.i] = ("abort", t)
                    self.active = False
                    self.idle_after_abort = max(1, self.ops[self.i].get("abort_idle", 1))
                    self.i += 1
                    if self.i < len(self.ops):
                        self.gap = self.ops[self.i].get("gap", 0)
        elif ack:
            self.spurious.append(t)
        # drive
        if not self.active:
            if self.i < len(self.ops) and self.idle_after_abort == 0 and self.gap == 0:
                op = self.ops[self.i]
                self.active = True
                self.waited = 0
                self.start_t[self.i] = t + 1
                w += [(wb.cyc, 1), (wb.stb, 1), (wb.we, op["we"]), (wb.adr, op["adr"]), (wb.sel, op["sel"]),
                      (wb.dat_w, op.get("data", 0)), (wb.cti, op.get("cti", 0)), (wb.bte, 0)]
            else:
                if self.idle_after_abort:
                    self.idle_after_abort -= 1
                elif self.gap:
                    self.gap -= 1
                w += [(wb.cyc, 0), (wb.stb, 0), (wb.we, 0), (wb.cti, 0)]
        return w


class WBMemSlave:
    """Wishbone memory: acknowledges each access after a generated latency (ack is a one-cycle pulse while cyc & stb)."""
    def __init__(self, wb, latencies=None, bg=None, byte_addressing=False):
        self.wb = wb
        self.lat = latencies or [1]
        self.n = 0
        self.mem = {}
        self.bg = bg or (lambda a, w: (a * 0x9E3779B1 + 0x7F4A7C15) & ((1 << w) - 1))
        self.count = None
        self.log = []
        self.acking = False
        self.dw = len(wb.dat_w)
        self.byte_addressing = byte_addressing

    def read_mem(self, a):
        v = self.mem.get(a)
        return self.bg(a, self.dw) if v is None else v

    def cycle(self, sim, t):
        wb = self.wb
        g = sim.get
        w = [(wb.ack, 0)]
        if self.acking:
            self.acking = False
            self.count = None
            return w
        if g(wb.cyc) and g(wb.stb):
            if self.count is None:
                self.count = max(0, self.lat[self.n % len(self.lat)] - 1)
                self.n += 1
            if self.count == 0:
                adr = g(wb.adr)
                if g(wb.we):
                    old = self.read_mem(adr)
                    d, sel = g(wb.dat_w), g(wb.sel)
                    for b in range(self.dw // 8):
                        if (sel >> b) & 1:
                            old = (old & ~(0xff << (8 * b))) | (d & (0xff << (8 * b)))
                    self.mem[adr] = old
                    self.log.append(("W", t, adr, d, sel))
                else:
                    w.append((wb.dat_r, self.read_mem(adr)))
                    self.log.append(("R", t, adr, g(wb.sel)))
                w[0] = (wb.ack, 1)
                self.acking = True
            else:
                self.count -= 1
        else:
            self.count = None
        return w
