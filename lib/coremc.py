"""Whole core with width-converted and/or clock-domain-crossing user ports (crossbar.get_port(data_width=..., clock_domain=...)).
Each port works on its own address region (its own DRAM rows) so that the oracle is per-port memory semantics
(cross-port ordering through a CDC is not defined by the property); banks are shared, so bank conflicts, locks and
refresh still interleave the ports."""
import json
from hypothesis import strategies as st
import lib.compat  # noqa
from lib import corecase as cc
from lib.core import CoreDUT, address_align, clocks_of
from lib.fastsim import FastSim, MigenSim, compile_dut, HarnessError
from lib.native import NativeMaster
from lib.portcase import Layout, RefMem
from lib.refdram import background

_CACHE = {}


def get_sim(cfg, backend):
    clocks = {k: (tuple(v) if isinstance(v, list) else v) for k, v in clocks_of(cfg).items()}
    if backend == "migen":
        d = CoreDUT(cfg)
        return d, MigenSim(d, clocks)
    k = json.dumps(cfg, sort_keys=True)
    if k not in _CACHE:
        if len(_CACHE) > 4:
            _CACHE.clear()
        d = CoreDUT(cfg)
        _CACHE[k] = (d, compile_dut(d, clocks))
    d, c = _CACHE[k]
    return d, FastSim(c)


class MCRun:
    pass


def run(cfg, stim, backend="fast", max_sys=None):
    dut, sim = get_sim(cfg, backend)
    W = cc.word_width(cfg)
    masters = []
    for i, (p, pc, ops) in enumerate(zip(dut.ports, cfg["ports"], stim["ports"])):
        conv_up = p.data_width < W
        pure_cdc = pc.get("clock_domain", "sys") != "sys" and p.data_width == W
        m = NativeMaster(p, ops, name="p%d" % i, flush_at_end=conv_up, use_last=conv_up, wait_reads=stim.get("wait_reads", [False] * len(dut.ports))[i],
                         rready_pattern=(stim.get("rready") or [None] * len(dut.ports))[i] if pure_cdc else None)
        m.domain = pc.get("clock_domain", "sys")
        masters.append(m)
    dram = cc.make_dram(cfg, dut)
    cnt = {}
    g = [0]
    nops = sum(len(o) for o in stim["ports"])
    cap = max_sys or (1500 + nops * 150 + sum(op.get("gap", 0) for o in stim["ports"] for op in o) * 4)
    single = len(clocks_of(cfg)) == 1

    def on_rising(cd):
        t = cnt.get(cd, 0)
        cnt[cd] = t + 1
        w = []
        if cd == "sys":
            w += dram.cycle(sim, t)
        for m in masters:
            if m.domain == cd:
                w += m.cycle(sim, g[0])
        return w
    inner = [(i, dut.crossbar.masters[i]) for i, pc in enumerate(cfg["ports"]) if pc.get("clock_domain", "sys") != "sys"]
    lost_r = []

    strobes = {}

    def probe_inner():
        for i, ip in inner:
            if sim.get(ip.rdata.valid):
                if not sim.get(ip.rdata.ready):
                    # words strobed into the crossing so far and not yet delivered on the user side
                    lost_r.append((cnt.get("sys", 0), i, strobes.get(i, 0) - len(masters[i].r_log)))
                else:
                    strobes[i] = strobes.get(i, 0) + 1
    quiet = 0
    done = False
    while cnt.get("sys", 0) < cap:
        g[0] += 1
        if single:
            w = on_rising("sys")
            sim.step(w)
            rising = {"sys"}
        else:
            rising = sim.tick(on_rising)
        if "sys" in rising:
            if inner:
                probe_inner()
            if all(m.idle() and m.reads_out <= 0 for m in masters) and dram.quiescent():
                quiet += 1
                if quiet >= 150:
                    done = True
                    break
            else:
                quiet = 0
    r = MCRun()
    r.cfg, r.stim, r.dut, r.masters, r.dram, r.completed, r.cycles = cfg, stim, dut, masters, dram, done, cnt.get("sys", 0)
    r.lost_r = lost_r
    return r


def oracle(run, P):
    if run.lost_r:
        t, i, inside = run.lost_r[0]
        # the crossbar strobes rdata.valid for one cycle; the CDC's read-data FIFO was full: everything behind it is derivative.
        # get_port() builds the crossing with its default read-data depth of 16: the listed finding is an overrun of THAT FIFO
        key = "rdata_fifo_full" if inside >= 16 - 3 else "rdata_lost_with_%d_words_inside" % inside
        return [dict(clause=P + ".lost_beat", key=key, what="whole core: crossbar read strobe for CDC port %d at sys cycle %d found the CDC read-data FIFO not ready with %d words inside (%d strobes lost in this case)" % (i, t, inside, len(run.lost_r)))]
    cfg = run.cfg
    W = cc.word_width(cfg)
    am = cc.addrmap_of(cfg)
    align = am.align
    fs = []
    # a converted / crossing port is a view of the SAME memory: the address range it declares times its word size is the size of the memory
    for pi, (p, pc) in enumerate(zip(run.dut.ports, cfg["ports"])):
        n = run.dut.crossbar.masters[pi]            # the native port get_port() created for this user port
        if (1 << p.address_width) * p.data_width != (1 << n.address_width) * n.data_width:
            fs.append(dict(clause=P + ".core_port_address_range", key=_kind(pc, W), what="port %d (%d-bit words, %d address bits) declares %d bits of memory, the native port behind it (%d-bit words, %d address bits) %d bits" % (
                pi, p.data_width, p.address_width, (1 << p.address_width) * p.data_width, n.data_width, n.address_width, (1 << n.address_width) * n.data_width)))
            return fs

    def bg(ca, width):
        rk, bk, rw, col = am.decode(ca)
        return background((rk, bk, rw, col >> align), W, run.dram.salt)
    written_all = {}
    for pi, (m, pc) in enumerate(zip(run.masters, cfg["ports"])):
        udw = pc.get("data_width") or W
        lay = Layout(dict(user_dw=udw, ctrl_dw=W, reverse=pc.get("reverse", False)))
        ref = RefMem(lay, bg)
        exp = []
        for k, op in enumerate(m.ops):
            if m.accept_t[k] is None:
                break
            if op["we"]:
                ref.write(op["addr"], op["data"], op["be"])
            else:
                exp.append((k, ref.read(op["addr"])))
        got = m.r_log
        tag = "port%d(%s%s)" % (pi, "conv %d" % udw if udw != W else "native", " cdc" if pc.get("clock_domain", "sys") != "sys" else "")
        if len(got) > len(exp) or (run.completed and len(got) != len(exp)):
            fs.append(dict(clause=P + ".core_read_beat_count", key=_kind(pc, W), what="%s: %d reads accepted, %d beats returned" % (tag, len(exp), len(got))))
        for j in range(min(len(got), len(exp))):
            if got[j][1] != exp[j][1]:
                fs.append(dict(clause=P + ".core_read_data", key=_kind(pc, W), what="%s read #%d (op %d, address 0x%x) returned 0x%x, reference 0x%x" % (
                    tag, j, exp[j][0], m.ops[exp[j][0]]["addr"], got[j][1], exp[j][1])))
                break
        for ca in ref.written:
            written_all[ca] = ref.word(ca)
    if not run.completed:
        fs.append(dict(clause=P + ".core_incomplete", key="hang", what="not finished after %d sys cycles: accepted %s, read beats %s" % (
            run.cycles, [sum(1 for x in m.accept_t if x is not None) for m in run.masters], [len(m.r_log) for m in run.masters])))
    else:
        for ca, v in written_all.items():
            rk, bk, rw, col = am.decode(ca)
            dv = run.dram.loc_value((rk, bk, rw, col >> align))
            if dv != v:
                fs.append(dict(clause=P + ".core_final_memory", key="mem", what="DRAM word at controller address 0x%x holds 0x%x, reference 0x%x" % (ca, dv, v)))
                break
    for f in run.dram.findings:
        if f["clause"].startswith("C02."):
            fs.append(dict(clause=P + ".core_dram_" + f["clause"][4:], key="dram", what=str(f)))
            break
    return fs


def _kind(pc, W):
    k = []
    if (pc.get("data_width") or W) != W:
        k.append("conv")
    if pc.get("clock_domain", "sys") != "sys":
        k.append("cdc")
    return "+".join(k) or "native"


@st.composite
def core_cfg(draw, want="conv"):
    """small fixed-style core with converted and/or CDC ports"""
    cfg = draw(cc.core_cfg(nports=1, ranks=1, max_bankbits=2))
    cfg["dfi_databits"] = draw(st.sampled_from([8, 16]))
    cfg["ctrl"].pop("bank_byte_alignment", None)
    W = cc.word_width(cfg)
    nports = draw(st.integers(1, 3))
    ports = []
    clocks = {"sys": [10, 0]}
    for i in range(nports):
        p = {}
        if want in ("conv", "both") and (i == 0 or draw(st.booleans())):
            choices = [w for w in (8, 16, 32, 64, 128, 256) if w != W and (w >= 8) and (max(w, W) // min(w, W) <= 16)]
            p["data_width"] = draw(st.sampled_from(choices))
            p["reverse"] = draw(st.booleans())
        if want in ("cdc", "both") and (i == 0 or draw(st.booleans())):
            # any name other than "sys" is another clock domain, whatever it looks like
            name = draw(st.sampled_from(["user%d", "user%d", "sys%dx", "sys_ps%d", "system%d", "eth_rx%d"])) % (i + 2)
            per = 2 * draw(st.integers(2, 20))
            clocks[name] = [per, draw(st.integers(0, per - 1))]
            p["clock_domain"] = name
        ports.append(p)
    cfg["ports"] = ports
    if len(clocks) > 1:
        cfg["clocks"] = clocks
    return cfg


@st.composite
def core_stim(draw, cfg, max_ops=20):
    W = cc.word_width(cfg)
    am = cc.addrmap_of(cfg)
    align = am.align
    nb = 1 << cfg["bankbits"]
    ncolw = 1 << (cfg["colbits"] - align)
    ports = []
    waits = []
    nrows = 1 << cfg["rowbits"]
    # the ports' regions lie at the bottom, at the very top or in the middle of the row range (every address bit of a port is used)
    rowbase = draw(st.sampled_from([0, 0, nrows - 2 * len(cfg["ports"]), (nrows >> 1) - 2]))
    for pi, pc in enumerate(cfg["ports"]):
        udw = pc.get("data_width") or W
        lay = Layout(dict(user_dw=udw, ctrl_dw=W))
        r = lay.ratio
        full = (1 << (udw // 8)) - 1
        # this port's region: rows 2*pi, 2*pi+1 of every bank
        locs = [(0, draw(st.integers(0, nb - 1)), rowbase + 2 * pi + draw(st.integers(0, 1)), draw(st.sampled_from([0, 1, 2, ncolw - 1]))) for _ in range(draw(st.integers(1, 4)))]
        wait = draw(st.integers(0, 3)) == 0
        ops = []
        for _ in range(draw(st.integers(1, max_ops))):
            rk, bk, rw, cw = locs[draw(st.integers(0, len(locs) - 1))]
            ca = am.encode(rk, bk, rw, cw << align)
            if lay.up:
                ua = ca * r + draw(st.integers(0, r - 1))
            elif udw > W:
                ua = ca // r
            else:
                ua = ca
            we = draw(st.integers(0, 1))
            op = dict(we=we, addr=ua, gap=draw(st.sampled_from([0, 0, 0, 1, 4, 15])), last=1 if (not we and wait) or draw(st.integers(0, 5)) == 0 else 0)
            if we:
                op.update(data=draw(st.integers(0, (1 << udw) - 1)), be=full if draw(st.integers(0, 2)) else draw(st.integers(0, full)), lead=draw(st.sampled_from([0, 0, 1])))
            ops.append(op)
        ports.append(ops)
        waits.append(wait)
    # read-data back-pressure from the user (applied to ports that are a plain clock-domain crossing: their read data is a stream)
    rready = [draw(st.sampled_from([None, None, [1, 1], [2, 7], [0, 25, 100, 0]])) for _ in cfg["ports"]]
    return dict(ports=ports, wait_reads=waits, rready=rready)
