"""AXI4 memory slave used by C12 (DMA reader/writer on a LiteDRAMAXIPort).  Per-cycle driver like lib/native.py.

Protocol-conforming slave for single-beat transactions (the DMA classes leave ax.len = 0):
  * aw.ready / w.ready / ar.ready follow generated stall schedules, a handshake is valid & ready in the same cycle;
    W beats may be accepted before their AW (AXI4 allows it), at most qmax unmatched AW, qmax unmatched W and qmax reads
    outstanding;
  * the k-th accepted W beat belongs to the k-th accepted AW (AXI4: write data in address order, no WID); the write is
    performed when both have arrived; its B response is offered `blat` cycles later and HELD until b.ready;
  * an R beat (last = 1) is offered no earlier than `rlat` cycles after its AR was accepted, in AR order, and HELD with
    stable data until r.ready - a conforming AXI slave never drops a beat (the overrun risk of the native port's
    unconditional strobes does not exist here, `lost` stays empty by construction); memory is sampled when the beat is
    first offered; `r_gap` idle cycles between two R beats.
Memory is word addressed (`mem[byte_address >> ashift]`); the log carries BYTE addresses:
  ("C", t, we, byte_addr) / ("W", t, byte_addr, data, strb) / ("R", t, byte_addr, data).
`notes` counts protocol observations on the master that are not part of C12 (W beat without `last`, len != 0, size)."""
from lib.native import schedule_iter


class AXIMem12:
    def __init__(self, port, *, aw_pat=None, w_pat=None, ar_pat=None, r_gap=None, rlat=None, blat=None, qmax=8, init=None, bg=None):
        self.p = port
        self.dw = port.data_width
        self.ashift = (self.dw // 8).bit_length() - 1
        self.aw_s = schedule_iter(aw_pat)
        self.w_s = schedule_iter(w_pat)
        self.ar_s = schedule_iter(ar_pat)
        self.rlat = rlat or [1]
        self.blat = blat or [1]
        self.r_gap = r_gap or [0]
        self.qmax = max(1, qmax)
        self.mem = dict(init or {})
        self.bg = bg or (lambda addr, width: (addr * 0x9E3779B1 + 0x7F4A7C15) & ((1 << width) - 1))
        self.lost = []
        self.log = []
        self.notes = {}
        self.awq, self.wq, self.bq, self.rq = [], [], [], []
        self.nar = self.nrr = self.nb = 0
        self.d_aw = self.d_w = self.d_ar = self.d_b = 0
        self.d_r = None              # (addr, data) currently offered on R
        self.r_next_ok = 0

    def read_mem(self, word_addr, width=None):
        v = self.mem.get(word_addr)
        return self.bg(word_addr, width or self.dw) if v is None else v

    def idle(self):
        return not self.awq and not self.wq and not self.rq and self.d_r is None and not self.bq

    def _note(self, k):
        self.notes[k] = self.notes.get(k, 0) + 1

    def cycle(self, sim, t):
        get = sim.get
        p = self.p
        w = []
        # ---- observe ----
        if self.d_aw and get(p.aw.valid):
            a = get(p.aw.addr)
            if get(p.aw.len) != 0:
                self._note("aw_len_nonzero")
            if get(p.aw.size) != self.ashift:
                self._note("aw_size_unexpected")
            self.awq.append(a)
            self.log.append(("C", t, 1, a))
        if self.d_w and get(p.w.valid):
            if not get(p.w.last):
                self._note("w_beat_without_last")
            self.wq.append((get(p.w.data), get(p.w.strb)))
        while self.awq and self.wq:
            a = self.awq.pop(0)
            d, strb = self.wq.pop(0)
            wa = a >> self.ashift
            old = self.read_mem(wa)
            for b in range(self.dw // 8):
                if (strb >> b) & 1:
                    old = (old & ~(0xff << (8 * b))) | (d & (0xff << (8 * b)))
            self.mem[wa] = old
            self.log.append(("W", t, a, d, strb))
            self.bq.append(t + max(1, self.blat[self.nb % len(self.blat)]))
            self.nb += 1
        if self.d_b and get(p.b.ready):
            self.bq.pop(0)
        if self.d_ar and get(p.ar.valid):
            a = get(p.ar.addr)
            if get(p.ar.len) != 0:
                self._note("ar_len_nonzero")
            if get(p.ar.size) != self.ashift:
                self._note("ar_size_unexpected")
            lat = max(1, self.rlat[self.nar % len(self.rlat)])
            self.rq.append((a, t + lat))
            self.nar += 1
            self.log.append(("C", t, 0, a))
        if self.d_r is not None and get(p.r.ready):
            a, d = self.d_r
            self.log.append(("R", t, a, d))
            self.d_r = None
            self.r_next_ok = t + 1 + self.r_gap[self.nrr % len(self.r_gap)]
            self.nrr += 1
        # ---- drive ----
        self.d_aw = 1 if (next(self.aw_s) and len(self.awq) < self.qmax) else 0
        self.d_w = 1 if (next(self.w_s) and len(self.wq) < self.qmax) else 0
        self.d_ar = 1 if (next(self.ar_s) and len(self.rq) + (self.d_r is not None) < self.qmax) else 0
        w += [(p.aw.ready, self.d_aw), (p.w.ready, self.d_w), (p.ar.ready, self.d_ar)]
        self.d_b = 1 if (self.bq and self.bq[0] <= t + 1) else 0
        w.append((p.b.valid, self.d_b))
        if self.d_r is None and self.rq and self.rq[0][1] <= t + 1 and t + 1 >= self.r_next_ok:
            a, _ = self.rq.pop(0)
            self.d_r = (a, self.read_mem(a >> self.ashift))
        if self.d_r is not None:
            w += [(p.r.valid, 1), (p.r.data, self.d_r[1]), (p.r.last, 1)]
        else:
            w.append((p.r.valid, 0))
        return w
