"""Stream (valid/ready) endpoint drivers with generated stall schedules (DESIGN 2.3).  Per-cycle objects like lib/native.py:
`cycle(sim, t)` looks at the settled values of cycle t and returns the writes to apply at the next edge.  No RNG, no clock.

Schedules (JSON-able dicts, every field optional):
    {"pat": [r0, s0, r1, s1, ...], "hold": [start, length]}
  pat  : ready/valid for r0 cycles, stalled for s0, ready for r1 ... used cyclically; even length, at least one ready cycle
         per period (so progress is always possible); [] / None = always ready
  hold : one window [start, start+length) of cycle numbers in which the value is forced to 0 ("stalled for hundreds of
         cycles"); counted in the value DRIVEN FOR cycle t (the write is made in cycle t-1).
`sched_period(spec)` / `sched_extra(spec)` give the numbers a run loop needs to size its cycle cap."""
from lib.native import schedule_iter


def norm_pattern(pat):
    """even length, at least one ready cycle per period"""
    if not pat:
        return []
    pat = [max(0, int(x)) for x in pat]
    if len(pat) % 2:
        pat = pat + [0]
    if sum(pat[0::2]) == 0:
        pat[0] = 1
    return pat


class Schedule:
    """value(t) for t = 0, 1, 2, ... asked exactly once per cycle in increasing order"""
    def __init__(self, spec=None):
        spec = spec or {}
        self.pat = norm_pattern(spec.get("pat"))
        self.it = schedule_iter(self.pat)
        h = spec.get("hold")
        self.hold = (int(h[0]), int(h[0]) + int(h[1])) if h else None

    def value(self, t):
        if self.hold is not None and self.hold[0] <= t < self.hold[1]:
            return 0          # the cyclic pattern is frozen during the window
        return 1 if next(self.it) else 0


def sched_period(spec):
    pat = norm_pattern((spec or {}).get("pat"))
    return sum(pat) if pat else 1


def sched_extra(spec):
    h = (spec or {}).get("hold")
    return (int(h[0]) + int(h[1])) if h else 0


class StreamSource:
    """Conforming stream producer on `ep` (a DUT sink endpoint).
    items: list of dicts {<field>: value ..., "last": 0/1, "gap": idle cycles before the item is first offered}.
    Once valid is raised, valid and the payload are held unchanged until valid & ready."""
    def __init__(self, ep, items, fields):
        self.ep = ep
        self.items = list(items)
        self.fields = list(fields)
        self.i = 0
        self.offered = False
        self.gap = self.items[0].get("gap", 0) if self.items else 0
        self.accept_t = []
        self.offer_t = []

    def done(self):
        return self.i >= len(self.items) and not self.offered

    def cycle(self, sim, t):
        ep = self.ep
        w = []
        if self.offered and sim.get(ep.ready):
            self.accept_t.append(t)
            self.i += 1
            self.offered = False
            if self.i < len(self.items):
                self.gap = self.items[self.i].get("gap", 0)
        if not self.offered and self.i < len(self.items):
            if self.gap > 0:
                self.gap -= 1
            else:
                it = self.items[self.i]
                self.offered = True
                self.offer_t.append(t + 1)
                w.append((ep.valid, 1))
                w.append((ep.last, 1 if it.get("last") else 0))
                for f in self.fields:
                    w.append((getattr(ep, f), it[f]))
        if not self.offered:
            w.append((ep.valid, 0))
        return w


class StreamSink:
    """Stream consumer on `ep` (a DUT source endpoint): ready follows a Schedule whatever valid does (a consumer may
    raise and drop ready freely).  beats = [(t, {field: value}, last)] for every valid & ready cycle."""
    def __init__(self, ep, fields, spec=None):
        self.ep = ep
        self.fields = list(fields)
        self.s = Schedule(spec)
        self.beats = []
        self.ready_now = 0          # value driven for the current cycle

    def cycle(self, sim, t):
        ep = self.ep
        if self.ready_now and sim.get(ep.valid):
            self.beats.append((t, {f: sim.get(getattr(ep, f)) for f in self.fields}, sim.get(ep.last)))
        self.ready_now = self.s.value(t + 1)
        return [(ep.ready, self.ready_now)]


class LevelDriver:
    """Drives one control signal: `idle` except inside the windows [(start, length), ...] where it is `active`."""
    def __init__(self, sig, windows, idle=1, active=0):
        self.sig = sig
        self.w = sorted((int(a), int(a) + int(b)) for a, b in (windows or []))
        self.idle, self.active = idle, active

    def level(self, t):
        for a, b in self.w:
            if a <= t < b:
                return self.active
        return self.idle

    def end(self):
        return max([b for _, b in self.w] or [0])

    def cycle(self, sim, t):
        return [(self.sig, self.level(t + 1))]
