"""Shard logic shared by the whole-core properties (C01-C05): draw configurations, differential self-test,
Hypothesis search over stimulus, minimisation, confirmation on stock migen.sim."""
import os, time, copy
from lib.runner import Collector, hyp_search, digest
from lib import corecase as cc
from lib.fastsim import HarnessError


def core_shards(pid, tier, seed, ncfg, ncases, nshards=16, **extra):
    out = []
    for i in range(nshards):
        d = dict(pid=pid, tier=tier, seed=seed * 1000 + i, ncfg=ncfg, ncases=ncases, idx=i)
        d.update(extra)
        out.append(d)
    return out


def draw_examples(strategy, n, seed):
    """n distinct values of a strategy.  Hypothesis always generates the all-minimal value first (the same for every seed), so the
    LAST n distinct values of a slightly longer run are returned: every shard then works on its own configurations."""
    out = []
    seen = set()

    def t(c):
        k = digest(c)
        if k not in seen:
            seen.add(k)
            out.append(c)
        return []
    hyp_search(t, strategy, seed, n * 3 + 3, shrink=False)
    return out[-n:]


def sample_of(cfg, stim, classes, run):
    s = dict(cfg={k: cfg[k] for k in ("memtype", "nphases", "nranks", "bankbits", "rowbits", "colbits", "rdphase", "wrphase", "read_latency", "write_latency") if k in cfg},
             timing=cfg["timing"], ctrl=cfg.get("ctrl"), nports=len(cfg["ports"]), classes=sorted(classes), cycles=run.cycles,
             ops_per_port=[len(o) for o in stim["ports"]],
             first_ops=[[{k: (hex(v) if k in ("data", "addr") else v) for k, v in op.items()} for op in o[:4]] for o in stim["ports"][:2]],
             dfi_commands=len(run.dram.cmds), refreshes=len(run.dram.refs))
    if "module" in cfg:
        s["module"] = cfg["module"]
    return s


def ddmin_stim(stim, fails, budget_s=60):
    """greedy chunk removal over each port's op list; fails(stim) -> bool (True = still failing)"""
    t0 = time.time()
    cur = copy.deepcopy(stim)
    changed = True
    while changed and time.time() - t0 < budget_s:
        changed = False
        for pi in range(len(cur["ports"])):
            ops = cur["ports"][pi]
            chunk = max(1, len(ops) // 2)
            while chunk >= 1 and time.time() - t0 < budget_s:
                i = 0
                while i < len(cur["ports"][pi]) and time.time() - t0 < budget_s:
                    trial = copy.deepcopy(cur)
                    del trial["ports"][pi][i:i + chunk]
                    if fails(trial):
                        cur = trial
                        changed = True
                    else:
                        i += chunk
                chunk //= 2
    # zero the gaps / leads where possible
    for pi in range(len(cur["ports"])):
        for k in range(len(cur["ports"][pi])):
            if time.time() - t0 > budget_s:
                break
            for fld in ("gap", "lead"):
                if cur["ports"][pi][k].get(fld):
                    trial = copy.deepcopy(cur)
                    trial["ports"][pi][k][fld] = 0
                    if fails(trial):
                        cur = trial
    return cur


def evaluate(mod, cfg, stim, backend="fast", **override):
    req = mod.req(cfg) if hasattr(mod, "req") else None
    kw = mod.run_kwargs(cfg, stim) if hasattr(mod, "run_kwargs") else {}
    kw.update(override)
    run = cc.run_core(cfg, stim, backend=backend, req=req, **kw)
    fs, classes, nontrivial = mod.oracle(run)
    return run, fs, classes, nontrivial


def run_core_shard(sh, mod):
    col = Collector(mod.ID)
    tier = sh["tier"]
    cfgs = draw_examples(mod.cfg_strategy(tier) if not hasattr(mod, "cfg_strategy_shard") else mod.cfg_strategy_shard(tier, sh), sh["ncfg"], sh["seed"])
    ndiff = (1 if sh["idx"] < 2 else 0) if tier == "quick" else 1
    violation = None
    for ci, cfg in enumerate(cfgs):
        state = dict(first=True)

        def test(stim, cfg=cfg, state=state):
            if state["first"] and ci < ndiff:
                col.diff_cycles += cc.diff_selftest(cfg, stim, 200)
            state["first"] = False
            run, fs, classes, nontrivial = evaluate(mod, cfg, stim)
            col.case(dict(cfg=cfg, stim=stim), classes=list(classes) + [cfg["memtype"] + " 1:%d" % cfg["nphases"]], nontrivial=nontrivial,
                     sample=sample_of(cfg, stim, classes, run))
            col.stat_max("max_cycles_per_case", run.cycles)
            col.stats["simulated_cycles"] = col.stats.get("simulated_cycles", 0) + run.cycles
            if hasattr(mod, "stats"):
                mod.stats(run, col)
            return col.filter(fs)

        found = hyp_search(test, mod.stim_strategy(cfg, tier), sh["seed"] * 100 + ci, sh["ncases"], shrink=(tier == "thorough"))
        if found:
            stim, fs = found
            clause = fs[0]["clause"]

            def fails(s):
                try:
                    _, f2, _, _ = evaluate(mod, cfg, s)
                except Exception:      # a candidate that cannot be evaluated is not a reduction
                    return False
                return any(f["clause"] == clause for f in col_filter_quiet(col, f2))
            if tier == "quick":
                stim = ddmin_stim(stim, fails, 45)
            # confirm on stock migen.sim
            if os.environ.get("VERIF_DEBUG_SKIP_CONFIRM"):      # debugging aid only: look at a finding without waiting for the stock simulator
                violation = dict(case=dict(cfg=cfg, stim=stim), findings=fs, confirmed_on="NOT CONFIRMED (debug run)")
                break
            ckw = {}
            if hasattr(mod, "confirm_kwargs"):
                _, f_fast, _, _ = evaluate(mod, cfg, stim)
                ckw = mod.confirm_kwargs(cfg, stim, [f for f in col_filter_quiet(col, f_fast) if f["clause"] == clause])
            _, f_m, _, _ = evaluate(mod, cfg, stim, backend="migen", **ckw)
            f_m = col_filter_quiet(col, f_m)
            if not any(f["clause"] == clause for f in f_m):
                raise HarnessError("finding %s from fastsim does not reproduce on migen.sim (cfg %s)" % (clause, cc.cfg_key(cfg)))
            violation = dict(case=dict(cfg=cfg, stim=stim), findings=[f for f in f_m if f["clause"] == clause] + [f for f in f_m if f["clause"] != clause],
                             confirmed_on="migen.sim")
            break
    return col.result(violation)


def col_filter_quiet(col, fs):
    from lib.runner import match_known
    return [f for f in fs if match_known(col.known, f) is None]


def replay_core(case, mod):
    col = Collector(mod.ID)
    _, fs, _, _ = evaluate(mod, case["cfg"], case["stim"], backend="migen")
    return col_filter_quiet(col, fs)
