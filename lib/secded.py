"""Independent extended-Hamming (SECDED) reference, used by props/c15.py for cross-checks only.

Written from the textbook construction, not from litex.soc.cores.ecc: code-word positions 1..n, check bits at
the powers of two, data bits fill the remaining positions in increasing order (data bit 0 first); the syndrome
is the XOR of the position numbers of all set bits; an overall parity bit is stored next to the n Hamming bits
(here as bit 0 of the stored word, position p as bit p).

What the C15 check uses:
* `params(k)`            number of check bits m and Hamming length n for k data bits (stored word = n + 1 bits);
* `distance` / `min_distance_violations`  minimum-distance cross-check of the code words the device stores:
  any SECDED code needs pairwise distance >= 4, whatever its bit layout - this needs no layout assumption;
* `encode` / `decode`    the reference codec: compared with the stored words as a statistic (layout match),
  and used by the self-check below; no verdict of C15 depends on the layout being the same.
"""

CLEAN, PARITY_ONLY, CORRECTED, UNCORRECTABLE = "clean", "parity_only", "corrected", "uncorrectable"


def params(k):
    m = 1
    while (1 << m) < m + k + 1:
        m += 1
    return m, m + k


def popcount(x):
    return bin(x).count("1")


def distance(a, b):
    return popcount(a ^ b)


def _data_positions(n):
    return [p for p in range(1, n + 1) if p & (p - 1)]


def _syndrome(word_no_parity_shifted):
    """word bit p (p >= 1) = position p; returns XOR of the positions of the set bits"""
    s = 0
    w = word_no_parity_shifted >> 1
    p = 1
    while w:
        if w & 1:
            s ^= p
        w >>= 1
        p += 1
    return s


def encode(k, d):
    """stored word: bit 0 = overall parity, bit p = Hamming position p (1..n)"""
    m, n = params(k)
    w = 0
    for i, p in enumerate(_data_positions(n)):
        if (d >> i) & 1:
            w |= 1 << p
    s = _syndrome(w)
    j = 0
    while (1 << j) <= n:
        if (s >> j) & 1:
            w |= 1 << (1 << j)
        j += 1
    if popcount(w) & 1:
        w |= 1
    return w


def decode(k, w):
    """returns (data, status)"""
    m, n = params(k)
    w &= (1 << (n + 1)) - 1
    s = _syndrome(w)
    odd = popcount(w) & 1
    status = CLEAN
    if s == 0 and odd:
        status = PARITY_ONLY
    elif s != 0 and odd:
        if s <= n:
            w ^= 1 << s
            status = CORRECTED
        else:
            status = UNCORRECTABLE
    elif s != 0:
        status = UNCORRECTABLE
    d = 0
    for i, p in enumerate(_data_positions(n)):
        if (w >> p) & 1:
            d |= 1 << i
    return d, status


class CodeBook:
    """data word -> stored code word as observed at the memory side; checks determinism and pairwise distance >= 4
    of every new entry against all entries seen so far (bounded)."""

    def __init__(self, k, limit=600):
        self.k = k
        self.limit = limit
        self.words = {}
        self.order = []
        self.pairs_checked = 0
        self.min_seen = None
        self.ref_match = 0
        self.ref_differ = 0

    def add(self, data, code):
        """returns a list of problems: ("nondeterministic", data, code_a, code_b) / ("distance", d, data_a, data_b, code_a, code_b)"""
        out = []
        old = self.words.get(data)
        if old is not None:
            if old != code:
                out.append(("nondeterministic", data, old, code))
            return out
        for other in self.order:
            dist = distance(code, self.words[other])
            self.pairs_checked += 1
            if self.min_seen is None or dist < self.min_seen:
                self.min_seen = dist
            if dist < 4:
                out.append(("distance", dist, other, data, self.words[other], code))
        if len(self.order) < self.limit:
            self.words[data] = code
            self.order.append(data)
        if encode(self.k, data) == code:
            self.ref_match += 1
        else:
            self.ref_differ += 1
        return out


def selfcheck(k, words):
    """reference codec sanity on the given data words: every single flip corrected (or parity only), every double flip
    uncorrectable, clean round trip.  Returns the number of failures (expected 0); exhaustive over flip positions."""
    m, n = params(k)
    bad = 0
    for d in words:
        c = encode(k, d)
        if decode(k, c) != (d, CLEAN):
            bad += 1
        for a in range(n + 1):
            dd, st = decode(k, c ^ (1 << a))
            if dd != d or st != (PARITY_ONLY if a == 0 else CORRECTED):
                bad += 1
            for b in range(a + 1, n + 1):
                dd, st = decode(k, c ^ (1 << a) ^ (1 << b))
                if st != UNCORRECTABLE:
                    bad += 1
    return bad
