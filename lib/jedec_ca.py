"""Independent LPDDR4 / LPDDR5 command-bus DECODERS (CS/CA sample stream -> operations and operands).

Written from the command truth tables of JESD209-4 (LPDDR4, "Command Truth Table") and JESD209-5 (LPDDR5,
"Command Truth Table") as transcribed below; nothing here is derived from litedram/phy/lpddr*/commands.py.

LPDDR4 (JESD209-4B table, SDR command bus, CA[5:0], every command word = 2 CK rising edges, CS = H on the
first, L on the second; H/L levels listed CA0..CA5):

    command   first edge (CS=H)            second edge (CS=L)
    MPC       L L L L L   OP6              OP0 OP1 OP2 OP3 OP4 OP5        (OP6 = L: NOP)
    PRE       L L L L H   AB               BA0 BA1 BA2 V   V   V
    REF       L L L H L   AB               BA0 BA1 BA2 V   V   V
    SRE       L L L H H   V                V ...
    WR-1      L L H L L   BL               BA0 BA1 BA2 V   C9  AP
    SRX       L L H L H   V                V ...
    MWR-1     L L H H L   L                BA0 BA1 BA2 V   C9  AP
    RFU       L L H H H   V
    RD-1      L H L L L   BL               BA0 BA1 BA2 V   C9  AP
    CAS-2     L H L L H   C8               C2  C3  C4  C5  C6  C7
    RFU       L H L H L/H V
    MRW-1     L H H L L   OP7              MA0 MA1 MA2 MA3 MA4 MA5
    MRW-2     L H H L H   OP6              OP0 OP1 OP2 OP3 OP4 OP5
    MRR-1     L H H H L   V                MA0 MA1 MA2 MA3 MA4 MA5
    RFU       L H H H H   V
    ACT-1     H L R12 R13 R14 R15          BA0 BA1 BA2 R16 R10 R11
    ACT-2     H H R6  R7  R8  R9           R0  R1  R2  R3  R4  R5

  WR-1, MWR-1, RD-1, MRR-1 and the training MPCs (RD FIFO, WR FIFO, RD DQ CAL) must be followed immediately by
  CAS-2; ACT-1 immediately by ACT-2; MRW-1 immediately by MRW-2.  CS high on two consecutive clocks is not a
  command.  C1:C0 are not transmitted (always 0, BL16 aligned).

LPDDR5 (JESD209-5 table, CS sampled at the CK rising edge, CA[6:0] DDR: R1 = rising, F1 = falling edge;
levels listed CA0..CA6):

    command   R1 (CS=H)                      F1
    NOP       L L L L L L L                  X
    PDE       L L L L L L H                  X
    ACT-1     H H H R14 R15 R16 R17          BA0 BA1 BA2 BA3 R11 R12 R13
    ACT-2     H H L R7  R8  R9  R10          R0  R1  R2  R3  R4  R5  R6
    PRE       L L L H H H H                  BA0 BA1 BA2 BA3 V   V   AB
    REF       L L L H H H L                  BA0 BA1 BA2 RFM SB0 SB1 AB      (RFM = L: refresh; 209-5: V V V)
    MWR       L H L C0 C3 C4 C5              BA0 BA1 BA2 BA3 C1  C2  AP
    WR16      L H H C0 C3 C4 C5              BA0 BA1 BA2 BA3 C1  C2  AP
    WR32      L L H L  C3 C4 C5              BA0 BA1 BA2 BA3 C1  C2  AP
    RD16      H L L C0 C3 C4 C5              BA0 BA1 BA2 BA3 C1  C2  AP
    RD32      H L H C0 C3 C4 C5              BA0 BA1 BA2 BA3 C1  C2  AP
    CAS       L L H H WS_WR WS_RD WS_FS      DC0 DC1 DC2 DC3 WRX WXSA WXSB
    MPC       L L L L H H OP7                OP0 .. OP6
    SRE       L L L H L H H                  V V V V V DSM PD
    SRX       L L L H L H L                  V
    MRW-1     L L L H H L H                  MA0 .. MA6
    MRW-2     L L L H L L OP7                OP0 .. OP6
    MRR       L L L H H L L                  MA0 .. MA6
    WFF       L L L L L H H                  L
    RFF       L L L L L H L                  L
    RDC       L L L L H L H                  L

  ACT-2 follows ACT-1 within tAAD (8 CK); MRW-2 immediately follows MRW-1.  In the CAS command at most one of
  WS_WR / WS_RD / WS_FS is high (all three high = WCK2CK sync off).

Decoders return a list of dicts: {"op": name, "t": slot index of the first CS=H sample of the command, operands...}.
Anything that is not a well-formed command sequence is returned as {"op": "ILLEGAL", "t": .., "why": ..} instead of
raising, so that a checker can report it with the surrounding stream.
"""


def _b(w, i):
    return (w >> i) & 1


def _bits(w, lo, n):
    return (w >> lo) & ((1 << n) - 1)


# ------------------------------------------------------------------------------------------------ LPDDR4

LPDDR4_MPC_NAMES = {
    0b1000001: "RD_FIFO", 0b1000011: "RD_DQ_CAL", 0b1000111: "WR_FIFO", 0b1001011: "START_DQS_OSC",
    0b1001101: "STOP_DQS_OSC", 0b1001111: "ZQCAL_START", 0b1010001: "ZQCAL_LATCH",
}
LPDDR4_MPC_NEEDS_CAS2 = (0b1000001, 0b1000011, 0b1000111)


def lpddr4_mpc_name(op):
    if not (op >> 6) & 1:
        return "NOP"
    return LPDDR4_MPC_NAMES.get(op, "RESERVED")


def lpddr4_word(ca1, ca2):
    """one 2-clock command word: ca1 sampled with CS=H, ca2 with CS=L -> (name, fields)"""
    c = [_b(ca1, i) for i in range(6)]
    d = [_b(ca2, i) for i in range(6)]
    if c[0]:
        if not c[1]:
            # ACT-1: R12..R15 | BA0-2 R16 R10 R11
            return "ACT-1", dict(bank=d[0] | d[1] << 1 | d[2] << 2,
                                 row_part=(c[2] << 12 | c[3] << 13 | c[4] << 14 | c[5] << 15 | d[3] << 16 | d[4] << 10 | d[5] << 11))
        # ACT-2: R6..R9 | R0..R5
        return "ACT-2", dict(row_part=(c[2] << 6 | c[3] << 7 | c[4] << 8 | c[5] << 9 | _bits(ca2, 0, 6)))
    code = (c[1], c[2], c[3], c[4])
    ba = d[0] | d[1] << 1 | d[2] << 2
    if code == (0, 0, 0, 0):
        return "MPC", dict(mpc_op=c[5] << 6 | _bits(ca2, 0, 6))
    if code == (0, 0, 0, 1):
        return "PRE", dict(ab=c[5], bank=ba)
    if code == (0, 0, 1, 0):
        return "REF", dict(ab=c[5], bank=ba)
    if code == (0, 0, 1, 1):
        return "SRE", {}
    if code == (0, 1, 0, 0):
        return "WR-1", dict(bl=c[5], bank=ba, c9=d[4], ap=d[5])
    if code == (0, 1, 0, 1):
        return "SRX", {}
    if code == (0, 1, 1, 0):
        return "MWR-1", dict(bl=c[5], bank=ba, c9=d[4], ap=d[5])
    if code == (1, 0, 0, 0):
        return "RD-1", dict(bl=c[5], bank=ba, c9=d[4], ap=d[5])
    if code == (1, 0, 0, 1):
        # CAS-2: C8 | C2..C7
        return "CAS-2", dict(col_part=(c[5] << 8 | _bits(ca2, 0, 6) << 2))
    if code == (1, 1, 0, 0):
        return "MRW-1", dict(op7=c[5], ma=_bits(ca2, 0, 6))
    if code == (1, 1, 0, 1):
        return "MRW-2", dict(op_low=c[5] << 6 | _bits(ca2, 0, 6))
    if code == (1, 1, 1, 0):
        return "MRR-1", dict(ma=_bits(ca2, 0, 6))
    return "RFU", dict(code="".join("HL"[1 - x] for x in c[:5]))


_L4_SECOND = {"ACT-1": "ACT-2", "WR-1": "CAS-2", "MWR-1": "CAS-2", "RD-1": "CAS-2", "MRR-1": "CAS-2", "MRW-1": "MRW-2"}
_L4_FULL = {"WR-1": "WR", "MWR-1": "MWR", "RD-1": "RD", "MRR-1": "MRR"}


def decode_lpddr4(samples):
    """samples: list of (cs, ca) per CK rising edge, ca = int with bit i = CA[i].  Returns list of command dicts."""
    n = len(samples)
    words = []           # (t, name, fields)
    out = []
    t = 0
    while t < n:
        cs, ca = samples[t]
        if not cs:
            t += 1
            continue
        if t + 1 >= n:
            out.append(dict(op="TRUNCATED", t=t))
            break
        cs2, ca2 = samples[t + 1]
        if cs2:
            out.append(dict(op="ILLEGAL", t=t, why="CS high on two consecutive clocks"))
            t += 1
            continue
        name, f = lpddr4_word(ca, ca2)
        words.append((t, name, f))
        t += 2
    k = 0
    while k < len(words):
        t, name, f = words[k]
        nxt = words[k + 1] if k + 1 < len(words) else None
        want = _L4_SECOND.get(name)
        if name == "MPC" and f["mpc_op"] in LPDDR4_MPC_NEEDS_CAS2:
            want = "CAS-2"
        if want is not None:
            if nxt is None or nxt[0] != t + 2 or nxt[1] != want:
                if name == "MPC":
                    out.append(dict(op="ILLEGAL", t=t, why="MPC %s (OP=0x%02x) not immediately followed by CAS-2" % (lpddr4_mpc_name(f["mpc_op"]), f["mpc_op"]),
                                    first="MPC", mpc_op=f["mpc_op"]))
                else:
                    out.append(dict(op="ILLEGAL", t=t, why="%s not immediately followed by %s" % (name, want), first=name))
                k += 1
                continue
            g = nxt[2]
            if name == "ACT-1":
                out.append(dict(op="ACT", t=t, bank=f["bank"], row=f["row_part"] | g["row_part"]))
            elif name == "MRW-1":
                out.append(dict(op="MRW", t=t, ma=f["ma"], mr_op=f["op7"] << 7 | g["op_low"]))
            elif name == "MRR-1":
                out.append(dict(op="MRR", t=t, ma=f["ma"], col=g["col_part"]))
            elif name == "MPC":
                out.append(dict(op="MPC", t=t, mpc_op=f["mpc_op"], name=lpddr4_mpc_name(f["mpc_op"]), col=g["col_part"]))
            else:
                out.append(dict(op=_L4_FULL[name], t=t, bank=f["bank"], col=f["c9"] << 9 | g["col_part"], ap=f["ap"], bl=f["bl"]))
            k += 2
            continue
        if name in ("ACT-2", "CAS-2", "MRW-2"):
            out.append(dict(op="ILLEGAL", t=t, why="%s without its first half" % name, first=name))
        elif name == "RFU":
            out.append(dict(op="ILLEGAL", t=t, why="reserved command code %s" % f["code"], first=name))
        elif name == "MPC":
            out.append(dict(op="MPC", t=t, mpc_op=f["mpc_op"], name=lpddr4_mpc_name(f["mpc_op"])))
        else:
            d = dict(op=name, t=t)
            d.update(f)
            out.append(d)
        k += 1
    out.sort(key=lambda e: e["t"])
    return out


# ------------------------------------------------------------------------------------------------ LPDDR5

LPDDR5_MPC_NAMES = {
    0b10000001: "START_WCK2DQI_OSC", 0b10000010: "STOP_WCK2DQI_OSC", 0b10000011: "START_WCK2DQO_OSC",
    0b10000100: "STOP_WCK2DQO_OSC", 0b10000101: "ZQCAL_START", 0b10000110: "ZQCAL_LATCH",
}
LPDDR5_TAAD = 8


def lpddr5_word(r1, f1):
    """one CK: r1 = CA[6:0] at the rising edge (CS=H), f1 at the falling edge -> (name, fields)"""
    c = [_b(r1, i) for i in range(7)]
    d = [_b(f1, i) for i in range(7)]
    ba4 = _bits(f1, 0, 4)
    if c[0] and c[1]:
        if c[2]:
            return "ACT-1", dict(bank=ba4, row_part=(c[3] << 14 | c[4] << 15 | c[5] << 16 | c[6] << 17 | d[4] << 11 | d[5] << 12 | d[6] << 13))
        return "ACT-2", dict(row_part=(c[3] << 7 | c[4] << 8 | c[5] << 9 | c[6] << 10 | _bits(f1, 0, 7)))
    colrw = dict(bank=ba4, col=(c[3] << 0 | d[4] << 1 | d[5] << 2 | c[4] << 3 | c[5] << 4 | c[6] << 5), ap=d[6])
    if c[0] and not c[1]:
        return ("RD32" if c[2] else "RD16"), colrw
    if not c[0] and c[1]:
        return ("WR16" if c[2] else "MWR"), colrw
    # CA0 = L, CA1 = L
    if c[2]:
        if not c[3]:
            f = dict(colrw)
            f["col"] &= ~1
            return "WR32", f
        return "CAS", dict(ws_wr=c[4], ws_rd=c[5], ws_fs=c[6], dc=_bits(f1, 0, 4), wrx=d[4], wxsa=d[5], wxsb=d[6])
    # CA0..2 = L L L
    t = (c[3], c[4], c[5], c[6])
    if c[3]:
        if t == (1, 1, 1, 1):
            return "PRE", dict(bank=ba4, ab=d[6])
        if t == (1, 1, 1, 0):
            return "REF", dict(bank=_bits(f1, 0, 3), rfm=d[3], sb=d[4] | d[5] << 1, ab=d[6])
        if t == (1, 1, 0, 1):
            return "MRW-1", dict(ma=_bits(f1, 0, 7))
        if t == (1, 1, 0, 0):
            return "MRR", dict(ma=_bits(f1, 0, 7))
        if t == (1, 0, 1, 1):
            return "SRE", dict(dsm=d[5], pd=d[6])
        if t == (1, 0, 1, 0):
            return "SRX", {}
        return "MRW-2", dict(mr_op=c[6] << 7 | _bits(f1, 0, 7))       # L L L H L L OP7
    if t[:3] == (0, 1, 1):
        op = c[6] << 7 | _bits(f1, 0, 7)
        return "MPC", dict(mpc_op=op, name=LPDDR5_MPC_NAMES.get(op, "RESERVED"))
    if t == (0, 1, 0, 1):
        return "RDC", dict(f1=f1)
    if t == (0, 0, 1, 1):
        return "WFF", dict(f1=f1)
    if t == (0, 0, 1, 0):
        return "RFF", dict(f1=f1)
    if t == (0, 0, 0, 1):
        return "PDE", {}
    if t == (0, 0, 0, 0):
        return "NOP", {}
    return "RFU", dict(code="".join("HL"[1 - x] for x in c))


def decode_lpddr5(samples):
    """samples: list of (cs, ca_rising, ca_falling) per CK.  Returns list of command dicts (CAS is its own command)."""
    out = []
    pend_act = None
    pend_mrw = None
    for t, (cs, r1, f1) in enumerate(samples):
        if not cs:
            if pend_mrw is not None:
                out.append(dict(op="ILLEGAL", t=pend_mrw[0], why="MRW-1 not immediately followed by MRW-2", first="MRW-1"))
                pend_mrw = None
            continue
        name, f = lpddr5_word(r1, f1)
        if pend_mrw is not None:
            t0, f0 = pend_mrw
            pend_mrw = None
            if name == "MRW-2":
                out.append(dict(op="MRW", t=t0, ma=f0["ma"], mr_op=f["mr_op"]))
                continue
            out.append(dict(op="ILLEGAL", t=t0, why="MRW-1 not immediately followed by MRW-2", first="MRW-1"))
        if name == "ACT-1":
            if pend_act is not None:
                out.append(dict(op="ILLEGAL", t=pend_act[0], why="ACT-1 followed by another ACT-1", first="ACT-1"))
            pend_act = (t, f)
        elif name == "ACT-2":
            if pend_act is None:
                out.append(dict(op="ILLEGAL", t=t, why="ACT-2 without ACT-1", first="ACT-2"))
            else:
                t0, f0 = pend_act
                pend_act = None
                if t - t0 > LPDDR5_TAAD:
                    out.append(dict(op="ILLEGAL", t=t0, why="ACT-2 later than tAAD after ACT-1", first="ACT-1"))
                else:
                    out.append(dict(op="ACT", t=t0, t2=t, bank=f0["bank"], row=f0["row_part"] | f["row_part"]))
        elif name == "MRW-1":
            pend_mrw = (t, f)
        elif name == "MRW-2":
            out.append(dict(op="ILLEGAL", t=t, why="MRW-2 without MRW-1", first="MRW-2"))
        elif name == "RFU":
            out.append(dict(op="ILLEGAL", t=t, why="reserved command code %s" % f["code"], first="RFU"))
        elif name == "CAS":
            nhi = f["ws_wr"] + f["ws_rd"] + f["ws_fs"]
            d = dict(op="CAS", t=t)
            d.update(f)
            d["ws"] = {0: "NONE", 3: "OFF"}.get(nhi, "WR" if f["ws_wr"] else "RD" if f["ws_rd"] else "FS")
            if nhi == 2:
                out.append(dict(op="ILLEGAL", t=t, why="CAS with two WCK2CK sync bits high", first="CAS"))
            else:
                out.append(d)
        else:
            d = dict(op=name, t=t)
            d.update(f)
            out.append(d)
    if pend_act is not None:
        out.append(dict(op="ILLEGAL", t=pend_act[0], why="ACT-1 without ACT-2", first="ACT-1"))
    if pend_mrw is not None:
        out.append(dict(op="TRUNCATED", t=pend_mrw[0]))
    out.sort(key=lambda e: e["t"])
    return out


# ------------------------------------------------------------------------------------------------ self test

def _selftest():
    """hand-assembled vectors (levels typed from the tables above, CA0 first)"""
    def w(s):
        return sum(1 << i for i, ch in enumerate(s.split()) if ch == "H")
    # LPDDR4: ACT bank 5 row 0x1_2345 :  R16..R0 = 1 0010 0011 0100 0101
    row = 0x12345
    r = lambda i: "HL"[1 - ((row >> i) & 1)]
    s = [(1, w("H L %s %s %s %s" % (r(12), r(13), r(14), r(15)))), (0, w("H L H %s %s %s" % (r(16), r(10), r(11)))),
         (1, w("H H %s %s %s %s" % (r(6), r(7), r(8), r(9)))), (0, w(" ".join(r(i) for i in range(6)))), (0, 0),
         # PRE all banks, bank 3
         (1, w("L L L L H H")), (0, w("H H L L L L")),
         # MRW MA=0x2a OP=0xc3: MRW-1 OP7=H, MA = L H L H L H ; MRW-2 OP6=H, OP5..0 = 000011 -> OP0 H OP1 H
         (1, w("L H H L L H")), (0, w("L H L H L H")), (1, w("L H H L H H")), (0, w("H H L L L L")),
         # RD bank 2 col 0x2a4 (C9=1 C8=0 C7..C2 = 101001) AP=1
         (1, w("L H L L L L")), (0, w("L H L L H H")), (1, w("L H L L H L")), (0, w("H L L H L H"))]
    got = decode_lpddr4(s)
    assert got == [dict(op="ACT", t=0, bank=5, row=row), dict(op="PRE", t=5, ab=1, bank=3),
                   dict(op="MRW", t=7, ma=0x2a, mr_op=0xc3), dict(op="RD", t=11, bank=2, col=0x2a4, ap=1, bl=0)], got
    # LPDDR5: ACT bank 9 row 0x2_1234, RD16 bank 6 col 0b101101 ap 0, MRW ma 0x55 op 0x81
    row = 0x21234
    s5 = [(1, w("H H H %s %s %s %s" % (r(14), r(15), r(16), r(17))), w("H L L H %s %s %s" % (r(11), r(12), r(13)))),
          (1, w("H H L %s %s %s %s" % (r(7), r(8), r(9), r(10))), w(" ".join(r(i) for i in range(7)))),
          (0, 0, 0),
          (1, w("H L L H H L H"), w("L H H L L H L")),
          (1, w("L L L H H L H"), w("H L H L H L H")), (1, w("L L L H L L H"), w("H L L L L L L"))]
    got = decode_lpddr5(s5)
    assert got == [dict(op="ACT", t=0, t2=1, bank=9, row=row), dict(op="RD16", t=3, bank=6, col=0b101101, ap=0),
                   dict(op="MRW", t=4, ma=0x55, mr_op=0x81)], got
    return True


if __name__ == "__main__":
    print(_selftest())
