"""Exact-rational datasheet arithmetic, independent of SDRAMModule's float conversion.

entry(...)            -> (ck, ns) as Fractions (0 where absent) or None if the datasheet does not declare the timing
need_clocks(e, tck)   -> requirement in DRAM clocks = max(ck, ns / tck) as a Fraction
"""
from fractions import Fraction

SPEEDGRADE_T = ["tRP", "tRCD", "tWR", "tRFC", "tFAW", "tRAS"]
TECHNOLOGY_T = ["tREFI", "tWTR", "tCCD", "tRRD", "tZQCS"]
TOL_NS = Fraction(1, 10**6)      # tolerance for the binary representation of decimal datasheet values only


def F(x):
    if x is None:
        return Fraction(0)
    return Fraction(x)


def raw_entry(cls, speedgrade, name):
    """the datasheet entry as declared by the module class (tuple, number, dict or None)"""
    if name in SPEEDGRADE_T:
        if hasattr(cls, "speedgrade_timings"):
            sg = "default" if speedgrade is None else speedgrade
            return getattr(cls.speedgrade_timings[sg], name)
        attr = name + "_" + speedgrade if speedgrade is not None else name
        return getattr(cls, attr, None)
    if hasattr(cls, "technology_timings"):
        return getattr(cls.technology_timings, name)
    return getattr(cls, name, None)


def entry(cls, speedgrade, name, fine=None):
    e = raw_entry(cls, speedgrade, name)
    if e is None:
        return None
    if isinstance(e, dict):
        e = e[fine if fine is not None else "1x"]
        if e is None:
            return None
    if isinstance(e, tuple):
        ck, ns = e
    else:
        ck, ns = None, e
    return (F(ck), F(ns))


def entry_sum(a, b):
    if a is None or b is None:
        return None
    return (a[0] + b[0], a[1] + b[1])


def period_ns(clk_freq):
    return Fraction(10**9) / Fraction(clk_freq)


def need_clocks(e, tck_ns):
    return max(e[0], e[1] / tck_ns)


def speedgrades(cls):
    if hasattr(cls, "speedgrade_timings"):
        return list(cls.speedgrade_timings.keys())
    return [None]


def fine_modes(cls):
    return ["1x", "2x", "4x"] if getattr(cls, "memtype", None) == "DDR4" else [None]
