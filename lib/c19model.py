"""C19 harness: litedram.phy.model.SDRAMPHYModel against the independent reference DRAM (lib/refdram.py).

Pieces
  * configurations (JSON-able dicts) -> module instance (library class with a reduced row count, or library timings with a
    synthetic geometry), PhySettings from get_sdram_phy_settings, init image (list of 32-bit words) + address mapping;
  * `image_value`: what a location must hold after an init image, written from the *names* of the two mappings
    (ROW_BANK_COL: linear address = {row, bank, column}; BANK_ROW_COL: {bank, row, column}; image byte k = byte k of the
    linear space, little endian 32-bit words), no code shared with the model;
  * `ImgRefDRAM`: RefDRAM whose never-written background is that image (zeros without an image) - the model's background;
  * `Sched`: constructive scheduler.  It turns a list of abstract intents (act / pre / prea / ref / rd / wr / desel, each with a
    gap) into DFI commands placed at the earliest DRAM clock allowed by the bank state and by a generated timing set; nothing is
    generated and rejected.  RefDRAM's own state and timing monitors run on the result as an independent legality check
    (a complaint there is a harness error, not a verdict);
  * run loops: model alone (source i), controller + crossbar + model with conforming native masters (source ii); RefDRAM reads
    the same DFI signals in lock-step, its `rddata`/`rddata_valid` writes are the expectation for the next cycle.
"""
import io, contextlib, copy
import lib.compat  # noqa
from migen import *
from hypothesis import strategies as st

from lib.refdram import RefDRAM, background
from lib.fastsim_mem import compile_dut, FastSim, MigenSim, HarnessError
from lib.native import NativeMaster
from lib.addrmap import AddrMap

MEMTYPES = ["SDR", "DDR", "LPDDR", "DDR2", "DDR3", "DDR4"]
RATE = {"SDR": "1:1", "DDR": "1:2", "LPDDR": "1:2", "DDR2": "1:2", "DDR3": "1:4", "DDR4": "1:4"}
BASES = {
    "SDR": ["MT48LC4M16", "IS42S16160", "AS4C32M8", "M12L64322A"],
    "DDR": ["MT46V32M16"],
    "LPDDR": ["MT46H32M16", "MT46H128M16", "MT46H32M32"],
    "DDR2": ["MT47H64M16", "MT47H32M16", "MT47H128M8"],
    "DDR3": ["MT41K64M16", "MT41J256M8", "K4B1G0446F"],
    "DDR4": ["EDY4016A", "MT40A512M8", "MT40A256M16"],
}
# controller clocks that select every cl/cwl pair get_sdram_phy_settings can produce
CLOCKS = {
    "SDR": [50e6, 100e6, 133e6], "DDR": [50e6, 100e6], "LPDDR": [50e6, 100e6],
    "DDR2": [100e6, 125e6, 166e6, 200e6, 250e6],
    "DDR3": [100e6, 125e6, 166e6, 200e6, 233e6],
    "DDR4": [150e6, 200e6, 233e6, 266e6, 300e6, 333e6],
}
MAX_WORDS = 1 << 14          # model memory words over all banks (one Migen signal each in the simulators)


def log2(n):
    assert n > 0 and n & (n - 1) == 0, n
    return n.bit_length() - 1


# ---------------------------------------------------------------------------------------------------
# configuration -> objects
def module_class(cfg):
    """library class `base` with nbanks/nrows/ncols of the configuration.  The address bus is `addressbits` wide: the model
    indexes A10 (all-banks precharge), which a device with few rows would not have (every real device has >= 11 row bits)."""
    import litedram.modules as M
    base = getattr(M, cfg["base"])
    ab = cfg["addressbits"]

    def __init__(self, *a, **k):
        base.__init__(self, *a, **k)
        self.geom_settings.addressbits = max(self.geom_settings.addressbits, ab)
    return type("C19_" + cfg["base"], (base,), dict(nbanks=cfg["nbanks"], nrows=cfg["nrows"], ncols=cfg["ncols"], __init__=__init__))


def make_module(cfg):
    return module_class(cfg)(cfg["clk_freq"], RATE[cfg["memtype"]])


def make_settings(cfg):
    from litedram.phy.model import get_sdram_phy_settings
    return get_sdram_phy_settings(cfg["memtype"], cfg["databits"], cfg["clk_freq"])


def image_words(cfg):
    """the init image: 32-bit words, a pure function of (seed, length)"""
    im = cfg.get("init")
    if not im:
        return []
    n, seed = im["nwords"], im["seed"]
    style = im.get("style", "hash")
    if style == "index":
        return [(k + 1) & 0xffffffff for k in range(n)]
    return [background((0, 0, k >> 10, k & 1023), 32, seed) for k in range(n)]


def params(cfg):
    """everything the harness needs about the PHY/geometry, derived from PhySettings (not from the model)"""
    s = make_settings(cfg)
    nph = s.nphases
    W = s.dfi_databits * nph
    cpw = W // cfg["databits"]                      # column addresses per DFI word (= burst length on the DRAM bus)
    mt = cfg["memtype"]
    if mt == "SDR":
        WL, BLc, CL = 0, cpw, s.cl
    elif mt in ("DDR", "LPDDR"):
        WL, BLc, CL = 1, cpw // 2, s.cl
    else:
        WL, BLc, CL = s.cwl, cpw // 2, s.cl
    return dict(nph=nph, W=W, dw=s.dfi_databits, cpw=cpw, align=log2(cpw), rdphase=s.rdphase, wrphase=s.wrphase, rl=s.read_latency, wl=s.write_latency,
                WL=WL, BLc=BLc, CL=CL, nbanks=cfg["nbanks"], nrows=cfg["nrows"], ncols=cfg["ncols"], ncw=cfg["ncols"] // cpw,
                bankbits=log2(cfg["nbanks"]), rowbits=log2(cfg["nrows"]), colbits=log2(cfg["ncols"]), addressbits=cfg["addressbits"])


def build_model(cfg):
    from litedram.phy.model import SDRAMPHYModel
    kw = {}
    if cfg.get("init"):
        kw["init"] = list(image_words(cfg))          # the model pads the list it is given in place
        kw["address_mapping"] = cfg["init"]["mapping"]
    return SDRAMPHYModel(make_module(cfg), make_settings(cfg), clk_freq=cfg["clk_freq"], we_granularity=cfg["weg"], verbosity=cfg.get("verbosity", 0), **kw)


class CoreModelDUT(Module):
    """LiteDRAMController + LiteDRAMCrossbar (like lib/core.py CoreDUT) with the bundled model as PHY + DRAM"""
    def __init__(self, cfg):
        from litedram.common import TimingSettings
        from litedram.core.controller import ControllerSettings, LiteDRAMController
        from litedram.core.crossbar import LiteDRAMCrossbar
        from lib.core import TIMING_KEYS
        core = cfg["core"]
        self.submodules.model = model = build_model(cfg)
        timing = TimingSettings(**{k: core["timing"].get(k) for k in TIMING_KEYS})
        self.submodules.controller = c = LiteDRAMController(model.settings, model.module.geom_settings, timing, cfg["clk_freq"], ControllerSettings(**core["ctrl"]))
        self.comb += c.dfi.connect(model.dfi)
        self.submodules.crossbar = LiteDRAMCrossbar(c.interface)
        self.ports = [self.crossbar.get_port() for _ in range(core["nports"])]
        self.dfi = model.dfi


def core_cfg_of(cfg):
    """the dict lib/corecase.py strategies and helpers expect"""
    P = params(cfg)
    s = make_settings(cfg)
    core = cfg["core"]
    return dict(memtype=cfg["memtype"], nphases=P["nph"], dfi_databits=P["dw"], rdphase=P["rdphase"], wrphase=P["wrphase"], cl=s.cl, cwl=s.cwl,
                read_latency=P["rl"], write_latency=P["wl"], nranks=1, bankbits=P["bankbits"], rowbits=P["rowbits"], colbits=P["colbits"],
                clk_freq=cfg["clk_freq"], timing=core["timing"], ctrl=core["ctrl"], ports=[{} for _ in range(core["nports"])])


_CACHE = {}
_ORDER = []


def cfg_key(cfg):
    import json
    return json.dumps(cfg, sort_keys=True)


def strip_displays(stmts):
    """remove Display statements (output only, no effect on any signal).  The model's timing checker passes Python ints as
    Display arguments, which stock migen.sim refuses with an assertion as soon as such a statement executes."""
    from migen.fhdl.structure import If, Case, Display
    out = []
    for s in stmts:
        if isinstance(s, Display):
            continue
        if isinstance(s, If):
            s.t = strip_displays(s.t)
            s.f = strip_displays(s.f)
        elif isinstance(s, Case):
            for k in list(s.cases):
                s.cases[k] = strip_displays(s.cases[k])
        elif isinstance(s, (list, tuple)):
            s = strip_displays(s)
        out.append(s)
    return out


@contextlib.contextmanager
def cheap_signal_names():
    """Every Signal() walks the whole Python stack to derive a name for Verilog output (migen.fhdl.tracer.trace_back); the
    simulator front end creates one Signal per memory word.  Names are irrelevant for simulation: stub the walk while the
    device and its simulator are built."""
    import migen.fhdl.tracer as tr
    orig = tr.trace_back
    tr.trace_back = lambda varname=None: [(varname or "sig", 0)]
    try:
        yield
    finally:
        tr.trace_back = orig


def get_sim(cfg, backend="fast"):
    """(dut, sim).  dut has .dfi (and .ports for a core configuration)"""
    with cheap_signal_names():
        return _get_sim(cfg, backend)


def _get_sim(cfg, backend="fast"):
    mk = CoreModelDUT if cfg.get("core") else build_model
    if backend == "migen":
        dut = mk(cfg)
        sim = MigenSim(dut, {"sys": 10})
        if cfg.get("verbosity"):
            sim.frag.comb[:] = strip_displays(sim.frag.comb)
            for cd in list(sim.frag.sync):
                sim.frag.sync[cd] = strip_displays(sim.frag.sync[cd])
        return dut, sim
    k = cfg_key(cfg)
    ent = _CACHE.get(k)
    if ent is None:
        dut = mk(cfg)
        ent = _CACHE[k] = (dut, compile_dut(dut, {"sys": 10}))
        _ORDER.append(k)
        if len(_ORDER) > 3:
            _CACHE.pop(_ORDER.pop(0), None)
    return ent[0], FastSim(ent[1])


# ---------------------------------------------------------------------------------------------------
# independent statement of the two init-image layouts
def image_bytes(cfg):
    return b"".join(w.to_bytes(4, "little") for w in image_words(cfg))


def word_to_loc(cfg, P, A, mapping):
    """DFI-word index of the linear address space -> (bank, row, column word)"""
    ncw, nb, nr = P["ncw"], P["nbanks"], P["nrows"]
    cw = A % ncw
    hi = A // ncw
    if mapping == "ROW_BANK_COL":
        return hi % nb, hi // nb, cw
    if mapping == "BANK_ROW_COL":
        return hi // nr, hi % nr, cw
    raise ValueError(mapping)


def loc_to_word(cfg, P, bank, row, cw, mapping):
    ncw, nb, nr = P["ncw"], P["nbanks"], P["nrows"]
    if mapping == "ROW_BANK_COL":
        return (row * nb + bank) * ncw + cw
    if mapping == "BANK_ROW_COL":
        return (bank * nr + row) * ncw + cw
    raise ValueError(mapping)


class Image:
    def __init__(self, cfg, P):
        self.cfg, self.P = cfg, P
        self.data = image_bytes(cfg)
        self.mapping = cfg["init"]["mapping"] if cfg.get("init") else None
        self.wb = P["W"] // 8

    def value(self, bank, row, cw):
        if not self.data:
            return 0
        A = loc_to_word(self.cfg, self.P, bank, row, cw, self.mapping)
        return int.from_bytes(self.data[A * self.wb:(A + 1) * self.wb], "little")

    def nwords(self):
        return (len(self.data) + self.wb - 1) // self.wb

    def banks_spanned(self):
        n = self.nwords()
        if n == 0:
            return 0
        P = self.P
        if self.mapping == "ROW_BANK_COL":
            return min(P["nbanks"], (n + P["ncw"] - 1) // P["ncw"])
        return (n + P["ncw"] * P["nrows"] - 1) // (P["ncw"] * P["nrows"])


class ImgRefDRAM(RefDRAM):
    """reference DRAM whose never-written background is the init image (or zeros): the bundled model's background"""
    def __init__(self, dfi, image, **kw):
        RefDRAM.__init__(self, dfi, **kw)
        self.image = image

    def loc_value(self, loc):
        v = self.mem.get(loc)
        if v is None:
            _, bank, row, cw = loc
            if row is None or row < 0:
                return 0
            v = self.image.value(bank, row, cw)
        return v


def make_ref(cfg, P, dfi, req=None):
    return ImgRefDRAM(dfi, Image(cfg, P), nphases=P["nph"], nranks=1, bankbits=P["bankbits"], rowbits=P["rowbits"], colbits=P["colbits"], align=P["align"],
                      dfi_databits=P["dw"], read_latency=P["rl"], write_latency=P["wl"], rdphase=P["rdphase"], wrphase=P["wrphase"],
                      req=req, WL=P["WL"], BLc=P["BLc"])


# ---------------------------------------------------------------------------------------------------
# constructive scheduler
ROWK = ("ACT", "PRE", "PREA", "REF")
COLK = ("RD", "WR")
ENC = {"ACT": (0, 1, 1), "RD": (1, 0, 1), "WR": (1, 0, 0), "PRE": (0, 1, 0), "PREA": (0, 1, 0), "REF": (0, 0, 1)}     # ras_n, cas_n, we_n (JEDEC truth table)


def dfi_col(col):
    """column on the address bus: A10 is never a column bit, column bits >= 10 travel on A11 and up (JEDEC)"""
    return (col & 0x3ff) | ((col >> 10) << 11)


def junk(seed, a, b, width):
    return background((1, a & 0xffff, b, a >> 16), width, seed)


class Sched:
    def __init__(self, P, T, shape, seed=0):
        self.P, self.T, self.shape, self.seed = P, T, shape, seed
        self.nph = P["nph"]
        self.b = [dict(open=False, row=None, t_act=None, t_pre=None, t_rd=None, t_wr=None) for _ in range(P["nbanks"])]
        self.acts = []
        self.t_cas = self.t_rd = self.t_wr = self.t_ref = None
        self.cur = self.nph - 1                 # commands start in cycle 1 (cycle 0 shows the reset values)
        self.cmds = []                          # dicts t, cyc, ph, kind, bank, addr, op, cs
        self.percyc = {}                        # cycle -> [(kind, bank or "all")]
        self.wdata = {}                         # cycle -> (data, mask)
        self.rwlog = []                         # dicts t, kind, bank, row, cw, ap, op, sweep
        self.n_main = 0

    @staticmethod
    def lb(*pairs):
        t = 0
        for t0, need in pairs:
            if t0 is not None and need is not None and t0 + need > t:
                t = t0 + need
        return t

    def _ctrl_ok(self, c, kind, bank):
        L = self.percyc.get(c)
        if not L:
            return True
        for k2, b2 in L:
            if (kind in ROWK) == (k2 in ROWK):
                return False
            if b2 == "all" or bank == "all" or b2 == bank:
                return False
        return True

    def place(self, kind, bank, tmin, op, phase=None, addr=0, cs=0, dfi_bank=None):
        nph = self.nph
        t = max(tmin, self.cur + 1)
        bk = "all" if kind in ("PREA", "REF") else bank
        while True:
            c, p = divmod(t, nph)
            if phase is not None and p != phase:
                t += (phase - p) % nph
                continue
            if self.shape == "ctrl" and cs == 0 and not self._ctrl_ok(c, kind, bk):
                t = (c + 1) * nph
                continue
            break
        self.cur = t
        if cs == 0:
            self.percyc.setdefault(c, []).append((kind, bk))
        self.cmds.append(dict(t=t, cyc=c, ph=p, kind=kind, bank=bank if dfi_bank is None else dfi_bank, addr=addr, op=op, cs=cs))
        return t

    # -- intents ------------------------------------------------------------------------------------
    def act(self, bank, row, gap, op):
        b, T = self.b[bank], self.T
        if b["open"]:
            if b["row"] == row:
                return
            self.pre(bank, 0, op)
        a = self.acts
        tmin = self.lb((b["t_pre"], T["tRP"]), (b["t_act"], T["tRC"]), (a[-1] if a else None, T["tRRD"]), (a[-4] if len(a) >= 4 else None, T["tFAW"]),
                       (self.t_ref, T["tRFC"])) + gap
        t = self.place("ACT", bank, tmin, op, addr=row)
        a.append(t)
        b.update(open=True, row=row, t_act=t, t_rd=None, t_wr=None)

    def _pre_lb(self, b):
        """earliest explicit precharge of a bank.  A closed bank may still be waiting for its auto-precharge (write recovery
        / tRAS not yet over): an explicit PRE is placed no earlier than the moment the device starts that precharge itself."""
        T, P = self.T, self.P
        if not b["open"]:
            return b["t_pre"] or 0
        return self.lb((b["t_act"], T["tRAS"]), (b["t_wr"], P["WL"] + P["BLc"] + T["tWR"]), (b["t_rd"], T["tRTP"]))

    def pre(self, bank, gap, op):
        b, T = self.b[bank], self.T
        tmin = max(self._pre_lb(b), self.lb((self.t_ref, T["tRFC"]))) + gap
        j = junk(self.seed, len(self.cmds), 7, self.P["addressbits"]) & ~(1 << 10)
        t = self.place("PRE", bank, tmin, op, addr=j)
        b["open"] = False
        b["t_pre"] = t if b["t_pre"] is None else max(b["t_pre"], t)

    def prea(self, gap, op, dfi_bank=0):
        T = self.T
        tmin = max([self._pre_lb(b) for b in self.b] + [self.lb((self.t_ref, T["tRFC"]))]) + gap
        j = junk(self.seed, len(self.cmds), 8, self.P["addressbits"]) | (1 << 10)
        t = self.place("PREA", 0, tmin, op, addr=j, dfi_bank=dfi_bank)
        for b in self.b:
            b["open"] = False
            b["t_pre"] = t if b["t_pre"] is None else max(b["t_pre"], t)

    def ref(self, gap, op, dfi_bank=0):
        T = self.T
        if any(b["open"] for b in self.b):
            self.prea(0, op)
        tmin = self.lb(*([(b["t_pre"], T["tRP"]) for b in self.b] + [(self.t_ref, T["tRFC"])])) + gap
        j = junk(self.seed, len(self.cmds), 9, self.P["addressbits"])
        self.t_ref = self.place("REF", 0, tmin, op, addr=j, dfi_bank=dfi_bank)

    def access(self, kind, bank, row, cw, ap, gap, op, data=None, mask=0, sweep=False):
        b, T, P = self.b[bank], self.T, self.P
        if not (b["open"] and b["row"] == row):
            self.act(bank, row, 0, op)
        pairs = [(b["t_act"], T["tRCD"]), (self.t_cas, T["tCCD"]), (self.t_ref, T["tRFC"])]
        if kind == "RD":
            pairs.append((self.t_wr, P["WL"] + P["BLc"] + T["tWTR"]))
            phase = P["rdphase"]
        else:
            pairs.append((self.t_rd, T["tRTW"]))
            phase = P["wrphase"]
        tmin = self.lb(*pairs) + gap
        addr = dfi_col(cw << P["align"]) | (ap << 10)
        t = self.place(kind, bank, tmin, op, phase=phase, addr=addr)
        self.t_cas = t
        if kind == "RD":
            self.t_rd = b["t_rd"] = t
        else:
            self.t_wr = b["t_wr"] = t
            self.wdata[t // self.nph + P["wl"]] = (data, mask)
        self.rwlog.append(dict(t=t, kind=kind, bank=bank, row=row, cw=cw, ap=ap, op=op, sweep=sweep))
        if ap:
            x = t + (P["WL"] + P["BLc"] + T["tWR"] if kind == "WR" else T["tRTP"])
            if T["tRAS"] is not None:
                x = max(x, b["t_act"] + T["tRAS"])
            b["open"] = False
            b["t_pre"] = x if b["t_pre"] is None else max(b["t_pre"], x)

    def desel(self, pat, bank, addr, op):
        """a deselected slot (cs_n = 1) carrying an arbitrary command pattern: a NOP for every device"""
        self.place(pat, bank, 0, op, addr=addr, cs=1)



def schedule(cfg, P, case):
    """case -> Sched (commands of the intents followed by the read-back sweep)"""
    s = Sched(P, case["timing"], case.get("shape", "ctrl"), case.get("junk", 0))
    nb, nr, ncw = P["nbanks"], P["nrows"], P["ncw"]
    W = P["W"]
    for i, o in enumerate(case["ops"]):
        k = o["op"]
        g = o.get("gap", 0)
        if k in ("rd", "wr", "act"):
            bank, row, cw = o["bank"] % nb, o["row"] % nr, o.get("cw", 0) % ncw
        if k == "act":
            s.act(bank, row, g, i)
        elif k == "pre":
            s.pre(o["bank"] % nb, g, i)
        elif k == "prea":
            s.prea(g, i, o.get("bank", 0) % nb)
        elif k == "ref":
            s.ref(g, i, o.get("bank", 0) % nb)
        elif k == "rd":
            s.access("RD", bank, row, cw, o.get("ap", 0), g, i)
        elif k == "wr":
            s.access("WR", bank, row, cw, o.get("ap", 0), g, i, data=o["data"] & ((1 << W) - 1), mask=o.get("mask", 0) & ((1 << (W // 8)) - 1))
        elif k == "desel":
            s.desel(o["pat"], o["bank"] % nb, o["addr"] & ((1 << P["addressbits"]) - 1), i)
        else:
            raise ValueError(k)
    s.n_main = len(s.rwlog)
    if case.get("kind") != "image":
        for (bank, row, cw) in sweep_locs(cfg, P, case):
            s.access("RD", bank, row, cw, 0, 0, -1, sweep=True)
    return s


def sweep_locs(cfg, P, case, limit=64):
    """every location the intents touch, then neighbours of the written ones (other column, other row, other bank, and the
    locations that differ in column bit 10 / in the A10 position when there are more than 1 Ki columns)"""
    nb, nr, ncw = P["nbanks"], P["nrows"], P["ncw"]
    touched, written = [], []
    for o in case["ops"]:
        if o["op"] in ("rd", "wr"):
            loc = (o["bank"] % nb, o["row"] % nr, o["cw"] % ncw)
            if loc not in touched:
                touched.append(loc)
            if o["op"] == "wr" and loc not in written:
                written.append(loc)
    out = sorted(touched)
    extra = []
    hi = (1 << 10) >> P["align"]
    for (bk, rw, cw) in written:
        cand = [(bk, rw, cw ^ 1), (bk, rw ^ 1, cw), ((bk + 1) % nb, rw, cw)]
        if ncw > hi:
            cand += [(bk, rw, cw ^ hi)]
        for c in cand:
            if c[2] < ncw and c[1] < nr and c not in out and c not in extra:
                extra.append(c)
    out += sorted(extra)
    return out[:limit]


# ---------------------------------------------------------------------------------------------------
# model alone: drive the schedule, compare with the reference every cycle
class Cmp:
    """expectation = RefDRAM's rddata/rddata_valid writes of the previous cycle, held like signals.
    Mismatches are sorted into categories and the first of each category is kept; the comparison goes on, so one run can
    show several independent divergences:
      valid_only_phase0 : rddata_valid is right on phase 0 and missing on a later phase of the same cycle
      valid             : any other rddata_valid difference
      data              : rddata differs in a cycle/phase where the reference returns data"""
    def __init__(self, dfi, dw):
        self.phases = dfi.phases
        self.exp = {}
        self.found = {}
        self.nmis = 0
        self.cur_loc = None
        self.cur_due = None

    @property
    def mis(self):
        return self.found or None

    def note(self, cat, **kw):
        self.nmis += 1
        if cat not in self.found:
            kw["loc"] = self.cur_loc
            kw["due"] = self.cur_due
            self.found[cat] = kw

    def check(self, sim, t):
        exp, get = self.exp, sim.get
        p0_ok = False
        for p, ph in enumerate(self.phases):
            ev = exp.get(ph.rddata_valid, 0)
            gv = get(ph.rddata_valid)
            if ev != gv:
                self.note("valid_only_phase0" if (p > 0 and p0_ok and ev == 1) else "valid", cycle=t, phase=p, exp=ev, got=gv)
            elif p == 0 and ev == 1:
                p0_ok = True
            if ev:
                ed = exp.get(ph.rddata, 0)
                gd = get(ph.rddata)
                if ed != gd:
                    self.note("data", cycle=t, phase=p, exp=ed, got=gd)

    def feed(self, dram, sim, t):
        nxt = dram.pending_rd[0] if dram.pending_rd and dram.pending_rd[0][0] <= t + 1 else None
        w = dram.cycle(sim, t)
        for s, v in w:
            self.exp[s] = v
        self.cur_loc = nxt[3] if nxt is not None else None
        self.cur_due = nxt[0] if nxt is not None else None


class Run:
    pass


def _quiet(backend):
    return contextlib.redirect_stdout(io.StringIO()) if backend == "migen" else contextlib.nullcontext()


def run_trace(cfg, case, backend="fast", trace=None, max_cycles=None):
    P = params(cfg)
    with _quiet(backend):
        dut, sim = get_sim(cfg, backend)
        s = schedule(cfg, P, case)
        dram = make_ref(cfg, P, dut.dfi, req={k: v for k, v in case["timing"].items() if k not in ("tRTP", "tRTW")})
        cmp_ = Cmp(dut.dfi, P["dw"])
        nph, dw = P["nph"], P["dw"]
        bycyc = {}
        for c in s.cmds:
            bycyc.setdefault(c["cyc"], {})[c["ph"]] = c
        last = (s.cmds[-1]["cyc"] if s.cmds else 0) + P["rl"] + P["wl"] + 4
        if max_cycles:
            last = min(last, max_cycles)
        seed = case.get("junk", 0)
        phases = dut.dfi.phases
        idle_cs = case.get("idle_cs", 0)
        mb = dw // 8
        abits, bbits = P["addressbits"], P["bankbits"]
        t = 0
        while t <= last:
            cmp_.check(sim, t)
            if trace is not None:
                trace.append([sim.get(ph.rddata_valid) for ph in phases] + [sim.get(ph.rddata) for ph in phases])
            if cmp_.nmis > 200:
                break
            cmp_.feed(dram, sim, t)
            # drive cycle t + 1
            c1 = t + 1
            cs_ = bycyc.get(c1, {})
            w = []
            wd = s.wdata.get(c1)
            for p, ph in enumerate(phases):
                c = cs_.get(p)
                if c is None:
                    j = junk(seed, c1, p, 64)
                    w += [(ph.cs_n, (j >> 40) & 1 if idle_cs == 2 else idle_cs), (ph.ras_n, 1), (ph.cas_n, 1), (ph.we_n, 1), (ph.bank, j & ((1 << bbits) - 1)),
                          (ph.address, (j >> 8) & ((1 << abits) - 1)), (ph.rddata_en, 0), (ph.wrdata_en, 0)]
                else:
                    r_, c_, w_ = ENC[c["kind"]]
                    w += [(ph.cs_n, c["cs"]), (ph.ras_n, r_), (ph.cas_n, c_), (ph.we_n, w_), (ph.bank, c["bank"]), (ph.address, c["addr"]),
                          (ph.rddata_en, 1 if c["kind"] == "RD" and not c["cs"] else 0), (ph.wrdata_en, 1 if c["kind"] == "WR" and not c["cs"] else 0)]
                if wd is None:
                    w += [(ph.wrdata, junk(seed, c1, 16 + p, dw)), (ph.wrdata_mask, junk(seed, c1, 32 + p, mb))]
                else:
                    w += [(ph.wrdata, (wd[0] >> (p * dw)) & ((1 << dw) - 1)), (ph.wrdata_mask, (wd[1] >> (p * mb)) & ((1 << mb) - 1))]
            sim.step(w)
            t += 1
    r = Run()
    r.cfg, r.case, r.P, r.sched, r.dram, r.cmp, r.cycles, r.backend, r.dut = cfg, case, P, s, dram, cmp_, t, backend, dut
    return r


def legality_complaints(run):
    """RefDRAM's monitors on a generated trace: anything but the deliberate deselected slots is a generator bug"""
    ndesel = sum(1 for c in run.sched.cmds if c["cs"])
    out = []
    seen = 0
    for f in run.dram.findings:
        if f["clause"] == "C02.cmd_without_cs" and seen < ndesel:
            seen += 1
            continue
        out.append(f)
    return out


def hazards(run, upto_t=None, bank=None):
    """same-cycle command combinations of a schedule (only the `free` shape can produce them); with `bank`: only the
    combinations that involve that bank, up to DRAM clock `upto_t`"""
    by = {}
    for c in run.sched.cmds:
        if c["cs"] or (upto_t is not None and c["t"] > upto_t):
            continue
        by.setdefault(c["cyc"], []).append(c)
    hz = set()

    def on(c):
        return bank is None or c["kind"] in ("PREA", "REF") or c["bank"] == bank
    for cyc, L in by.items():
        acts = [c for c in L if c["kind"] == "ACT"]
        if len(acts) >= 2 and any(on(c) for c in acts):
            hz.add("two_act_one_cycle")
        for a in L:
            for b in L:
                if a is b or a["t"] >= b["t"] or not (on(a) and on(b)):
                    continue
                same = a["bank"] == b["bank"] or a["kind"] in ("PREA", "REF") or b["kind"] in ("PREA", "REF")
                if not same:
                    continue
                if a["kind"] == "ACT" and b["kind"] in COLK:
                    hz.add("act_then_" + b["kind"].lower() + "_same_cycle")
                if a["kind"] in ("PRE", "PREA") and b["kind"] == "ACT":
                    hz.add("pre_then_act_same_cycle")
    return hz


def diagnose(run, mis):
    """stable key of the input class a mismatch belongs to"""
    P = run.P
    loc = mis.get("loc")
    if run.case.get("shape") == "free":
        ent = None
        if loc is not None:
            for e in run.sched.rwlog:
                if e["kind"] == "RD" and e["t"] // P["nph"] + P["rl"] == mis.get("due"):
                    ent = e
        hz = hazards(run, ent["t"], loc[1]) if ent is not None else hazards(run)
        if hz:
            return "same_cycle_commands:" + "+".join(sorted(hz))
    if P["colbits"] > 10:
        hi = (1 << 10) >> P["align"]
        for e in run.sched.rwlog:
            if e["cw"] >= hi or e["ap"]:
                return "colbits_gt_10:a10_or_a11_in_column"
    return "unexplained"


def trace_findings(run):
    """(findings, classes, nontrivial)"""
    comp = legality_complaints(run)
    if comp:
        raise HarnessError("constructive generator emitted a trace the reference DRAM calls illegal: %s (cfg %s)" % (comp[:2], cfg_key(run.cfg)))
    P, s = run.P, run.sched
    fs = []
    geom = "%s %d banks x %d rows x %d columns x%d, read_latency=%d write_latency=%d" % (run.cfg["memtype"], P["nbanks"], P["nrows"], P["ncols"], run.cfg["databits"], P["rl"], P["wl"])
    for cat in ("valid", "valid_only_phase0", "data"):
        mis = run.cmp.found.get(cat)
        if mis is None:
            continue
        loc = mis.get("loc")
        part, info, ent = "rddata", "", None
        if loc is not None:
            _, bank, row, cw = loc
            for e in s.rwlog:
                if e["kind"] == "RD" and e["t"] // P["nph"] + P["rl"] == mis["due"]:
                    ent = e
            info = " (read of bank %d row %d column %d issued at DRAM clock %s%s)" % (bank, row, cw << P["align"], ent["t"] if ent else "?", ", read-back sweep" if ent is not None and ent["sweep"] else "")
        if cat == "valid_only_phase0":
            fs.append(dict(clause="C19.rddata_valid", key="only_phase0_valid", what="cycle %d: rddata_valid is 1 on phase 0 and 0 on phase %d of the %d-phase DFI while the read data of that cycle is returned on all phases%s; %s" % (
                mis["cycle"], mis["phase"], P["nph"], info, geom)))
            continue
        key = diagnose(run, mis)
        if key.startswith("same_cycle_commands:"):
            # own clause: "commands issued on different phases of one controller cycle act in phase order"
            fs.append(dict(clause="C19.same_cycle_commands", key=key.split(":", 1)[1], what="%s mismatch at cycle %d phase %d: model 0x%x, reference 0x%x%s after commands on different phases of ONE "
                           "controller cycle (%s); %s" % ("rddata_valid" if cat == "valid" else "rddata", mis["cycle"], mis["phase"], mis["got"], mis["exp"], info, key.split(":", 1)[1], geom)))
            continue
        if cat == "valid":
            fs.append(dict(clause="C19.rddata_valid", key=key, what="cycle %d phase %d: model rddata_valid=%d, reference %d%s; %s" % (mis["cycle"], mis["phase"], mis["got"], mis["exp"], info, geom)))
            continue
        # which part of the oracle: main trace read, sweep read, or read of a never-written image location
        if loc is not None:
            written = any(e["kind"] == "WR" and (e["bank"], e["row"], e["cw"]) == (bank, row, cw) for e in s.rwlog)
            if ent is not None and ent["sweep"]:
                part = "final_contents"
            if not written and run.cfg.get("init") and run.case.get("kind") == "image":
                part = "init_image"
                info += " of the %s image of %d 32-bit words" % (run.cfg["init"]["mapping"], run.cfg["init"]["nwords"])
        fs.append(dict(clause="C19." + part, key=key, what="cycle %d phase %d: model rddata=0x%x, reference 0x%x%s; %s" % (mis["cycle"], mis["phase"], mis["got"], mis["exp"], info, geom)))
    # classes / non-triviality
    classes = set()
    T = run.case["timing"]
    bound = T["tWTR"] + P["WL"] + P["BLc"]
    lastw = {}
    hi = (1 << 10) >> P["align"]
    for e in s.rwlog:
        loc = (e["bank"], e["row"], e["cw"])
        if e["cw"] >= hi:
            classes.add("col_ge_1024")
        if e["ap"]:
            classes.add("auto_precharge")
        if e["kind"] == "WR":
            lastw[loc] = e
            o = run.case["ops"][e["op"]]
            if o.get("mask", 0) & ((1 << (P["W"] // 8)) - 1):
                classes.add("masked_write")
        elif loc in lastw and not e["sweep"]:
            classes.add("raw")
            if e["t"] - lastw[loc]["t"] <= bound:
                classes.add("raw_within_twtr")
    kinds = set(c["kind"] for c in s.cmds if not c["cs"])
    for k in ("PREA", "REF"):
        if k in kinds:
            classes.add(k.lower())
    cas = [e["t"] for e in s.rwlog]
    if any(b - a == T["tCCD"] for a, b in zip(cas, cas[1:])):
        classes.add("back_to_back_tccd")
    if run.case.get("shape") == "free" and hazards(run):
        classes.add("same_cycle_commands")
    img = Image(run.cfg, P)
    if run.cfg.get("init"):
        banks_read = set(e["bank"] for e in s.rwlog if e["kind"] == "RD" and (e["bank"], e["row"], e["cw"]) not in lastw and img.value(e["bank"], e["row"], e["cw"]) != 0)
        if img.banks_spanned() >= 2 and len(banks_read) >= 2:
            classes.add("image_2_banks")
        classes.add("image_" + run.cfg["init"]["mapping"])
    nontrivial = bool(classes & {"raw_within_twtr", "masked_write", "col_ge_1024", "image_2_banks"})
    return fs, classes, nontrivial


# ---------------------------------------------------------------------------------------------------
# controller + model (source ii)
def core_observed(dut):
    sigs = []
    for ph in dut.dfi.phases:
        sigs += [ph.cs_n, ph.ras_n, ph.cas_n, ph.we_n, ph.bank, ph.address, ph.wrdata, ph.wrdata_mask, ph.wrdata_en, ph.rddata_en, ph.rddata, ph.rddata_valid]
    for p in dut.ports:
        sigs += [p.cmd.ready, p.wdata.ready, p.rdata.valid, p.rdata.data]
    return sigs


def run_coremodel(cfg, stim, backend="fast", trace=None, max_cycles=None, tail=12):
    from lib import corecase as cc
    P = params(cfg)
    ccfg = core_cfg_of(cfg)
    with _quiet(backend):
        dut, sim = get_sim(cfg, backend)
        masters = [NativeMaster(p, ops, name="p%d" % i) for i, (p, ops) in enumerate(zip(dut.ports, stim["ports"]))]
        dram = make_ref(cfg, P, dut.dfi)
        cmp_ = Cmp(dut.dfi, P["dw"])
        cap = max_cycles or cc.default_cap(ccfg, stim) + 40 * 64
        obs = core_observed(dut) if trace is not None else None
        am = cc.addrmap_of(ccfg)
        sweeping = False
        quiet = 0
        t = 0
        done = False
        while t < cap:
            cmp_.check(sim, t)
            if obs is not None:
                trace.append([sim.get(s) for s in obs])
            if cmp_.nmis > 200:
                break
            cmp_.feed(dram, sim, t)
            w = []
            for m in masters:
                w += m.cycle(sim, t)
            sim.step(w)
            t += 1
            if all(m.idle() and m.reads_out <= 0 for m in masters) and dram.quiescent():
                quiet += 1
                if quiet >= tail:
                    if sweeping or max_cycles:
                        done = True
                        break
                    # read-back sweep of every touched location through port 0
                    sweeping = True
                    quiet = 0
                    locs = sorted(dram.touched)[:64]
                    ops = [dict(we=0, addr=am.encode(0, bk, rw, cw << P["align"]), gap=0) for (_, bk, rw, cw) in locs if rw is not None and rw >= 0]
                    n_main_rw = len(dram.rw_log)
                    masters[0] = NativeMaster(dut.ports[0], ops, name="sweep")
            else:
                quiet = 0
    r = Run()
    r.cfg, r.stim, r.P, r.dram, r.cmp, r.cycles, r.backend, r.dut, r.completed, r.cap = cfg, stim, P, dram, cmp_, t, backend, dut, done, cap
    r.n_main_rw = n_main_rw if sweeping else len(dram.rw_log)
    r.ccfg = ccfg
    return r


def core_findings(run):
    """(findings, classes, nontrivial, in_domain)"""
    P = run.P
    dram = run.dram
    illegal = [f for f in dram.findings if f["clause"].startswith("C02.") or f["clause"].startswith("HARNESS.")]
    classes = set()
    if illegal:
        # the controller's stream is not a legal trace: outside this property's domain (C02 is the property about that)
        return [], {"controller_trace_illegal"}, False, False
    fs = []
    geom = "%s %d banks x %d rows x %d columns x%d behind the real controller" % (run.cfg["memtype"], P["nbanks"], P["nrows"], P["ncols"], run.cfg["databits"])
    for cat in ("valid", "valid_only_phase0", "data"):
        mis = run.cmp.found.get(cat)
        if mis is None:
            continue
        loc = mis.get("loc")
        key = "controller_stream"
        if P["colbits"] > 10:
            key += ":colbits_gt_10"
        info = ""
        part = "rddata"
        if loc is not None:
            _, bank, row, cw = loc
            info = " (read of bank %d row %d column %d)" % (bank, row, cw << P["align"])
            if len(dram.rw_log) > run.n_main_rw and mis["cycle"] * P["nph"] >= dram.rw_log[run.n_main_rw][0] + P["rl"] * P["nph"] - P["nph"]:
                part = "final_contents"
        if cat == "valid_only_phase0":
            fs.append(dict(clause="C19.rddata_valid", key="only_phase0_valid", what="cycle %d: rddata_valid is 1 on phase 0 and 0 on phase %d of the %d-phase DFI while the read data of that cycle is returned on all phases%s; %s" % (
                mis["cycle"], mis["phase"], P["nph"], info, geom)))
        elif cat == "valid":
            fs.append(dict(clause="C19.rddata_valid", key=key, what="cycle %d phase %d: model rddata_valid=%d, reference %d%s; %s" % (mis["cycle"], mis["phase"], mis["got"], mis["exp"], info, geom)))
        else:
            fs.append(dict(clause="C19." + part, key=key, what="cycle %d phase %d: model rddata=0x%x, reference 0x%x%s; %s" % (mis["cycle"], mis["phase"], mis["got"], mis["exp"], info, geom)))
    if fs:
        pass
    elif not run.completed:
        fs.append(dict(clause="C19.core_incomplete", key="cap", what="controller + model did not finish within %d cycles" % run.cap))
    T = run.cfg["core"]["timing"]
    bound = (T.get("tWTR") or 0) * P["nph"] + P["WL"] + P["BLc"] + P["nph"]
    lastw = {}
    full = (1 << (P["W"] // 8)) - 1
    for (t, kind, rk, bk, row, col, ap) in dram.rw_log[:run.n_main_rw]:
        loc = (bk, row, col)
        if col >= 1024:
            classes.add("col_ge_1024")
        if ap:
            classes.add("auto_precharge")
        if kind == "WR":
            lastw[loc] = t
        elif loc in lastw:
            classes.add("raw")
            if t - lastw[loc] <= bound:
                classes.add("raw_within_twtr")
    for ops in run.stim["ports"]:
        for op in ops:
            if op["we"] and op["be"] != full:
                classes.add("masked_write")
    if dram.refs:
        classes.add("ref")
    if run.cfg.get("init"):
        img = Image(run.cfg, P)
        banks_read = set(bk for (t, kind, rk, bk, row, col, ap) in dram.rw_log if kind == "RD" and (bk, row, col) not in lastw and img.value(bk, row, col >> P["align"]) != 0)
        if img.banks_spanned() >= 2 and len(banks_read) >= 2:
            classes.add("image_2_banks")
        classes.add("image_" + run.cfg["init"]["mapping"])
    classes.add("controller_stream")
    nontrivial = bool(classes & {"raw_within_twtr", "masked_write", "col_ge_1024", "image_2_banks"})
    return fs, classes, nontrivial, True


# ---------------------------------------------------------------------------------------------------
# strategies
@st.composite
def model_cfg(draw, memtype=None, ncols=None, init=None, core=False, base=None, weg=None, libgeom=None):
    import litedram.modules as M
    mt = memtype or draw(st.sampled_from(MEMTYPES))
    bname = base or draw(st.sampled_from(BASES[mt]))
    bcls = getattr(M, bname)
    lg = draw(st.booleans()) if libgeom is None else libgeom
    cfg = dict(memtype=mt, base=bname, clk_freq=draw(st.sampled_from(CLOCKS[mt])), databits=draw(st.sampled_from([8, 16, 16, 32, 64])))
    nbanks = bcls.nbanks if lg else draw(st.sampled_from([2, 4, 8, 16] if mt == "DDR4" else [2, 4, 8]))
    nc = ncols or (bcls.ncols if lg else draw(st.sampled_from([256, 512, 1024, 1024, 2048])))
    if core:
        # the controller itself ORs column bit 10 onto A10 (core/bankmachine.py: cmd.a = auto_precharge << 10 | col), so with more than
        # 1 Ki columns its stream is not the JEDEC encoding of what it means: not a source of legal traces for this property
        nc = min(nc, 1024)
    nrows = draw(st.sampled_from([8, 16, 32]))
    cfg.update(nbanks=nbanks, nrows=nrows, ncols=nc)
    cfg["weg"] = draw(st.sampled_from([8, 8, 0])) if weg is None else weg
    nph = {"SDR": 1, "DDR": 2, "LPDDR": 2, "DDR2": 2, "DDR3": 4, "DDR4": 4}[mt]
    cpw = 1 if mt == "SDR" else 2 * nph
    lanes = (cfg["databits"] * cpw // 8) if cfg["weg"] else 1

    def cost():
        # Migen's simulator front end builds one signal per memory word and one slice object per word and byte lane
        words = cfg["nbanks"] * cfg["nrows"] * cfg["ncols"] // cpw
        return max(words * lanes // 6, words)
    minrows = 8 if core else 4
    while cost() > MAX_WORDS:
        if cfg["nrows"] > minrows:
            cfg["nrows"] //= 2
        elif cfg["nbanks"] > 2 and not (lg and cfg["nbanks"] <= 4):
            cfg["nbanks"] //= 2
        elif cfg["databits"] > 8:
            cfg["databits"] //= 2
            lanes = (cfg["databits"] * cpw // 8) if cfg["weg"] else 1
        elif ncols is None and not lg and cfg["ncols"] > 256:
            cfg["ncols"] //= 2
        else:
            break
    colbits = log2(cfg["ncols"])
    need = 11 if colbits <= 10 else colbits + 1
    cfg["addressbits"] = draw(st.sampled_from([need, 13, 14, 15]))
    cfg["addressbits"] = max(cfg["addressbits"], need)
    cfg["verbosity"] = 0 if core else draw(st.sampled_from([0, 0, 0, 0, 1, 3]))
    want_init = draw(st.integers(0, 2)) == 0 if init is None else init
    if want_init:
        wpr = cfg["ncols"] * cfg["databits"] // 32             # 32-bit words per row of one bank
        wpb = wpr * cfg["nrows"]
        total = wpb * cfg["nbanks"]
        choices = [1, 3, wpr - 1, wpr + 1, 2 * wpr + 5, cfg["nbanks"] * wpr + 7, wpb + 3, 2 * wpb + wpr + 1, total - 1, total, total // 2 + 1]
        n = draw(st.one_of(st.sampled_from(choices), st.integers(1, total)))
        n = max(1, min(total, n))
        cfg["init"] = dict(mapping=draw(st.sampled_from(["ROW_BANK_COL", "BANK_ROW_COL"])), nwords=n, seed=draw(st.integers(0, 1 << 30)),
                           style=draw(st.sampled_from(["hash", "hash", "index"])))
    if core:
        from lib import corecase as cc
        t = draw(cc.synth_timing())
        ctrl = draw(cc.ctrl_part())
        ctrl.pop("zq_period", None)
        cfg["core"] = dict(timing=t, ctrl=ctrl, nports=draw(st.sampled_from([1, 2, 2, 3])))
    return cfg


@st.composite
def timing_set(draw, P):
    """a timing set in DRAM clocks; small values on purpose (commands as close together as a device could allow)"""
    nph, BLc = P["nph"], P["BLc"]
    # Domain: tRCD, tRP, tRRD >= nphases DRAM clocks, so that two row commands / a row command and a column command of one bank never
    # share a controller cycle.  The bundled model applies the commands of one controller cycle simultaneously (documented DFI-cycle
    # granularity); every device of the library has tRCD, tRP >= 12 ns and tRRD >= 4 clocks, litedram's controller never issues such pairs.
    tRCD = draw(st.integers(nph, 2 * nph + 1))
    tRP = draw(st.integers(nph, 2 * nph + 1))
    tRAS = draw(st.integers(tRCD, tRCD + 2 * nph + 2))
    tRRD = draw(st.integers(nph, nph + 2))
    return dict(tRCD=tRCD, tRP=tRP, tRAS=tRAS, tRC=tRAS + tRP, tRRD=tRRD, tFAW=draw(st.sampled_from([None, 4 * tRRD, 4 * tRRD + 3])),
                tWR=draw(st.integers(1, 6)), tWTR=draw(st.integers(1, 6)), tCCD=draw(st.integers(BLc, BLc + 2)), tRFC=draw(st.integers(2, 30)),
                tRTP=draw(st.integers(1, 5)), tRTW=max(1, P["CL"] + BLc + 2 - P["WL"]))


@st.composite
def trace_case(draw, cfg, max_ops=40, shape=None):
    P = params(cfg)
    nb, nr, ncw, W = P["nbanks"], P["nrows"], P["ncw"], P["W"]
    hi = (1 << 10) >> P["align"]
    colc = [0, 1, 2, ncw - 1, ncw // 2, 3]
    if ncw > hi:
        colc += [hi, hi + 1, hi - 1, ncw - 1, hi + ncw // 4, hi]
    rowc = [0, 1, nr - 1, nr // 2, 2]
    n = draw(st.integers(2, 7))
    pool = [(draw(st.integers(0, nb - 1)), draw(st.sampled_from(rowc)), draw(st.sampled_from(colc)))]
    while len(pool) < n:
        bk, rw, cw = pool[draw(st.integers(0, len(pool) - 1))]
        k = draw(st.sampled_from(["col", "row", "bank", "col", "any"]))
        if k == "col":
            cw = draw(st.sampled_from(colc))
        elif k == "row":
            rw = draw(st.sampled_from(rowc))
        elif k == "bank":
            bk = draw(st.integers(0, nb - 1))
        else:
            bk, rw, cw = draw(st.integers(0, nb - 1)), draw(st.integers(0, nr - 1)), draw(st.integers(0, ncw - 1))
        pool.append((bk, rw, cw))
    nops = draw(st.integers(3, max_ops))
    ops = []
    gaps = [0, 0, 0, 0, 0, 1, 2, 5, 13]
    kinds = ["wr"] * 8 + ["rd"] * 8 + ["act"] * 2 + ["pre"] * 2 + ["prea", "ref", "desel"]
    full = (1 << (W // 8)) - 1
    for i in range(nops):
        k = draw(st.sampled_from(kinds))
        o = dict(op=k, gap=draw(st.sampled_from(gaps)))
        if k in ("wr", "rd", "act"):
            bk, rw, cw = pool[draw(st.integers(0, len(pool) - 1))]
            o.update(bank=bk, row=rw, cw=cw)
        if k in ("wr", "rd"):
            o["ap"] = 1 if draw(st.integers(0, 4)) == 0 else 0
        if k == "wr":
            o["data"] = draw(st.integers(0, (1 << W) - 1))
            o["mask"] = 0
            if cfg["weg"] and draw(st.integers(0, 2)) == 0:
                o["mask"] = draw(st.integers(1, full))
        if k in ("pre", "prea", "ref"):
            o["bank"] = draw(st.integers(0, nb - 1))
        if k == "desel":
            o.update(pat=draw(st.sampled_from(["ACT", "PRE", "RD", "WR", "REF"])), bank=draw(st.integers(0, nb - 1)), addr=draw(st.integers(0, (1 << P["addressbits"]) - 1)))
            o["gap"] = 0
        ops.append(o)
    return dict(kind="trace", shape=shape or draw(st.sampled_from(["ctrl", "ctrl", "free"])), timing=draw(timing_set(P)), ops=ops, junk=draw(st.integers(0, 1 << 20)),
                idle_cs=draw(st.sampled_from([0, 0, 1, 2])))


@st.composite
def image_case(draw, cfg, nreads=48):
    """reads only: boundary words of the image and of every bank/row region + drawn words"""
    P = params(cfg)
    img = Image(cfg, P)
    mapping = cfg["init"]["mapping"]
    ncw, nb, nr = P["ncw"], P["nbanks"], P["nrows"]
    total = ncw * nb * nr
    n = img.nwords()
    A = set([0, n - 1, n, n - 2, n + 1, total - 1])
    for k in range(1, 5):
        A.update([k * ncw - 1, k * ncw, k * ncw * nb - 1, k * ncw * nb, k * ncw * nr - 1, k * ncw * nr])
    extra = draw(st.lists(st.integers(0, total - 1), min_size=4, max_size=nreads))
    inside = draw(st.lists(st.integers(0, max(0, n - 1)), min_size=4, max_size=nreads))
    A.update(extra)
    A.update(inside)
    A = sorted(a for a in A if 0 <= a < total)
    order = draw(st.sampled_from(["addr", "loc"]))
    locs = [word_to_loc(cfg, P, a, mapping) for a in A]
    if order == "loc":
        locs.sort()
    ops = [dict(op="rd", bank=b, row=r, cw=c, ap=0, gap=0) for (b, r, c) in locs[:3 * nreads]]
    return dict(kind="image", shape="ctrl", timing=draw(timing_set(P)), ops=ops, junk=draw(st.integers(0, 1 << 20)), idle_cs=0)
