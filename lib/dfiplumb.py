"""C18 helpers: DFI injector and DFI rate converter test benches, stimulus expansion, reference models.

Two devices:
  * litedram.dfii.DFIInjector inside a thin wrapper that does what a LiteX CSR bank does with the injector's CSRs
    (finalise the compound CSRs and add them as submodules).  Without that step the CSR *fields* the injector reads
    (`_control.fields.sel`, `_command.fields.cs` ...) are not connected to `.storage` at all.  The test bench then
    writes registers the way the bus does: `simple_csr.r` / `simple_csr.re` for one cycle; the register value is read
    back from `.storage` (the documented register, field order as declared: sel, cke, odt, reset_n).
  * litedram.phy.dfi.DFIRateConverter exactly as test/test_dfi.py instantiates it (clkdiv="sys", clk="sys<ratio>x",
    clocks sys=(4*ratio, 2*ratio-1), sys<ratio>x=(4, 1): both rise at t=1, phase aligned as the Serializer notes ask).

Stimulus values are a pure function of the Hypothesis-drawn case (SHAKE-128 keyed by the case's integers, the
stream name and the cycle number); no RNG object, no state.

Reference models are written from the documentation:
  injector   : dfii.py comments ("Hardware control", "Through External DFI", "Through LiteDRAM controller",
               "Broadcast cs_n for clam shell topology", "Software Control (through CSRs)")
  converter  : DFIRateConverter docstring (phases first, then clock cycles; a whole burst in the single clk cycle
               selected by write_delay/read_delay), Serializer/Deserializer docstrings (LATENCY in clkdiv cycles: 1 / 2).
"""
import hashlib
from migen import *

import lib.compat  # noqa
from lib.fastsim import FastSim, MigenSim, compile_dut, HarnessError

# DFI signal names (DFI specification names, as the property statement uses them)
CMD = ["address", "bank", "cas_n", "cs_n", "ras_n", "we_n", "cke", "odt", "reset_n", "act_n"]
M2S = CMD + ["wrdata", "wrdata_en", "wrdata_mask", "rddata_en"]
S2M = ["rddata", "rddata_valid"]
CSR_BUSWORD = 32


# ---------------------------------------------------------------------------------------------------------------------
# deterministic value expansion
class Bits:
    """bit stream that is a pure function of its key"""
    def __init__(self, key, nbits):
        nb = (nbits + 7) // 8 + 8
        self.v = int.from_bytes(hashlib.shake_128(key.encode()).digest(nb), "little")

    def take(self, n):
        if n <= 0:
            return 0
        r = self.v & ((1 << n) - 1)
        self.v >>= n
        return r

    def chance(self, pct):
        """True with probability ~pct/100"""
        return self.take(10) * 100 < pct * 1024


def gen_phase(bs, widths, idle_pct, raw):
    """one phase's master-to-slave values.  raw: every bit random.  Otherwise: with probability idle_pct the DFI idle
    encoding (all chip selects high, ras/cas/we/act high, no data enables) and random address/bank/data underneath,
    else a command: at least one chip select low, everything else random."""
    v = {f: bs.take(widths[f]) for f in M2S}
    idle = bs.chance(idle_pct)
    force = bs.take(4)
    if raw:
        return v
    ncs = widths["cs_n"]
    allcs = (1 << ncs) - 1
    if idle:
        v["cs_n"] = allcs
        v["cas_n"] = v["ras_n"] = v["we_n"] = v["act_n"] = 1
        v["wrdata_en"] = v["rddata_en"] = 0
    elif v["cs_n"] == allcs:
        v["cs_n"] = allcs & ~(1 << (force % ncs))
    return v


def is_command(v, ncs):
    return v["cs_n"] != (1 << ncs) - 1


# ---------------------------------------------------------------------------------------------------------------------
# injector
class InjDut(Module):
    def __init__(self, cfg):
        from litedram.dfii import DFIInjector
        from litex.soc.interconnect.csr import _CompoundCSR
        self.submodules.inj = inj = DFIInjector(cfg["addressbits"], cfg["bankbits"], cfg["nranks"], cfg["databits"],
                                                nphases=cfg["nphases"], is_clam_shell=bool(cfg["clam"]))
        # what CSRBank does with the CSRs of a module (litex/soc/interconnect/csr_bus.py): finalize + submodule
        self.bus_csrs = []          # simple CSRs the bus writes: (re, r)
        for c in inj.get_csrs():
            if isinstance(c, _CompoundCSR):
                c.finalize(CSR_BUSWORD, "big")
                self.submodules += c
                if hasattr(c, "storage"):
                    for sc in c.get_simple_csrs():
                        self.bus_csrs.append(sc)
            else:
                self.bus_csrs.append(c)
        self.control = inj._control
        self.control_sc = inj._control.get_simple_csrs()[0]
        assert len(inj._control.get_simple_csrs()) == 1


class InjBench:
    """signal handles of one InjDut instance"""
    def __init__(self, cfg):
        self.cfg = cfg
        self.dut = d = InjDut(cfg)
        inj = d.inj
        self.np = cfg["nphases"]
        self.sw = {f: len(getattr(inj.slave.phases[0], f)) for f in M2S + S2M}    # controller side widths
        self.mw = {f: len(getattr(inj.master.phases[0], f)) for f in M2S + S2M}   # PHY side widths
        self.slave = [{f: getattr(p, f) for f in M2S + S2M} for p in inj.slave.phases]
        self.ext = [{f: getattr(p, f) for f in M2S + S2M} for p in inj.ext_dfi.phases]
        self.master = [{f: getattr(p, f) for f in M2S + S2M} for p in inj.master.phases]
        self.ext_sel = inj.ext_dfi_sel
        self.storage = d.control.storage
        self.others = [sc for sc in d.bus_csrs if sc is not d.control_sc]
        self.obs_sigs = [self.storage] + [ph[f] for ph in self.master for f in M2S] + \
                        [ph[f] for ph in self.slave for f in S2M] + [ph[f] for ph in self.ext for f in S2M]
        self.nbits_side = self.np * (sum(self.sw[f] for f in M2S) + 16) + 64
        self.nbits_csr = sum(len(sc.r) + 12 for sc in self.others) + 64


def inj_plan(case):
    """per-cycle intended sel / ext_dfi_sel: both start at the reset state (hardware control, controller) and toggle at
    the generated cycles"""
    n = case["n"]
    sel, ext = [], []
    s, e = 1, 0
    st, et = set(case["sel"]), set(case["ext"])
    for t in range(n):
        if t in st:
            s ^= 1
        if t in et:
            e ^= 1
        sel.append(s)
        ext.append(e)
    return sel, ext


def run_injector(b, sim, case, variant=0):
    """variant 0: the case.  variant 1: identical CSR traffic, PHY read data and sel schedule, but different
    controller-side and external-DFI values and the opposite ext_dfi_sel (metamorphic partner)."""
    n = case["n"]
    vs = case["vseed"]
    vside = "%d/%d" % (vs, variant)
    sel_plan, ext_plan = inj_plan(case)
    np_ = b.np
    trace = []
    prev_sel = 1
    for t in range(n):
        w = []
        bs = Bits("inj/s/%s/%d" % (vside, t), b.nbits_side)
        be = Bits("inj/e/%s/%d" % (vside, t), b.nbits_side)
        bm = Bits("inj/m/%d/%d" % (vs, t), np_ * (b.mw["rddata"] + 1) + 16)
        bc = Bits("inj/c/%d/%d" % (vs, t), b.nbits_csr)
        sv, xv, mv = [], [], []
        for p in range(np_):
            v = gen_phase(bs, b.sw, case["idle"], case["raw"])
            sv.append(v)
            w += [(b.slave[p][f], v[f]) for f in M2S]
            v = gen_phase(be, b.sw, case["idle"], case["raw"])
            xv.append(v)
            w += [(b.ext[p][f], v[f]) for f in M2S]
            r = dict(rddata=bm.take(b.mw["rddata"]), rddata_valid=bm.take(1))
            mv.append(r)
            w += [(b.master[p][f], r[f]) for f in S2M]
        es = ext_plan[t] ^ variant
        w.append((b.ext_sel, es))
        # register writes over the bus.  control: sel as planned, the other bits random
        ctl_wr = bc.chance(case["csr_wr"]) or sel_plan[t] != prev_sel
        ctl_val = (bc.take(3) << 1) | sel_plan[t]
        prev_sel = sel_plan[t] if ctl_wr else prev_sel
        w += [(b.dut.control_sc.re, 1 if ctl_wr else 0), (b.dut.control_sc.r, ctl_val)]
        for sc in b.others:
            w += [(sc.re, 1 if bc.chance(case["csr_wr"]) else 0), (sc.r, bc.take(len(sc.r)))]
        sim.step(w)
        obs = [sim.get(s) for s in b.obs_sigs]
        trace.append(dict(slave=sv, ext=xv, phy=mv, ext_sel=es, obs=obs))
    return trace


def _unpack_inj(b, obs):
    np_ = b.np
    i = 1
    master = []
    for p in range(np_):
        master.append({f: obs[i + k] for k, f in enumerate(M2S)})
        i += len(M2S)
    srd = []
    for p in range(np_):
        srd.append({f: obs[i + k] for k, f in enumerate(S2M)})
        i += len(S2M)
    xrd = []
    for p in range(np_):
        xrd.append({f: obs[i + k] for k, f in enumerate(S2M)})
        i += len(S2M)
    return obs[0], master, srd, xrd


def inj_key(cfg):
    return "inj/nph%d/ranks%d/clam%d" % (cfg["nphases"], cfg["nranks"], cfg["clam"])


def check_injector(b, trA, trB):
    """returns (findings, info).  Oracle per cycle, mode taken from the control register (bit 0 = sel):
       sel=1, ext_dfi_sel=0: PHY side == controller side, same cycle, every field (cs_n replicated twice for clam shell;
                             for the rank-wide cke/odt, which have twice the bits on the PHY side with clam shell, the
                             controller's bits must arrive on the low half), read data/valid back unchanged;
       sel=1, ext_dfi_sel=1: same with the external DFI in the controller's place (cs_n on the low half);
       sel=0:               PHY side identical in the two runs that differ only in controller/external values."""
    cfg = b.cfg
    fs = []
    info = dict(hw=0, sw=0, ext=0, switch_adjacent_cmd=0, hw_cmd_slots=0, multi_cmd_cycles=0, sw_cycles_differing_inputs=0)
    key = inj_key(cfg)
    ncs = b.sw["cs_n"]
    prev_mode = None
    prev_cmd = False
    for t, (a, bb) in enumerate(zip(trA, trB)):
        ctlA, mA, srdA, xrdA = _unpack_inj(b, a["obs"])
        ctlB, mB, srdB, xrdB = _unpack_inj(b, bb["obs"])
        if ctlA != ctlB:
            raise HarnessError("control register differs between metamorphic partners")
        sel = ctlA & 1
        mode = "sw" if not sel else ("ext" if a["ext_sel"] else "hw")
        info[mode] += 1
        ncmd = sum(1 for v in a["slave"] if is_command(v, ncs))
        if mode == "hw":
            info["hw_cmd_slots"] += ncmd
            if ncmd >= 2:
                info["multi_cmd_cycles"] += 1
        if prev_mode is not None and mode != prev_mode and (ncmd or prev_cmd):
            info["switch_adjacent_cmd"] += 1
        prev_mode, prev_cmd = mode, bool(ncmd)
        if mode in ("hw", "ext"):
            src = a["slave"] if mode == "hw" else a["ext"]
            back = srdA if mode == "hw" else xrdA
            for p in range(b.np):
                for f in M2S:
                    exp = src[p][f]
                    got = mA[p][f]
                    ws, wm = b.sw[f], b.mw[f]
                    if f == "cs_n" and cfg["clam"] and mode == "hw":
                        exp = exp | (exp << ws)
                    elif wm > ws:
                        got &= (1 << ws) - 1
                    if got != exp:
                        fs.append(dict(clause="C18.inj_%s_m2s" % mode, key="%s/%s" % (key, f),
                                       what="%s: cycle %d %s mode phase %d %s: PHY side 0x%x, %s side 0x%x (expected 0x%x on PHY side)"
                                            % (key, t, "hardware" if mode == "hw" else "external", p, f, mA[p][f],
                                               "controller" if mode == "hw" else "external", src[p][f], exp), cycle=t))
                for f in S2M:
                    if back[p][f] != a["phy"][p][f]:
                        fs.append(dict(clause="C18.inj_%s_rddata" % mode, key="%s/%s" % (key, f),
                                       what="%s: cycle %d %s mode phase %d %s: PHY drives 0x%x, %s side sees 0x%x"
                                            % (key, t, "hardware" if mode == "hw" else "external", p, f, a["phy"][p][f],
                                               "controller" if mode == "hw" else "external", back[p][f]), cycle=t))
        else:
            if a["slave"] != bb["slave"] or a["ext"] != bb["ext"]:
                info["sw_cycles_differing_inputs"] += 1
            for p in range(b.np):
                for f in M2S:
                    if mA[p][f] != mB[p][f]:
                        fs.append(dict(clause="C18.inj_sw_leak", key="%s/%s" % (key, f),
                                       what="%s: cycle %d software mode phase %d %s: PHY side 0x%x with controller 0x%x/external 0x%x but 0x%x "
                                            "with controller 0x%x/external 0x%x; CSR traffic, PHY inputs identical"
                                            % (key, t, p, f, mA[p][f], a["slave"][p][f], a["ext"][p][f], mB[p][f], bb["slave"][p][f], bb["ext"][p][f]),
                                       cycle=t))
        if len(fs) > 20:
            break
    return fs, info


# ---------------------------------------------------------------------------------------------------------------------
# rate converter
class ConvDut(Module):
    def __init__(self, cfg):
        from litedram.phy.dfi import Interface, DFIRateConverter
        r = cfg["ratio"]
        self.dfi_old = Interface(cfg["addressbits"], cfg["bankbits"], cfg["nranks"], cfg["databits"], cfg["nph"])
        self.submodules.converter = DFIRateConverter(self.dfi_old, clkdiv="sys", clk="sys%dx" % r, ratio=r,
                                                     write_delay=cfg["wd"], read_delay=cfg["rd"])
        self.dfi = self.converter.dfi


def conv_clocks(cfg):
    r = cfg["ratio"]
    # the clocks test/test_dfi.py uses: both rise at t=1, then sys every 4*ratio, sys<ratio>x every 4
    return {"sys": (4 * r, 4 * r // 2 - 1), "sys%dx" % r: (4, 1)}


class ConvBench:
    def __init__(self, cfg):
        self.cfg = cfg
        self.dut = d = ConvDut(cfg)
        self.r = cfg["ratio"]
        self.nph = cfg["nph"]
        self.nsp = self.r * self.nph
        self.fast_cd = "sys%dx" % self.r
        self.fw = {f: len(getattr(d.dfi_old.phases[0], f)) for f in M2S + S2M}
        self.sw = {f: len(getattr(d.dfi.phases[0], f)) for f in M2S + S2M}
        self.fast = [{f: getattr(p, f) for f in M2S + S2M} for p in d.dfi_old.phases]
        self.slow = [{f: getattr(p, f) for f in M2S + S2M} for p in d.dfi.phases]
        self.obs_sigs = [ph[f] for ph in self.fast for f in M2S] + [ph[f] for ph in self.slow for f in S2M]
        self.nbits_slow = self.nsp * (sum(self.sw[f] for f in M2S) + 16) + 64
        self.declared = (d.converter.ser_latency, d.converter.des_latency)


def run_converter(b, sim, case):
    """returns dict(S=slow inputs per slow cycle (index -1 = values before the first edge), R=PHY read inputs per fast
    cycle, obs=observations per fast cycle)"""
    n = case["n"]
    r = b.r
    vs = case["vseed"]
    forced = {}
    for (c, p) in case["ev"]:
        forced.setdefault(c, set()).add(p % b.nsp)
    st = dict(c=-1, f=-1)
    S = {-1: [{f: sim.get(ph[f]) for f in M2S} for ph in b.slow]}
    R = {-1: [{f: sim.get(ph[f]) for f in S2M} for ph in b.fast]}
    obs = []

    def on_rising(cd):
        w = []
        if cd == "sys":
            st["c"] += 1
            c = st["c"]
            bs = Bits("conv/s/%d/%d" % (vs, c), b.nbits_slow)
            vals = []
            for p in range(b.nsp):
                fp = p in forced.get(c, ())
                v = gen_phase(bs, b.sw, 0 if fp else 100 - case["dens"], case["raw"])
                if fp and not is_command(v, b.sw["cs_n"]):
                    v["cs_n"] = 0
                if case["data"] == 0 and not is_command(v, b.sw["cs_n"]):
                    v["wrdata"] = v["wrdata_mask"] = 0
                vals.append(v)
                w += [(b.slow[p][f], v[f]) for f in M2S]
            S[c] = vals
        elif cd == b.fast_cd:
            st["f"] += 1
            f = st["f"]
            bm = Bits("conv/m/%d/%d" % (vs, f), b.nph * (b.fw["rddata"] + 16) + 16)
            vals = []
            for q in range(b.nph):
                v = dict(rddata=bm.take(b.fw["rddata"]), rddata_valid=1 if bm.chance(case["rdv"]) else 0)
                vals.append(v)
                w += [(b.fast[q][f2], v[f2]) for f2 in S2M]
            R[f] = vals
        else:
            raise HarnessError("unexpected clock domain %r" % cd)
        return w

    guard = 0
    while st["f"] < n * r - 1:
        rising = sim.tick(on_rising)
        guard += 1
        if guard > 16 * n * r + 64:
            raise HarnessError("clocks do not advance")
        if b.fast_cd in rising:
            f, c = st["f"], st["c"]
            if f // r != c or (("sys" in rising) != (f % r == 0)):
                raise HarnessError("clock edges not aligned as test_dfi.py sets them up (fast edge %d, slow edge %d)" % (f, c))
            obs.append([sim.get(s) for s in b.obs_sigs])
        elif "sys" in rising:
            raise HarnessError("slow edge without a fast edge")
    return dict(S=S, R=R, obs=obs)


class RefConverter:
    """Reference model of the rate converter from its documentation only.

    Time base: fast cycle f = the interval after the f-th rising edge of clk (f = 0 is the first edge, which is also
    slow edge 0); slow cycle c covers fast cycles ratio*c .. ratio*c + ratio-1 (clocks phase aligned).

    * Commands (every field that is not write/read data): "the commands on the following phases of the new DFI will be
      serialized to following phases/clocks of phy_dfi (phases first, then clock cycles)": slow phase p of slow cycle c
      -> fast phase p mod nph of fast cycle ratio*(c + SER) + p div nph; Serializer: "LATENCY is specified in clkdiv
      cycles", LATENCY = 1.
    * Write data/mask: "a whole burst on phy_dfi is sent in a single clk cycle ... only a single cycle of clk per clkdiv
      cycle carries the data (by default cycle 0)", modified by write_delay: the slow cycle's data word (all slow phases,
      phase 0 in the least significant bits) is the fast interface's data word (all fast phases) in fast cycle
      ratio*(c + SER) + write_delay; the other fast cycles carry nothing (0).
    * Read data: the fast cycle ratio*c + read_delay's data word is the slow interface's data word in slow cycle
      c + DES, Deserializer LATENCY = 2 clkdiv cycles; rddata_valid of a fast phase is replicated over the slow phases
      that carry that fast phase's data.
    """
    SER = 1
    DES = 2

    def __init__(self, ratio, nph, wd, rd, slow_w, fast_w):
        self.r, self.nph, self.wd, self.rd = ratio, nph, wd, rd
        self.sw, self.fw = slow_w, fast_w

    def fast_expected(self, S, f):
        """expected master-to-slave values on every fast phase in fast cycle f; S[c] = slow inputs of slow cycle c"""
        r, nph = self.r, self.nph
        c = f // r - self.SER
        j = f % r
        src = S[c]
        out = []
        for q in range(nph):
            v = {}
            sp = src[q + nph * j]
            for fld in M2S:
                if fld in ("wrdata", "wrdata_mask"):
                    continue
                v[fld] = sp[fld]
            for fld in ("wrdata", "wrdata_mask"):
                if j == self.wd:
                    w = self.sw[fld]
                    word = 0
                    for p in range(r * nph):
                        word |= src[p][fld] << (p * w)
                    v[fld] = (word >> (q * self.fw[fld])) & ((1 << self.fw[fld]) - 1)
                else:
                    v[fld] = 0
            out.append(v)
        return out

    def source_slot(self, f, q):
        """(slow cycle, slow phase) whose command is expected on fast phase q in fast cycle f"""
        return f // self.r - self.SER, q + self.nph * (f % self.r)

    def slow_expected(self, R, f):
        """expected slave-to-master values on every slow phase during fast cycle f (constant over a slow cycle)"""
        r, nph = self.r, self.nph
        c = f // r - self.DES
        out = []
        if c < 0:
            return [dict(rddata=0, rddata_valid=0) for _ in range(r * nph)]
        src = R[r * c + self.rd]
        word = 0
        for q in range(nph):
            word |= src[q]["rddata"] << (q * self.fw["rddata"])
        w = self.sw["rddata"]
        for p in range(r * nph):
            out.append(dict(rddata=(word >> (p * w)) & ((1 << w) - 1), rddata_valid=src[p // r]["rddata_valid"]))
        return out


def conv_key(cfg):
    return "conv/r%d/nph%d/wd%d/rd%d" % (cfg["ratio"], cfg["nph"], cfg["wd"], cfg["rd"])


def check_converter(b, run):
    cfg = b.cfg
    fs = []
    key = conv_key(cfg)
    ref = RefConverter(cfg["ratio"], cfg["nph"], cfg["wd"], cfg["rd"], b.sw, b.fw)
    S, R, obs = run["S"], run["R"], run["obs"]
    ncs = b.sw["cs_n"]
    info = dict(cmds=0, multi_phase_cycles=0, multi_fastcycle_cycles=0, wr_bursts=0, rd_valid_bursts=0, fast_cycles=len(obs))
    if b.declared != (RefConverter.SER, RefConverter.DES):
        fs.append(dict(clause="C18.conv_declared_latency", key=key,
                       what="%s: converter declares ser_latency=%d des_latency=%d, documentation says %d and %d"
                            % (key, b.declared[0], b.declared[1], RefConverter.SER, RefConverter.DES)))
    for c in sorted(S):
        if c < 0:
            continue
        ph = [p for p in range(b.nsp) if is_command(S[c][p], ncs)]
        info["cmds"] += len(ph)
        if len(ph) >= 2:
            info["multi_phase_cycles"] += 1
            if len(set(p // b.nph for p in ph)) >= 2:
                info["multi_fastcycle_cycles"] += 1
    nm = len(M2S)
    for f, o in enumerate(obs):
        expf = ref.fast_expected(S, f)
        for q in range(b.nph):
            for k, fld in enumerate(M2S):
                got = o[q * nm + k]
                exp = expf[q][fld]
                if got != exp:
                    sc, sp = ref.source_slot(f, q)
                    if fld in ("wrdata", "wrdata_mask"):
                        clause = "C18.conv_wrdata"
                        what = ("%s: fast cycle %d (slow cycle %d + %d) fast phase %d %s = 0x%x, expected 0x%x (%s)"
                                % (key, f, f // b.r, f % b.r, q, fld, got, exp,
                                   "burst of slow cycle %d" % sc if f % b.r == cfg["wd"] else "no data in this clk cycle"))
                    else:
                        clause = "C18.conv_cmd"
                        what = ("%s: fast cycle %d (slow cycle %d + %d) fast phase %d %s = 0x%x, expected 0x%x = slow cycle %d slow phase %d"
                                % (key, f, f // b.r, f % b.r, q, fld, got, exp, sc, sp))
                    fs.append(dict(clause=clause, key="%s/%s" % (key, fld), what=what, cycle=f))
        exps = ref.slow_expected(R, f)
        base = b.nph * nm
        for p in range(b.nsp):
            for k, fld in enumerate(S2M):
                got = o[base + p * 2 + k]
                exp = exps[p][fld]
                if got != exp:
                    cs = f // b.r - RefConverter.DES
                    fs.append(dict(clause="C18.conv_rddata", key="%s/%s" % (key, fld),
                                   what="%s: slow cycle %d (fast cycle %d) slow phase %d %s = 0x%x, expected 0x%x = PHY read data of fast cycle %s"
                                        % (key, f // b.r, f, p, fld, got, exp, (b.r * cs + cfg["rd"]) if cs >= 0 else "(none yet)"), cycle=f))
        if f % b.r == cfg["wd"] and f >= b.r:
            info["wr_bursts"] += 1
        if len(fs) > 20:
            break
    for f in sorted(R):
        if f >= 0 and f % b.r == cfg["rd"] and any(v["rddata_valid"] for v in R[f]):
            info["rd_valid_bursts"] += 1
    return fs, info


# ---------------------------------------------------------------------------------------------------------------------
# bench cache / backends
_CACHE = {}


def cfg_id(cfg):
    return ",".join("%s=%s" % (k, cfg[k]) for k in sorted(cfg))


def get_bench(cfg, backend="fast"):
    """(bench, sim): fast = compiled once per configuration per process, migen = fresh design on stock migen.sim"""
    kind = cfg["kind"]
    mk = InjBench if kind == "inj" else ConvBench
    clocks = {"sys": 10} if kind == "inj" else conv_clocks(cfg)
    if backend == "migen":
        b = mk(cfg)
        return b, MigenSim(b.dut, clocks)
    k = cfg_id(cfg)
    ent = _CACHE.get(k)
    if ent is None:
        b = mk(cfg)
        ent = _CACHE[k] = (b, compile_dut(b.dut, clocks))
        if len(_CACHE) > 8:
            _CACHE.pop(next(iter(_CACHE)))
    b, comp = ent
    return b, FastSim(comp)


def evaluate(cfg, case, backend="fast"):
    """returns (findings, info, observation trace)"""
    if cfg["kind"] == "inj":
        b, sim = get_bench(cfg, backend)
        trA = run_injector(b, sim, case, 0)
        b2, sim2 = get_bench(cfg, backend)
        trB = run_injector(b2, sim2, case, 1)
        fs, info = check_injector(b, trA, trB)
        return fs, info, [t["obs"] for t in trA]
    b, sim = get_bench(cfg, backend)
    run = run_converter(b, sim, case)
    fs, info = check_converter(b, run)
    return fs, info, run["obs"]


def diff_selftest(cfg, case, max_n):
    """same case on both simulators, every observed signal every cycle; returns the number of compared cycles"""
    c2 = dict(case)
    c2["n"] = min(case["n"], max_n)
    _, _, ta = evaluate(cfg, c2, "fast")
    _, _, tb = evaluate(cfg, c2, "migen")
    if len(ta) != len(tb):
        raise HarnessError("trace lengths differ between simulators")
    for t in range(len(ta)):
        if ta[t] != tb[t]:
            bad = [i for i in range(len(ta[t])) if ta[t][i] != tb[t][i]]
            raise HarnessError("fastsim differs from migen.sim at cycle %d, observed signal indexes %s, %s" % (t, bad[:6], cfg_id(cfg)))
    return len(ta)
