"""Whole-core device under test: LiteDRAMController + LiteDRAMCrossbar with N native ports, DFI exposed.

A configuration is a plain JSON-able dict (so it can be written into replay files):

  memtype, nphases, dfi_databits, rdphase, wrphase, cl, cwl, read_latency, write_latency, nranks,
  bankbits, rowbits, colbits, clk_freq,
  timing  : {tRP,tRCD,tWR,tWTR,tREFI,tRFC,tFAW,tCCD,tRRD,tRC,tRAS,tZQCS}   (controller cycles, or None)
  ctrl    : ControllerSettings keyword arguments
  ports   : [{mode, data_width, clock_domain, reverse}, ...]
  clocks  : {"sys": 10, ...}  (only for multi-clock devices)
  module  : optional {"cls": name, "speedgrade": s, "rate": "1:4", "fine": None} -> geometry/timing taken
            from litedram.modules at clk_freq (timing/geometry keys of the cfg are then filled from it)
"""
import lib.compat  # noqa
from migen import *
from litedram.common import PhySettings, GeomSettings, TimingSettings, burst_lengths
from litedram.core.controller import ControllerSettings, LiteDRAMController
from litedram.core.crossbar import LiteDRAMCrossbar

TIMING_KEYS = ["tRP", "tRCD", "tWR", "tWTR", "tREFI", "tRFC", "tFAW", "tCCD", "tRRD", "tRC", "tRAS", "tZQCS"]


def burst_length(cfg):
    return cfg["nphases"] if cfg["memtype"] == "SDR" else burst_lengths[cfg["memtype"]]


def address_align(cfg):
    return log2_int(burst_length(cfg))


def fill_from_module(cfg):
    """Complete cfg (geometry + timing in controller cycles) from a litedram.modules class."""
    import litedram.modules as M
    m = cfg["module"]
    cls = getattr(M, m["cls"])
    kw = {}
    if m.get("speedgrade") is not None:
        kw["speedgrade"] = m["speedgrade"]
    if m.get("fine") is not None:
        kw["fine_refresh_mode"] = m["fine"]
    mod = cls(cfg["clk_freq"], m["rate"], **kw)
    g = mod.geom_settings
    cfg.setdefault("bankbits", g.bankbits)
    cfg.setdefault("rowbits", g.rowbits)
    cfg.setdefault("colbits", g.colbits)
    t = mod.timing_settings
    cfg["timing"] = {k: getattr(t, k) for k in TIMING_KEYS}
    cfg["memtype"] = mod.memtype
    return mod


class CoreDUT(Module):
    def __init__(self, cfg):
        self.cfg = cfg
        phy = PhySettings(
            phytype="VERIF", memtype=cfg["memtype"], databits=cfg.get("databits", cfg["dfi_databits"]),
            dfi_databits=cfg["dfi_databits"], nphases=cfg["nphases"],
            rdphase=cfg["rdphase"], wrphase=cfg["wrphase"], cl=cfg["cl"], cwl=cfg.get("cwl"),
            read_latency=cfg["read_latency"], write_latency=cfg["write_latency"], nranks=cfg.get("nranks", 1))
        geom = GeomSettings(bankbits=cfg["bankbits"], rowbits=cfg["rowbits"], colbits=cfg["colbits"])
        timing = TimingSettings(**{k: cfg["timing"].get(k) for k in TIMING_KEYS})
        cs = ControllerSettings(**cfg.get("ctrl", {}))
        self.phy_settings = phy
        self.submodules.controller = c = LiteDRAMController(phy, geom, timing, cfg.get("clk_freq", 100e6), cs)
        self.submodules.crossbar = LiteDRAMCrossbar(c.interface)
        self.ports = []
        for p in cfg.get("ports", [{}]):
            self.ports.append(self.crossbar.get_port(
                mode=p.get("mode", "both"), data_width=p.get("data_width"),
                clock_domain=p.get("clock_domain", "sys"), reverse=p.get("reverse", False)))
        self.dfi = c.dfi
        self.interface = c.interface
        self.bank_machines = [m for m in c._submodules if False]  # placeholder (see below)
        self.bank_machines = [sm for _, sm in c._submodules if sm.__class__.__name__ == "BankMachine"]
        self.multiplexer = c.multiplexer
        self.refresher = c.refresher


def clocks_of(cfg):
    return dict(cfg.get("clocks", {"sys": 10}))
