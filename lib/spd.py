"""Independent SPD timing decode, written from the JEDEC SPD byte maps (JESD21-C Annex K for DDR3, Annex L for DDR4).
Returns nanosecond values as exact Fractions.  Clock-count minimums are not part of SPD and are not asserted here."""
from fractions import Fraction as Fr


def _s8(x):
    return x - 256 if x & 0x80 else x


def decode(d):
    if d[2] == 0x0b:
        return _ddr3(d)
    if d[2] == 0x0c:
        return _ddr4(d)
    return None


def _ddr3(d):
    if (d[9] & 0xf) == 0 or d[11] == 0:
        return None
    ftb = Fr(d[9] >> 4, d[9] & 0xf) / 1000           # ns
    mtb = Fr(d[10], d[11])                           # ns

    def t(m, f=0):
        return m * mtb + _s8(f) * ftb
    tras = t(((d[21] & 0xf) << 8) | d[22])
    trp = t(d[20], d[37])
    timings = dict(
        tRP=(0, trp), tRCD=(0, t(d[18], d[36])), tWR=(0, t(d[17])), tRRD=(0, t(d[19])),
        tRAS=(0, tras), tRFC=(0, t((d[25] << 8) | d[24])), tWTR=(0, t(d[26])), tFAW=(0, t(((d[28] & 0xf) << 8) | d[29])),
        tRC=(0, trp + tras),            # the library defines tRC as tRP + tRAS
        tREFI=(0, Fr(64 * 10**6, 8192)),
    )
    return dict(memtype="DDR3", timings=timings,
                bankbits=3 + ((d[4] >> 4) & 7), rowbits=12 + ((d[5] >> 3) & 7), colbits=9 + (d[5] & 7),
                trc_spd=t(((d[21] >> 4) << 8) | d[23], d[38]))


def _ddr4(d):
    if (d[17] & 0xf) != 0:
        return None
    mtb = Fr(125, 1000)
    ftb = Fr(1, 1000)

    def t(m, f=0):
        return m * mtb + _s8(f) * ftb
    tras = t(((d[27] & 0xf) << 8) | d[28])
    trp = t(d[26], d[121])
    trefi = Fr(64 * 10**6, 8192)
    timings = dict(
        tRP=(0, trp), tRCD=(0, t(d[25], d[122])), tWR=(0, t(((d[41] & 0xf) << 8) | d[42])),
        tRRD=(0, t(d[39], d[118])),                        # tRRD_L: the controller does not distinguish bank groups
        tCCD=(0, t(d[40], d[117])),                        # tCCD_L
        tWTR=(0, t(((d[43] >> 4) << 8) | d[45])),          # tWTR_L
        tRAS=(0, tras), tRC=(0, trp + tras),
        tRFC={"1x": (0, t((d[31] << 8) | d[30])), "2x": (0, t((d[33] << 8) | d[32])), "4x": (0, t((d[35] << 8) | d[34]))},
        tFAW=(0, t(((d[36] & 0xf) << 8) | d[37])),
        tREFI={"1x": (0, trefi), "2x": (0, trefi / 2), "4x": (0, trefi / 4)},
    )
    bg = (d[4] >> 6) & 3
    ba = 2 + ((d[4] >> 4) & 3)
    return dict(memtype="DDR4", timings=timings, bankbits=bg + ba, rowbits=12 + ((d[5] >> 3) & 7), colbits=9 + (d[5] & 7))


def timing_bytes(kind):
    if kind == 0x0b:
        return [17, 18, 19, 20, 21, 22, 24, 25, 26, 28, 29, 36, 37]
    return [25, 26, 27, 28, 30, 31, 32, 33, 34, 35, 36, 37, 39, 40, 41, 42, 43, 45, 117, 118, 121, 122]


def legal_mutation(data, off, val):
    # fine-offset bytes are signed 8 bit: keep corrections small as in real parts (|ftb| < 1 MTB)
    if (data[2] == 0x0b and off in (36, 37)) or (data[2] == 0x0c and off in (117, 118, 121, 122)):
        v = (val % 125) - 62
        return v & 0xff
    # upper-nibble bytes: keep ranges of real parts (a few hundred ns at most)
    if (data[2] == 0x0b and off in (21, 28, 25)) or (data[2] == 0x0c and off in (27, 36, 41, 43, 31, 33, 35)):
        return val & (0x11 if off in (21, 27, 43) else 0x07)
    return val
