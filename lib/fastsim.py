"""fastsim: compile a Migen fragment (exactly as migen.sim.Simulator preprocesses it) to Python source.

Two backends with one testbench API:

    sim = FastSim(compiled)            # compiled = compile_dut(dut, clocks)
    sim = MigenSim(dut, clocks)        # thin stepping layer over migen.sim's own Evaluator

    sim.get(signal)                    # settled value after the previous edge
    sim.step(writes)                   # single clock: one rising edge of every domain in `clocks`
                                       # writes = [(signal, value), ...] become visible after the edge
    sim.tick(on_rising)                # multi clock: advance to the next clock transition;
                                       # on_rising(cd) -> writes, called for every rising domain

Value semantics are copied from migen.sim.core.Evaluator (unbounded ints in expressions, truncation and
sign at assignment, slice read-modify-write on the post-commit value, Array index clamping, Case on the
truncated test).  The comb network is brought to its fixed point after every edge like migen's
_commit_and_comb_propagate does.  The compiled comb function is levelised (statements sorted so that
writers precede readers where the statement graph allows) and iterated Gauss-Seidel style on per-pass
temporaries until nothing changes; for the acyclic networks Migen designs consist of, this reaches the
same (unique) fixed point as migen's Jacobi iteration.  No verdict rests on that argument: violations are
re-run on MigenSim before they are reported and every campaign starts with a differential self-test.
"""
import collections, operator
from migen import *
from migen.fhdl.structure import _Operator, _Slice, _Part, _ArrayProxy, _Assign, _Value, _Statement
from migen.fhdl.bitcontainer import value_bits_sign
from migen.fhdl.specials import _MemoryLocation
from migen.fhdl.tools import list_targets, list_signals
from migen.sim.core import Simulator, TimeManager

MAX_PASSES = 2000


class HarnessError(Exception):
    pass


class _Compiler:
    def __init__(self, dut, clocks):
        self.sim = Simulator(dut, [], clocks=clocks)
        self.frag = self.sim.fragment
        self.ev = self.sim.evaluator
        self.idx = {}
        self.sigs = []
        self.tmpn = 0
        self.memsigs = set()
        for mem, arr in self.ev.replaced_memories.items():
            base = len(self.sigs)
            for s in arr:
                self.sid(s)
                self.memsigs.add(s)
            ids = [self.idx[s] for s in arr]
            assert ids == list(range(base, base + len(ids)))

    def sid(self, s):
        i = self.idx.get(s)
        if i is None:
            i = self.idx[s] = len(self.sigs)
            self.sigs.append(s)
        return i

    # ---- expressions -------------------------------------------------------------------------
    # rd(i, post) gives the source text that reads signal i
    def e(self, node, post=False):
        if isinstance(node, Constant):
            return repr(node.value)
        if isinstance(node, Signal):
            return self.rd(self.sid(node), post)
        if isinstance(node, _Operator):
            ops = [self.e(o, post) for o in node.operands]
            op = node.op
            if op == "-":
                return "(-%s)" % ops[0] if len(ops) == 1 else "(%s-%s)" % tuple(ops)
            if op == "m":
                return "(%s if %s else %s)" % (ops[1], ops[0], ops[2])
            if op == "~":
                return "(~%s)" % ops[0]
            pyop = {">>>": ">>", "<<<": "<<"}.get(op, op)
            return "(%s%s%s)" % (ops[0], pyop, ops[1])
        if isinstance(node, _Slice):
            w = node.stop - node.start
            return "((%s>>%d)&%d)" % (self.e(node.value, post), node.start, (1 << w) - 1)
        if isinstance(node, _Part):
            return "((%s>>%s)&%d)" % (self.e(node.value, post), self.e(node.offset, post), (1 << node.width) - 1)
        if isinstance(node, Cat):
            parts = []
            shift = 0
            for el in node.l:
                nb = len(el)
                if nb:
                    parts.append("((%s&%d)<<%d)" % (self.e(el, post), (1 << nb) - 1, shift))
                shift += nb
            return "(" + "|".join(parts) + ")" if parts else "0"
        if isinstance(node, Replicate):
            nb = len(node.v)
            mult = sum(1 << (i * nb) for i in range(node.n))
            return "((%s&%d)*%d)" % (self.e(node.v, post), (1 << nb) - 1, mult)
        if isinstance(node, _ArrayProxy):
            ch = [self.e(c, post) for c in node.choices]
            return "(%s)[min(%d,%s)]" % ("(" + ",".join(ch) + ",)", len(ch) - 1, self.e(node.key, post))
        if isinstance(node, _MemoryLocation):
            arr = self.ev.replaced_memories[node.memory]
            base = self.idx[arr[0]]
            return self.rdmem(base, self.e(node.index, post), post)
        if isinstance(node, ClockSignal):
            return self.e(self.frag.clock_domains[node.cd].clk, post)
        if isinstance(node, ResetSignal):
            rst = self.frag.clock_domains[node.cd].rst
            return "0" if rst is None else self.e(rst, post)
        raise NotImplementedError(node)

    # ---- statements --------------------------------------------------------------------------
    def assign(self, node, val, out, ind):
        if isinstance(node, Signal):
            i = self.sid(node)
            m = (1 << node.nbits) - 1
            if node.signed:
                out.append("%st_=%s&%d" % (ind, val, m))
                self.wr(i, "(t_-%d if t_&%d else t_)" % (1 << node.nbits, 1 << (node.nbits - 1)), out, ind)
            else:
                self.wr(i, "%s&%d" % (val, m), out, ind)
        elif isinstance(node, Cat):
            t = "c%d_" % self.tmpn
            self.tmpn += 1
            out.append("%s%s=%s" % (ind, t, val))
            shift = 0
            for el in node.l:
                nb = len(el)
                self.assign(el, "((%s>>%d)&%d)" % (t, shift, (1 << nb) - 1), out, ind)
                shift += nb
        elif isinstance(node, _Slice):
            w = node.stop - node.start
            mask = ((1 << node.stop) - 1) - ((1 << node.start) - 1)
            full = "((%s&%d)|((%s&%d)<<%d))" % (self.e(node.value, True), ~mask, val, (1 << w) - 1, node.start)
            self.assign(node.value, full, out, ind)
        elif isinstance(node, _Part):
            off = "o%d_" % self.tmpn
            self.tmpn += 1
            out.append("%s%s=%s" % (ind, off, self.e(node.offset, True)))
            w = node.width
            full = "((%s&~(%d<<%s))|((%s&%d)<<%s))" % (self.e(node.value, True), (1 << w) - 1, off, val, (1 << w) - 1, off)
            self.assign(node.value, full, out, ind)
        elif isinstance(node, _ArrayProxy):
            k = "k%d_" % self.tmpn
            self.tmpn += 1
            t = "a%d_" % self.tmpn
            self.tmpn += 1
            out.append("%s%s=min(%d,%s); %s=%s" % (ind, k, len(node.choices) - 1, self.e(node.key), t, val))
            for j, c in enumerate(node.choices):
                out.append("%s%s %s==%d:" % (ind, "if" if j == 0 else "elif", k, j))
                self.assign(c, t, out, ind + " ")
        elif isinstance(node, _MemoryLocation):
            arr = self.ev.replaced_memories[node.memory]
            base = self.idx[arr[0]]
            s0 = arr[0]
            self.wrmem(base, self.e(node.index), "%s&%d" % (val, (1 << s0.nbits) - 1), out, ind)
        else:
            raise NotImplementedError(node)

    def stmts(self, sl, out, ind):
        empty = True
        for s in sl:
            if isinstance(s, _Assign):
                self.assign(s.l, self.e(s.r), out, ind)
                empty = False
            elif isinstance(s, If):
                out.append("%sif %s&%d:" % (ind, self.e(s.cond), (1 << len(s.cond)) - 1))
                if self.stmts(s.t, out, ind + " "):
                    out.append(ind + " pass")
                if s.f:
                    out.append("%selse:" % ind)
                    if self.stmts(s.f, out, ind + " "):
                        out.append(ind + " pass")
                empty = False
            elif isinstance(s, Case):
                nb, sg = value_bits_sign(s.test)
                t = "s%d_" % self.tmpn
                self.tmpn += 1
                out.append("%s%s=%s&%d" % (ind, t, self.e(s.test), (1 << nb) - 1))
                if sg:
                    out.append("%sif %s&%d: %s-=%d" % (ind, t, 1 << (nb - 1), t, 1 << nb))
                first = True
                for k, v in s.cases.items():
                    if isinstance(k, Constant):
                        out.append("%s%s %s==%d:" % (ind, "if" if first else "elif", t, k.value))
                        if self.stmts(v, out, ind + " "):
                            out.append(ind + " pass")
                        first = False
                if "default" in s.cases:
                    if first:
                        self.stmts(s.cases["default"], out, ind)
                    else:
                        out.append("%selse:" % ind)
                        if self.stmts(s.cases["default"], out, ind + " "):
                            out.append(ind + " pass")
                empty = False
            elif isinstance(s, collections.abc.Iterable):
                if not self.stmts(s, out, ind):
                    empty = False
            elif isinstance(s, Display):
                pass
            else:
                raise NotImplementedError(s)
        return empty

    # ---- sync: read v[], write n[] (n == v on entry) ------------------------------------------
    def build_sync(self, cd, sl):
        self.rd = lambda i, post: ("n[%d]" if post else "v[%d]") % i
        self.rdmem = lambda base, ix, post: "%s[%d+%s]" % ("n" if post else "v", base, ix)
        self.wr = lambda i, val, out, ind: out.append("%sn[%d]=%s" % (ind, i, val))
        self.wrmem = lambda base, ix, val, out, ind: out.append("%sn[%d+%s]=%s" % (ind, base, ix, val))
        o = []
        self.stmts(sl, o, " ")
        return ["def sync_%s(v,n):" % cd] + (o or [" pass"])

    # ---- comb ---------------------------------------------------------------------------------
    def build_comb_jacobi(self):
        self.rd = lambda i, post: ("n[%d]" if post else "v[%d]") % i
        self.rdmem = lambda base, ix, post: "%s[%d+%s]" % ("n" if post else "v", base, ix)
        self.wr = lambda i, val, out, ind: out.append("%sn[%d]=%s" % (ind, i, val))
        self.wrmem = lambda base, ix, val, out, ind: out.append("%sn[%d+%s]=%s" % (ind, base, ix, val))
        o = []
        self.stmts(self.frag.comb, o, " ")
        return ["def comb(v,n):"] + (o or [" pass"])

    def build_comb_levelised(self):
        """One pass = every comb target recomputed into a local (starting from its reset value, exactly the
        defaulting migen inserts), stored into v[] right after the last statement that can assign it.
        Statements are ordered writers-before-readers (Tarjan SCC order of the statement graph).
        Returns 1 if any stored value changed; the caller repeats until 0."""
        comb = list(self.frag.comb)
        targets_all = list_targets(comb)
        # the first len(targets) statements are migen's "s.eq(s.reset)" defaults; drop them, locals start at reset
        ndef = 0
        for s in comb:
            if isinstance(s, _Assign) and isinstance(s.l, Signal) and isinstance(s.r, Constant) and s.l.reset is s.r and ndef < len(targets_all):
                ndef += 1
            else:
                break
        body = comb[ndef:]
        defaults = set(s.l for s in comb[:ndef])
        # targets not covered by a default (should not happen) fall back to jacobi
        if defaults != set(targets_all):
            return None
        for t in targets_all:
            if t in self.memsigs:
                return None    # comb write to a memory cell: not levelised
        stm_t = [list_targets([s]) for s in body]
        stm_r = [_stmt_reads(s) for s in body]
        nst = len(body)
        writers = collections.defaultdict(list)
        for k, ts in enumerate(stm_t):
            for t in ts:
                writers[t].append(k)
        # edges: writer -> reader
        succ = [set() for _ in range(nst)]
        for k in range(nst):
            for s in stm_r[k]:
                for w in writers.get(s, ()):
                    if w != k:
                        succ[w].add(k)
        # statements sharing a target must keep their relative order: add edges in original order
        for t, ws in writers.items():
            for a, b in zip(ws, ws[1:]):
                succ[a].add(b)
        order = _scc_order(nst, succ)
        # emit
        tset = {t: self.sid(t) for t in targets_all}
        tid = set(tset.values())
        self.cur = set()   # ids of the targets of the statement being emitted (their locals exist)
        self.rd = lambda i, post: ("x%d" % i) if (post and i in self.cur) else ("v[%d]" % i)
        self.rdmem = lambda base, ix, post: "v[%d+%s]" % (base, ix)
        self.wr = lambda i, val, out, ind: out.append("%sx%d=%s" % (ind, i, val))
        def _nomem(*a):
            raise NotImplementedError("comb memory write")
        self.wrmem = _nomem
        last_writer_pos = {}
        for pos, k in enumerate(order):
            for t in stm_t[k]:
                last_writer_pos[t] = pos
        first_writer_pos = {}
        for pos, k in enumerate(order):
            for t in stm_t[k]:
                first_writer_pos.setdefault(t, pos)
        store_at = collections.defaultdict(list)
        init_at = collections.defaultdict(list)
        for t, pos in last_writer_pos.items():
            store_at[pos].append(t)
        for t, pos in first_writer_pos.items():
            init_at[pos].append(t)
        o = [" ch=0"]
        for pos, k in enumerate(order):
            for t in init_at[pos]:
                o.append(" x%d=%d" % (tset[t], t.reset.value))
            self.cur = set(tset[t] for t in stm_t[k])
            self.stmts([body[k]], o, " ")
            for t in store_at[pos]:
                i = tset[t]
                o.append(" if v[%d]!=x%d: v[%d]=x%d; ch=1" % (i, i, i, i))
        o.append(" return ch")
        return ["def comb(v):"] + o

    def build(self, levelised=True):
        src = []
        comb = self.build_comb_levelised() if levelised else None
        self.levelised = comb is not None
        if comb is None:
            comb = self.build_comb_jacobi()
        src += comb
        for cd, sl in self.frag.sync.items():
            src += self.build_sync(cd, sl)
        code = "\n".join(src)
        ns = {}
        exec(compile(code, "<fastsim>", "exec"), ns)
        self.ns = ns
        self.src = code
        self.reset_vals = [s.reset.value for s in self.sigs]
        return self


def _lhs_reads(node):
    if isinstance(node, Signal):
        return set()
    if isinstance(node, _Slice):
        return _lhs_reads(node.value)
    if isinstance(node, _Part):
        return _lhs_reads(node.value) | list_signals(node.offset)
    if isinstance(node, Cat):
        r = set()
        for el in node.l:
            r |= _lhs_reads(el)
        return r
    if isinstance(node, _ArrayProxy):
        r = set(list_signals(node.key))
        for c in node.choices:
            r |= _lhs_reads(c)
        return r
    return set(list_signals(node))


def _stmt_reads(s):
    if isinstance(s, _Assign):
        return set(list_signals(s.r)) | _lhs_reads(s.l)
    if isinstance(s, If):
        r = set(list_signals(s.cond))
        for x in s.t:
            r |= _stmt_reads(x)
        for x in s.f:
            r |= _stmt_reads(x)
        return r
    if isinstance(s, Case):
        r = set(list_signals(s.test))
        for v in s.cases.values():
            for x in v:
                r |= _stmt_reads(x)
        return r
    if isinstance(s, collections.abc.Iterable):
        r = set()
        for x in s:
            r |= _stmt_reads(x)
        return r
    if isinstance(s, Display):
        return set()
    raise NotImplementedError(s)


def _scc_order(n, succ):
    """Tarjan; returns nodes in topological order of the condensation (sources first), iterative."""
    index = [None] * n
    low = [0] * n
    onst = [False] * n
    st = []
    out = []
    counter = [0]
    for root in range(n):
        if index[root] is not None:
            continue
        work = [(root, iter(sorted(succ[root])))]
        index[root] = low[root] = counter[0]
        counter[0] += 1
        st.append(root)
        onst[root] = True
        while work:
            v, it = work[-1]
            adv = False
            for w in it:
                if index[w] is None:
                    index[w] = low[w] = counter[0]
                    counter[0] += 1
                    st.append(w)
                    onst[w] = True
                    work.append((w, iter(sorted(succ[w]))))
                    adv = True
                    break
                elif onst[w]:
                    low[v] = min(low[v], index[w])
            if adv:
                continue
            work.pop()
            if work:
                u = work[-1][0]
                low[u] = min(low[u], low[v])
            if low[v] == index[v]:
                comp = []
                while True:
                    w = st.pop()
                    onst[w] = False
                    comp.append(w)
                    if w == v:
                        break
                out.append(sorted(comp))
    out.reverse()   # Tarjan emits sinks first
    return [k for comp in out for k in comp]


class Compiled:
    def __init__(self, dut, clocks={"sys": 10}, levelised=True):
        self.clocks = dict(clocks)
        c = _Compiler(dut, clocks).build(levelised)
        self.c = c
        self.dut = dut
        self.levelised = c.levelised
        self.idx = c.idx
        self.sigs = c.sigs
        self.reset_vals = c.reset_vals
        self.comb = c.ns["comb"]
        self.syncs = {cd: c.ns.get("sync_" + cd) for cd in clocks}
        for cd in c.frag.sync:
            if cd not in clocks:
                raise HarnessError("clock domain %r has sync logic but no clock" % cd)

    def index(self, s):
        i = self.idx.get(s)
        if i is None:
            i = self.idx[s] = len(self.sigs)
            self.sigs.append(s)
            self.reset_vals.append(s.reset.value)
        return i


def compile_dut(dut, clocks={"sys": 10}, levelised=True):
    return Compiled(dut, clocks, levelised)


class FastSim:
    def __init__(self, compiled):
        self.c = compiled
        self.v = list(compiled.reset_vals)
        self.n = list(self.v)
        self.comb = compiled.comb
        self.lev = compiled.levelised
        self.single = len(compiled.clocks) == 1
        self.sync_list = [f for f in compiled.syncs.values() if f]
        self.time = TimeManager(collections.OrderedDict(sorted(compiled.clocks.items(), key=operator.itemgetter(0))))
        self.passes = 0
        self.cycles = 0
        self._settle()

    def _i(self, s):
        i = self.c.idx.get(s)
        if i is None:
            i = self.c.index(s)
        while len(self.v) <= i:
            k = len(self.v)
            self.v.append(self.c.reset_vals[k])
            self.n.append(self.c.reset_vals[k])
        return i

    def _settle(self):
        v = self.v
        k = 0
        if self.lev:
            comb = self.comb
            while comb(v):
                k += 1
                if k > MAX_PASSES:
                    raise HarnessError("comb network did not settle")
            self.n[:] = v
        else:
            n = self.n
            while True:
                self.comb(v, n)
                k += 1
                if n == v:
                    break
                v[:] = n
                if k > MAX_PASSES:
                    raise HarnessError("comb network did not settle")
        self.passes += k + 1

    def get(self, s):
        i = self.c.idx.get(s)
        if i is None or i >= len(self.v):
            i = self._i(s)
        return self.v[i]

    def step(self, writes=()):
        v, n = self.v, self.n
        for f in self.sync_list:
            f(v, n)
        for s, val in writes:
            i = self.c.idx.get(s)
            if i is None or i >= len(v):
                i = self._i(s)
            val &= (1 << s.nbits) - 1
            if s.signed and val >> (s.nbits - 1):
                val -= 1 << s.nbits
            n[i] = val
        v[:] = n
        self.cycles += 1
        self._settle()

    def poke(self, writes):
        """set input signals and propagate the combinational network only (no clock edge)"""
        v = self.v
        for s, val in writes:
            i = self._i(s)
            v[i] = val & ((1 << s.nbits) - 1)
        self.n[:] = v
        self._settle()

    def tick(self, on_rising):
        dt, rising, falling = self.time.tick()
        v, n = self.v, self.n
        writes = []
        for cd in sorted(rising):
            f = self.c.syncs.get(cd)
            if f:
                f(v, n)
        for cd in sorted(rising):
            writes += on_rising(cd)
        for s, val in writes:
            i = self._i(s)
            val &= (1 << s.nbits) - 1
            if s.signed and val >> (s.nbits - 1):
                val -= 1 << s.nbits
            n[i] = val
        if rising:
            v[:] = n
            self._settle()
        return rising


class MigenSim:
    """Same API on top of migen.sim's Simulator/Evaluator (the stock interpreter does all evaluation)."""
    def __init__(self, dut, clocks={"sys": 10}):
        self.sim = Simulator(dut, [], clocks=clocks)
        self.ev = self.sim.evaluator
        self.frag = self.sim.fragment
        self.clocks = dict(clocks)
        self.ev.execute(self.frag.comb)
        self.sim._commit_and_comb_propagate()
        self.cycles = 0

    def get(self, s):
        return self.ev.eval(s)

    def step(self, writes=()):
        self.tick(lambda cd: writes if cd == "sys" or len(self.clocks) == 1 else [])
        # single-clock designs: one tick is the rising edge, the next the falling edge
        self.tick(lambda cd: [])
        self.cycles += 1

    def poke(self, writes):
        for s, val in writes:
            self.ev.assign(s, val)
        self.sim._commit_and_comb_propagate()

    def tick(self, on_rising):
        sim = self.sim
        dt, rising, falling = sim.time.tick()
        for cd in sorted(rising):
            self.ev.assign(self.frag.clock_domains[cd].clk, 1)
            if cd in self.frag.sync:
                self.ev.execute(self.frag.sync[cd])
        for cd in sorted(rising):
            for s, val in on_rising(cd):
                self.ev.assign(s, val)
        for cd in falling:
            self.ev.assign(self.frag.clock_domains[cd].clk, 0)
        sim._commit_and_comb_propagate()
        return rising
