"""Harness for the DRAM-backed FIFO (C13): a stream producer on the FIFO's sink, a stream consumer on its source, the
FIFO's write and read native ports both served by ONE realistic slave (lib.native.NativeSlave, acceptance ordered).

Everything the oracle uses is observed at the device's boundaries: the two stream endpoints and the two native ports
(through the slave's log, which is in the order in which the slave PERFORMS the accesses).  `ctrl.level` and the mode
FSM's state are read only for the level clause of the statement and for classification."""
import json
from hypothesis import strategies as st
import lib.compat  # noqa
from migen import *
from litedram.common import LiteDRAMNativePort
from lib.fastsim import FastSim, MigenSim, compile_dut, HarnessError
from lib.native import NativeSlave, schedule_iter, native_slave, slave_style

_CACHE = {}


# ---------------------------------------------------------------------------------------------------
# device
class FifoDUT(Module):
    """cfg: kind 'top' (LiteDRAMFIFO) | 'raw' (_LiteDRAMFIFO); dw (stream width), pdw (port width), aw (port address
    width), depth / base in PORT WORDS (converted to bytes for LiteDRAMFIFO, whose parameters are in bytes),
    bypass, pre, post (LiteDRAMFIFO), wfd, rfd (_LiteDRAMFIFO writer/reader fifo depths)."""
    def __init__(self, cfg):
        from litedram.frontend.fifo import LiteDRAMFIFO, _LiteDRAMFIFO
        self.wport = LiteDRAMNativePort("write", cfg["aw"], cfg["pdw"])
        self.rport = LiteDRAMNativePort("read", cfg["aw"], cfg["pdw"])
        wb = cfg["pdw"] // 8
        if cfg["kind"] == "top":
            self.submodules.fifo = LiteDRAMFIFO(data_width=cfg["dw"], base=cfg["base"] * wb, depth=cfg["depth"] * wb,
                                                write_port=self.wport, read_port=self.rport, with_bypass=bool(cfg["bypass"]),
                                                pre_fifo_depth=cfg.get("pre", 16), post_fifo_depth=cfg.get("post", 16))
            self.ctrl = self.fifo.dram_fifo.ctrl
        else:
            assert cfg["dw"] == cfg["pdw"]
            self.submodules.fifo = _LiteDRAMFIFO(data_width=cfg["dw"], base=cfg["base"], depth=cfg["depth"],
                                                 write_port=self.wport, read_port=self.rport,
                                                 writer_fifo_depth=cfg.get("wfd", 16), reader_fifo_depth=cfg.get("rfd", 16))
            self.ctrl = self.fifo.ctrl
        self.sink, self.source = self.fifo.sink, self.fifo.source
        self.has_fsm = cfg["kind"] == "top" and bool(cfg["bypass"])

    def fsm_state(self):
        return self.fifo.fsm.state if self.has_fsm else None


def ratio_of(cfg):
    return cfg["pdw"] // cfg["dw"]


def tag_of(cfg):
    if cfg["kind"] == "raw":
        return "raw"
    return ("bypass" if cfg["bypass"] else "nobypass") + "/r%d" % ratio_of(cfg)


def get_sim(cfg, backend="fast"):
    if backend == "migen":
        dut = FifoDUT(cfg)
        sim = MigenSim(dut, {"sys": 10})      # finalises the design: fsm.state exists afterwards
        return dut, sim
    k = json.dumps(cfg, sort_keys=True)
    ent = _CACHE.get(k)
    if ent is None:
        if len(_CACHE) > 6:
            _CACHE.clear()
        dut = FifoDUT(cfg)
        ent = _CACHE[k] = (dut, compile_dut(dut, {"sys": 10}))
    return ent[0], FastSim(ent[1])


# ---------------------------------------------------------------------------------------------------
# schedules and stream drivers
def seg_schedule(sched):
    """sched = {segs: [[length, on, off], ...], horizon: H}.  The segments are used cyclically: for `length` cycles the
    value repeats `on` ones followed by `off` zeros (on=0 -> all zeros, off=0 -> all ones).  From cycle H on: always 1,
    so that a stream that does not finish afterwards is a hang of the device and not of the testbench."""
    segs = [s for s in (sched.get("segs") or []) if s[0] > 0]
    hor = sched.get("horizon", 0)
    t = 0
    k = 0
    while segs and t < hor:
        ln, on, off = segs[k % len(segs)]
        k += 1
        per = on + off
        for j in range(ln):
            if t >= hor:
                break
            yield 1 if (per == 0 or (j % per) < on) else 0
            t += 1
    while True:
        yield 1


def word(i, seed, dw):
    """data word #i: an odd-multiplier counter mixed with the seed: a bijection of i modulo 2**dw, so all words of a
    stream shorter than 2**dw are distinct (and for dw = 8 any two words less than 256 positions apart)."""
    m = (1 << dw) - 1
    return ((i + 1) * (0x9E3779B97F4A7C15 | 1) + seed * 0x100000001B3 + (seed >> 3)) & m


class StreamProducer:
    """Conforming stream source: a word, once offered (valid=1), stays offered unchanged until it is taken; the schedule
    decides in which cycles a NEW word may start to be offered."""
    def __init__(self, ep, n, seed, dw, sched):
        self.ep, self.n, self.seed, self.dw = ep, n, seed, dw
        self.it = seg_schedule(sched)
        self.i = 0
        self.offered = False
        self.accept_t = []

    def done(self):
        return self.i >= self.n

    def cycle(self, sim, t):
        ep = self.ep
        if self.offered and sim.get(ep.ready):
            self.accept_t.append(t)
            self.i += 1
            self.offered = False
        go = next(self.it)
        w = []
        if not self.offered and self.i < self.n and go:
            self.offered = True
            w.append((ep.valid, 1))
            w.append((ep.data, word(self.i, self.seed, self.dw)))
        if not self.offered:
            w.append((ep.valid, 0))
        return w


class StreamConsumer:
    """Stream sink: ready follows the schedule (it may drop without a transfer, which the stream convention allows);
    a word is taken in a cycle in which the device shows valid and the ready driven at the previous edge is 1."""
    def __init__(self, ep, sched):
        self.ep = ep
        self.it = seg_schedule(sched)
        self.ready = 0
        self.got = []          # (t, data)
        self.new = []

    def cycle(self, sim, t):
        ep = self.ep
        self.new = []
        if self.ready and sim.get(ep.valid):
            e = (t, sim.get(ep.data))
            self.got.append(e)
            self.new.append(e)
        self.ready = next(self.it)
        return [(ep.ready, self.ready)]


# ---------------------------------------------------------------------------------------------------
# run + incremental oracle
class FifoRun:
    pass


def make_slave(dut, sl):
    slave = native_slave([dut.wport, dut.rport], dict(sl, ready=None))
    # per-port command stall schedules (NativeSlave's constructor takes one pattern for all ports)
    slave.ready = [schedule_iter(sl.get("ready_w")), schedule_iter(sl.get("ready_r"))]
    return slave


def cap_of(cfg, stim):
    sl = stim["slave"]
    lat = max((sl.get("wlat") or [3]) + (sl.get("rlat") or [5])) + sum(sl.get("ready_w") or [0]) + sum(sl.get("ready_r") or [0]) + 4
    hor = max(stim["prod"].get("horizon", 0), stim["cons"].get("horizon", 0))
    # after the horizon both sides are permanently willing; every stream word costs at most one cycle on each side of
    # the memory plus, per port word, one write and one read that the slave may fully serialise (qmax = 1)
    return hor + stim["n"] * (3 + 2 * lat) + 40 * lat + 1500


def run_fifo(cfg, stim, backend="fast", clause_prefix="C13", trace=None, max_cycles=None):
    """Simulates one case and evaluates the property's clauses incrementally; stops at the first finding."""
    dut, sim = get_sim(cfg, backend)
    P = clause_prefix
    tag = tag_of(cfg)
    n, seed, dw = stim["n"], stim["seed"], cfg["dw"]
    prod = StreamProducer(dut.sink, n, seed, dw, stim["prod"])
    cons = StreamConsumer(dut.source, stim["cons"])
    slave = make_slave(dut, stim["slave"])
    depth, base = cfg["depth"], cfg["base"]
    level_sig = dut.ctrl.level
    fsm_sig = dut.fsm_state()
    cap = max_cycles or cap_of(cfg, stim)
    quiet_need = 60 + 4 * ratio_of(cfg) + 2 * max((stim["slave"].get("rlat") or [5]) + (stim["slave"].get("wlat") or [3]))
    fs = []
    pump_code = None
    if fsm_sig is not None:
        pump_code = dut.fifo.fsm.encoding.get("PUMP_PRECONVERTER")
    pumped = False
    early_bypass = False
    nonempty_exit = False
    snap_in = snap_out = 0
    dram_in = dram_out = 0      # port words handed to / taken from the DRAM FIFO (handshakes observed at its two streams)
    dram_code = bypass_code = None
    pcs_valid = None
    pcs_prev = 0
    if fsm_sig is not None:
        dram_code = dut.fifo.fsm.encoding.get("DRAM")
        bypass_code = dut.fifo.fsm.encoding.get("BYPASS")
        pcs_valid = dut.fifo.pre_converter.source.valid
    occ = {}                # port address -> cycle of the write that filled it (present = holds an unread word)
    logpos = 0
    wraps_w = wraps_r = 0
    last_wa = last_ra = None
    fsm_changes = 0
    fsm_prev = None
    fsm_seen = set()
    max_level = 0
    max_occ = 0
    read_empty = 0
    nwr = nrd = 0
    quiet = 0
    done = False
    t = 0
    index_of = None
    while t < cap:
        # ---- observe (settled values of cycle t) ----
        lv = sim.get(level_sig)
        if lv > max_level:
            max_level = lv
            if lv > depth:
                fs.append(dict(clause=P + ".level_exceeds_depth", key=tag, what="cycle %d: ctrl.level = %d with a depth of %d words" % (t, lv, depth)))
        if fsm_sig is not None:
            s = sim.get(fsm_sig)
            if s != fsm_prev:
                if fsm_prev is not None:
                    fsm_changes += 1
                if fsm_prev == dram_code and s == bypass_code and pcs_prev:
                    early_bypass = True  # left DRAM mode while a complete DRAM word waited at the pre-converter's output (key suffix only)
                if s == dram_code:
                    dram_in = dram_out = 0
                if fsm_prev == dram_code and snap_in != snap_out:
                    # left DRAM mode while port words were still stored in the DRAM path (counted here from the handshakes, independently of the
                    # design's own counter): NOT the situation of the two listed findings, which are about the partial word at the pre-converter
                    nonempty_exit = True
                fsm_prev = s
                fsm_seen.add(s)
                if s == pump_code:
                    pumped = True       # classification of findings only (key suffix), never a verdict
            pcs_prev = sim.get(pcs_valid)
            dfi_, dfo_ = dut.fifo.dram_fifo.sink, dut.fifo.dram_fifo.source
            snap_in, snap_out = dram_in, dram_out      # = what the design's own counter can know in this cycle (handshakes of earlier cycles)
            if s == dram_code:      # counted in DRAM mode only (the partial-word flush states reuse these streams)
                if sim.get(dfi_.valid) and sim.get(dfi_.ready):
                    dram_in += 1
                if sim.get(dfo_.valid) and sim.get(dfo_.ready):
                    dram_out += 1
        if trace is not None:
            trace.append([sim.get(x) for x in trace_signals(dut)])
        w = slave.cycle(sim, t)
        w += prod.cycle(sim, t)
        w += cons.cycle(sim, t)
        # ---- memory side: the slave's log is in the order in which it performs the accesses ----
        log = slave.log
        while logpos < len(log):
            e = log[logpos]
            logpos += 1
            if e[0] == "C":
                _, tc, pi, we, addr = e
                if not (base <= addr < base + depth):
                    fs.append(dict(clause=P + ".address_range", key=tag, what="cycle %d: %s command to port address 0x%x, outside the FIFO's region [0x%x, 0x%x)" % (
                        tc, "write" if we else "read", addr, base, base + depth)))
                if we:
                    if last_wa is not None and addr < last_wa:
                        wraps_w += 1
                    last_wa = addr
                else:
                    if last_ra is not None and addr < last_ra:
                        wraps_r += 1
                    last_ra = addr
            elif e[0] == "W":
                _, tw, pi, addr, d, be, v = e
                if v:
                    nwr += 1
                    if addr in occ:
                        fs.append(dict(clause=P + ".overwrite_unread", key=tag, what="cycle %d: write performed to port address 0x%x which still holds the word written at cycle %d and not read since (%d of %d locations hold unread words)" % (
                            tw, addr, occ[addr], len(occ), depth)))
                    occ[addr] = tw
                    if len(occ) > max_occ:
                        max_occ = len(occ)
            else:
                _, tr, pi, addr, d = e
                nrd += 1
                if addr in occ:
                    del occ[addr]
                else:
                    read_empty += 1
        if slave.lost:
            e = slave.lost[0]
            fs.append(dict(clause=P + ".lost_beat", key=tag + "/" + e[0], what="cycle %d, port address 0x%x: the FIFO was not %s when the memory's one-cycle strobe arrived" % (
                e[1], e[3], "presenting write data" if e[0].startswith("W") else "ready for read data")))
        # ---- output stream, word by word ----
        for (tg, d) in cons.new:
            k = len(cons.got) - 1
            if k >= n:
                fs.append(dict(clause=P + ".extra_word", key=tag, what="cycle %d: output word #%d = 0x%x after all %d input words had been delivered" % (tg, k, d, n)))
            else:
                exp = word(k, seed, dw)
                if d != exp:
                    if index_of is None:
                        index_of = {}
                        for j in range(n - 1, -1, -1):
                            index_of[word(j, seed, dw)] = j
                    j = index_of.get(d)
                    if j is None:
                        rel = "a value that is not in the input stream"
                    elif n > (1 << dw):
                        rel = "a value that also occurs in the input stream (words repeat every %d positions at this width)" % (1 << dw)
                    elif j < k:
                        rel = "input word #%d again (duplicated / replayed)" % j
                    else:
                        rel = "input word #%d (%d words skipped)" % (j, j - k)
                    fs.append(dict(clause=P + ".stream_data", key=tag, what="cycle %d: output word #%d = 0x%x, input word #%d = 0x%x: the output shows %s" % (tg, k, d, k, exp, rel)))
        if fs:
            # what the mode FSM did before the first failure; these signatures only qualify the key
            for f in fs:
                f["key"] += sig_suffix(early_bypass, pumped, nonempty_exit)
            break
        sim.step(w)
        t += 1
        if prod.done() and len(cons.got) >= n and slave.idle():
            quiet += 1
            if quiet >= quiet_need:
                done = True
                break
        else:
            quiet = 0
    if hasattr(slave, "finish") and not fs:
        slave.finish(t)
        if slave.lost:
            fs.append(dict(clause=P + ".extra_write_beat", key=tag + sig_suffix(early_bypass, pumped, nonempty_exit), what="stream-style port: more write-data beats than write commands were put on the write port"))
    if not fs and not done:
        fs.append(dict(clause=P + ".hang", key=tag + sig_suffix(early_bypass, pumped, nonempty_exit), what="after %d cycles (both sides permanently willing since cycle %d): %d/%d words accepted from the producer, %d/%d delivered to the consumer; level=%d, %d memory locations hold unread words, slave idle=%s%s" % (
            t, max(stim["prod"].get("horizon", 0), stim["cons"].get("horizon", 0)), prod.i, n, len(cons.got), n, sim.get(level_sig), len(occ), slave.idle(),
            (", fsm state %s" % state_name(dut, sim.get(fsm_sig))) if fsm_sig is not None else "")))
    r = FifoRun()
    r.cfg, r.stim, r.dut, r.sim, r.prod, r.cons, r.slave = cfg, stim, dut, sim, prod, cons, slave
    r.cycles, r.completed, r.findings = t, done, fs
    r.wraps_w, r.wraps_r, r.fsm_changes, r.max_level, r.max_occ = wraps_w, wraps_r, fsm_changes, max_level, max_occ
    r.fsm_seen = sorted(state_name(dut, s) for s in fsm_seen)
    r.read_empty, r.nwr, r.nrd, r.left_in_memory = read_empty, nwr, nrd, len(occ)
    r.pumped, r.early_bypass = pumped, early_bypass
    return r


def sig_suffix(early_bypass, pumped, nonempty_exit=False):
    """/early_bypass: the FSM went from DRAM to BYPASS in a cycle after which a complete DRAM word still waited at the
    pre-converter's output; /pump: the FSM entered its partial-word flush (PUMP_PRECONVERTER).
    /nonempty_exit: the FSM left DRAM mode while port words were still stored behind it (own handshake count): a different
    defect from the two listed ones, so their signatures are not attached."""
    if nonempty_exit:
        return "/nonempty_exit"
    return ("/early_bypass" if early_bypass else "") + ("/pump" if pumped else "")


def state_name(dut, s):
    try:
        return dut.fifo.fsm.decoding[s]
    except Exception:
        return str(s)


def trace_signals(dut):
    sigs = [dut.sink.ready, dut.source.valid, dut.source.data, dut.wport.cmd.valid, dut.wport.cmd.addr, dut.wport.wdata.valid, dut.wport.wdata.data,
            dut.rport.cmd.valid, dut.rport.cmd.addr, dut.rport.rdata.ready, dut.ctrl.level, dut.ctrl.write_address, dut.ctrl.read_address]
    if dut.has_fsm:
        sigs.append(dut.fifo.fsm.state)
        sigs.append(dut.fifo.pre_fifo.level)
        sigs.append(dut.fifo.post_fifo.level)
    return sigs


def classify(run):
    cfg = run.cfg
    cl = [tag_of(cfg)]
    if run.wraps_w >= 2:
        cl.append("write_pointer_wrapped>=2")
    if run.wraps_r >= 2:
        cl.append("read_pointer_wrapped>=2")
    if run.max_level >= cfg["depth"]:
        cl.append("level_reached_depth")
    if run.dut.has_fsm:
        if run.fsm_changes >= 2:
            cl.append("mode_changed>=2")
        if run.fsm_changes >= 6:
            cl.append("mode_changed>=6")
        for s in run.fsm_seen:
            cl.append("state_" + s)
    if run.pumped:
        cl.append("partial_word_flush_entered")
    if run.early_bypass:
        cl.append("left_dram_mode_with_word_waiting_at_pre_converter")
    if run.nwr == 0:
        cl.append("memory_never_used")
    if run.stim["n"] % ratio_of(cfg):
        cl.append("length_not_multiple_of_ratio")
    wrapped = run.wraps_w >= 2 and run.wraps_r >= 2
    if run.dut.has_fsm:
        nontrivial = (wrapped and run.fsm_changes >= 2) or run.max_level >= cfg["depth"]
    else:
        nontrivial = wrapped or run.max_level >= cfg["depth"]
    return cl, nontrivial


def diff_selftest(cfg, stim, ncycles=400):
    """the same case on the compiled simulator and on stock migen.sim, every traced signal compared every cycle"""
    ta, tb = [], []
    run_fifo(cfg, stim, "fast", trace=ta, max_cycles=ncycles)
    run_fifo(cfg, stim, "migen", trace=tb, max_cycles=ncycles)
    if ta != tb:
        bad = [i for i in range(min(len(ta), len(tb))) if ta[i] != tb[i]]
        raise HarnessError("fastsim differs from migen.sim on %s at cycle %s" % (cfg, bad[0] if bad else "(length)"))
    return len(ta)


# ---------------------------------------------------------------------------------------------------
# strategies
def capacity_words(cfg):
    """stream words the device can hold between sink and source (memory + DMA reader buffer + pre/post FIFOs + converters)"""
    r = ratio_of(cfg)
    if cfg["kind"] == "raw":
        return cfg["depth"] + cfg.get("rfd", 16) + 2
    return (cfg["depth"] + 16) * r + max(cfg.get("pre", 16), 2 * r) + max(cfg.get("post", 16), 2 * r) + 2 * r


@st.composite
def sched_strategy(draw, cfg, role, horizon):
    """segments that fill (long consumer stalls / producer bursts), drain (consumer bursts / producer pauses) and hover
    around the bypass threshold (stalls of about the post-FIFO depth)"""
    r = ratio_of(cfg)
    capw = capacity_words(cfg)
    post = max(cfg.get("post", 16), 2 * r) if cfg["kind"] == "top" else cfg.get("rfd", 16)
    thr = post + r
    nseg = draw(st.integers(0, 7))
    if role == "cons" and nseg == 0 and draw(st.integers(0, 7)):
        nseg = 1          # a consumer that never stalls keeps a bypass build in bypass mode: keep that class small
    segs = []
    for si in range(nseg):
        kinds = ["stall_long", "stall_thr", "burst", "burst_long", "duty", "duty_slow", "trickle"]
        if role == "cons":
            # consumers stall more often than producers, and they start with a stall (otherwise most bypass builds with
            # ratio > 1 would never leave bypass mode)
            kinds = ["stall_long", "stall_thr", "trickle", "duty_slow"] if si == 0 else kinds + ["stall_long", "stall_thr", "trickle"]
        if role == "prod":
            kinds = kinds + ["gap_sweep"]
        kind = draw(st.sampled_from(kinds))
        if kind == "gap_sweep":
            # short bursts separated by gaps that walk through a range: the arrival time of a word relative to what the device is doing
            # (a mode switch, a pointer wrap) sweeps over every phase
            b = draw(st.integers(1, 3))
            g0 = draw(st.integers(0, 8))
            reps = draw(st.integers(1, 3))
            for g in range(g0, g0 + draw(st.integers(4, 12))):
                segs.append([(b + g) * reps, b, g])
        elif kind == "stall_long":
            segs.append([draw(st.integers(capw // 2, 2 * capw + 40)), 0, 1])
        elif kind == "stall_thr":
            segs.append([draw(st.integers(max(1, thr - 4), thr + 3 * r + 12)), 0, 1])
        elif kind == "burst":
            segs.append([draw(st.integers(1, thr + 8)), 1, 0])
        elif kind == "burst_long":
            segs.append([draw(st.integers(capw // 2, 3 * capw + 40)), 1, 0])
        elif kind == "duty":
            segs.append([draw(st.integers(4, capw + 40)), draw(st.integers(1, 4)), draw(st.integers(1, 6))])
        elif kind == "duty_slow":
            segs.append([draw(st.integers(20, 2 * capw + 60)), 1, draw(st.integers(2, 3 * r + 6))])
        else:
            segs.append([draw(st.integers(10, capw + 40)), draw(st.integers(1, 2 * r)), draw(st.integers(thr, thr + 20))])
    return dict(segs=segs, horizon=horizon if segs else 0)


@st.composite
def slave_strategy(draw):
    pats = [None, None, None, [1, 1], [3, 2], [1, 5], [8, 1, 1, 3], [0, 6, 4, 1], [2, 9], [30, 25]]
    d = dict(ready_w=draw(st.sampled_from(pats)), ready_r=draw(st.sampled_from(pats)),
             wlat=draw(st.lists(st.integers(3, 14), min_size=1, max_size=4)),
             rlat=draw(st.lists(st.integers(5, 24), min_size=1, max_size=4)),
             qmax=draw(st.integers(1, 12)))
    d.update(slave_style(draw, st))      # the FIFO's ports may be clock-domain-crossing / converted ports of the crossbar
    return d


@st.composite
def stim_strategy(draw, cfg, nmax):
    r = ratio_of(cfg)
    dw_words = cfg["depth"] * r                       # the depth in stream words
    lo = 3 * dw_words
    hi = max(lo, min(20 * dw_words, nmax))
    n = draw(st.integers(lo, hi))
    if r > 1 and draw(st.integers(0, 2)):
        n -= n % r                                    # two thirds of the streams are whole port words
    hmul = draw(st.sampled_from([1, 2, 3, 5]))
    horizon = n * hmul
    if cfg.get("bypass") and draw(st.integers(0, 3)) == 0:
        # "switches between bypass and DRAM mode" at every phase of the producer: one consumer stall pushes the device into DRAM mode, then the
        # consumer keeps up so that the DRAM path runs dry again and again while words keep arriving in short bursts with sweeping gaps
        capw = capacity_words(cfg)
        b = draw(st.integers(1, 3))
        g0 = draw(st.integers(0, 6))
        psegs = [[(b + g) * draw(st.integers(1, 3)), b, g] for g in range(g0, g0 + draw(st.integers(6, 14)))]
        csegs = [[draw(st.integers(capw // 4, capw)), 0, 1], [draw(st.integers(200, 600)), 1, 0]]
        return dict(n=n, seed=draw(st.integers(0, (1 << 32) - 1)), prod=dict(segs=psegs, horizon=horizon), cons=dict(segs=csegs, horizon=horizon),
                    slave=draw(slave_strategy()))
    return dict(n=n, seed=draw(st.integers(0, (1 << 32) - 1)),
                prod=draw(sched_strategy(cfg, "prod", horizon)), cons=draw(sched_strategy(cfg, "cons", horizon)),
                slave=draw(slave_strategy()))
