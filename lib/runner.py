"""Shared runner: sharding over processes, Hypothesis driving, known findings, evidence, replay files, exit codes."""
import os, sys, json, time, hashlib, re, traceback, collections, multiprocessing

ROOT = os.path.dirname(os.path.dirname(os.path.abspath(__file__)))
EVID = os.environ.get("VERIF_EVIDENCE_DIR") or os.path.join(ROOT, "evidence")      # overridden only by the mutant self-test
REPL = os.environ.get("VERIF_REPLAY_DIR") or os.path.join(ROOT, "replays")
KNOWN = os.path.join(ROOT, "known_findings.json")


def seed_base():
    try:
        return int(os.environ.get("VERIF_SEED", "1"))
    except ValueError:
        return 1


def nworkers():
    try:
        n = int(os.environ.get("VERIF_JOBS", "0"))
    except ValueError:
        n = 0
    return n or min(16, os.cpu_count() or 1)


def digest(obj):
    return hashlib.sha1(json.dumps(obj, sort_keys=True, default=str).encode()).hexdigest()[:16]


class Violation(Exception):
    def __init__(self, findings):
        Exception.__init__(self, "violation")
        self.findings = findings


class Collector:
    """per-shard accumulation"""
    def __init__(self, prop_id, max_samples=3):
        self.prop_id = prop_id
        self.evals = 0
        self.nontrivial = set()
        self.classes = collections.Counter()
        self.samples = []
        self.max_samples = max_samples
        self.known_hits = collections.Counter()
        self.known = load_known(prop_id)
        self.stats = {}
        self.diff_cycles = 0

    def case(self, case_obj, classes=(), nontrivial=False, sample=None):
        self.evals += 1
        for c in classes:
            self.classes[c] += 1
        if nontrivial:
            self.nontrivial.add(digest(case_obj))
            if len(self.samples) < self.max_samples:
                self.samples.append(sample if sample is not None else case_obj)

    def filter(self, findings):
        """split into (unknown, known); known ones are counted"""
        unknown = []
        for f in findings:
            k = match_known(self.known, f)
            if k is None:
                unknown.append(f)
            else:
                self.known_hits[k] += 1
        return unknown

    def stat_max(self, name, v):
        if v is None:
            return
        if name not in self.stats or v > self.stats[name]:
            self.stats[name] = v

    def stat_min(self, name, v):
        if v is None:
            return
        if name not in self.stats or v < self.stats[name]:
            self.stats[name] = v

    def result(self, violation=None):
        return dict(evals=self.evals, nontrivial=sorted(self.nontrivial), classes=dict(self.classes), samples=self.samples,
                    known_hits=dict(self.known_hits), stats=self.stats, diff_cycles=self.diff_cycles, violation=violation)


def load_known(prop_id):
    if not os.path.exists(KNOWN):
        return []
    with open(KNOWN) as f:
        data = json.load(f)
    return [e for e in data.get("findings", []) if e.get("property") == prop_id and e.get("status") == "known"]


def match_known(known, f):
    for e in known:
        if e.get("clause") != f.get("clause"):
            continue
        pat = e.get("key_regex")
        if pat is not None and not re.search(pat, str(f.get("key", ""))):
            continue
        return e["id"]
    return None


def hyp_search(test_fn, strategy, seed, max_examples, shrink=True, stateful_kw=None):
    """Run test_fn(case) over generated cases; test_fn returns a list of (unknown) findings, empty = pass.
    Returns None or (minimal_case, findings)."""
    import hypothesis
    from hypothesis import given, settings, HealthCheck, Phase
    last = [None]
    phases = [Phase.generate, Phase.target] + ([Phase.shrink] if shrink else [])

    @hypothesis.seed(seed)
    @settings(max_examples=max_examples, database=None, deadline=None, report_multiple_bugs=False, derandomize=False,
              phases=phases, suppress_health_check=[HealthCheck.too_slow, HealthCheck.data_too_large, HealthCheck.large_base_example],
              print_blob=False)
    @given(strategy)
    def t(case):
        fs = test_fn(case)
        if fs:
            last[0] = (case, fs)
            raise Violation(fs)

    try:
        t()
    except Violation:
        return last[0]
    return None


def _run_shard(args):
    mod_name, shard = args
    if os.environ.get("VERIF_STUCK_TRACE"):      # debugging aid: dump the Python stack of a shard every N seconds
        import faulthandler
        faulthandler.dump_traceback_later(int(os.environ["VERIF_STUCK_TRACE"]), repeat=True, file=open("/tmp/verif_stuck_%d.txt" % os.getpid(), "w"))
    try:
        import importlib
        mod = importlib.import_module(mod_name)
        return mod.run_shard(shard)
    except Exception:
        return dict(error=traceback.format_exc())


def run_property(mod, tier, replay=None):
    """mod: props.cXX module.  Returns exit code."""
    pid = mod.ID
    t0 = time.time()
    seed = seed_base()
    if replay:
        with open(replay) as f:
            obj = json.load(f)
        fs = mod.replay(obj["case"])
        if fs:
            print("replay reproduces: %s" % json.dumps(fs[0], default=str)[:600])
            print("VIOLATION property=%s replay=%s" % (pid, replay))
            return 1
        print("replay does not reproduce on this tree")
        return 0
    shards = mod.shards(tier, seed)
    nw = min(nworkers(), max(1, len(shards)))
    results = []
    if nw == 1:
        results = [_run_shard((mod.__name__, s)) for s in shards]
    else:
        ctx = multiprocessing.get_context("fork")
        with ctx.Pool(nw, maxtasksperchild=1) as pool:
            for r in pool.imap_unordered(_run_shard, [(mod.__name__, s) for s in shards], chunksize=1):
                results.append(r)
                if r.get("violation") and not os.environ.get("VERIF_ALL_SHARDS"):
                    # one confirmed violation decides the run: do not wait for the other shards (each of them may be busy confirming its
                    # own finding on the slow stock simulator); VERIF_ALL_SHARDS=1 collects every shard's finding instead
                    pool.terminate()
                    break
    errs = [r["error"] for r in results if "error" in r]
    if errs:
        sys.stderr.write("HARNESS ERROR in %s:\n%s\n" % (pid, errs[0]))
        return 2
    evals = sum(r["evals"] for r in results)
    nontriv = set()
    classes = collections.Counter()
    samples = []
    known_hits = collections.Counter()
    stats = {}
    diff_cycles = 0
    violations = []
    for r in results:
        nontriv.update(r["nontrivial"])
        classes.update(r["classes"])
        for s in r["samples"]:
            if len(samples) < 6:
                samples.append(s)
        known_hits.update(r["known_hits"])
        diff_cycles += r.get("diff_cycles", 0)
        for k, v in r["stats"].items():
            if k.startswith("min_"):
                stats[k] = v if k not in stats else min(stats[k], v)
            elif k.startswith("max_"):
                stats[k] = v if k not in stats else max(stats[k], v)
            elif isinstance(v, (int, float)):
                stats[k] = stats.get(k, 0) + v
            else:
                stats.setdefault(k, v)
        if r.get("violation"):
            violations.append(r["violation"])
    known_all = {e["id"]: e for e in load_known(pid)}
    for kid, n in sorted(known_hits.items()):
        print("KNOWN-FINDING: property=%s %s (%s; hit %d times in this run)" % (pid, known_all[kid]["what"], kid, n))
    rc = 0
    vio_paths = []
    # distinct violations by clause
    seen = set()
    for v in violations:
        clause = v["findings"][0].get("clause")
        if clause in seen:
            continue
        seen.add(clause)
        os.makedirs(REPL, exist_ok=True)
        path = os.path.join(os.path.relpath(REPL, ROOT) if REPL.startswith(ROOT) else REPL, "%s-%s.json" % (pid, digest(v["case"])))
        with open(os.path.join(ROOT, path), "w") as f:
            json.dump(dict(property=pid, clause=clause, findings=v["findings"][:5], case=v["case"], confirmed_on=v.get("confirmed_on")), f, indent=1, default=str)
        print("  finding: %s" % json.dumps(v["findings"][0], default=str)[:800])
        print("VIOLATION property=%s replay=%s" % (pid, path))
        vio_paths.append(path)
        rc = 1
    wall = time.time() - t0
    cov = dict(evaluations=evals, distinct_nontrivial=len(nontriv), rule=mod.RULE, samples=samples or ["(no non-trivial sample)"],
               classes=dict(classes), known_finding_hits=dict(known_hits), differentially_confirmed_cycles=diff_cycles,
               shards=len(shards), workers=nw)
    cov.update(stats)
    if getattr(mod, "EXHAUSTIVE", False):
        cov["exhaustive"] = bool(mod.EXHAUSTIVE(tier) if callable(mod.EXHAUSTIVE) else mod.EXHAUSTIVE)
    ev = dict(property_id=pid, tier=tier, seed=seed, level=mod.LEVEL, coverage=cov, assumptions=list(mod.ASSUMPTIONS),
              wall_s=round(wall, 2), violations=len(vio_paths))
    os.makedirs(EVID, exist_ok=True)
    with open(os.path.join(EVID, pid + ".json"), "w") as f:
        json.dump(ev, f, indent=1, default=str)
    print("%s %s: %d cases, %d distinct non-trivial, %d known-finding hits, %d violations, %.1fs" % (pid, tier, evals, len(nontriv), sum(known_hits.values()), len(vio_paths), wall))
    missing = [c for c in getattr(mod, "REQUIRED_CLASSES", []) if not classes.get(c)]
    if rc == 0 and missing:
        sys.stderr.write("HARNESS ERROR: %s generated no case of class(es) %s - the generator no longer reaches what the check is for\n" % (pid, missing))
        return 2
    if rc == 0 and (evals < 1 or len(nontriv) < 2):
        sys.stderr.write("HARNESS ERROR: %s explored too little (evals=%d nontrivial=%d)\n" % (pid, evals, len(nontriv)))
        return 2
    return rc
