"""Environment shim (harness process only, not a repository change).

/venv has Python 3.12 + LiteX 2024.12.  Migen's bytecode tracer cannot extract CSR names on 3.12 and
this LiteX has no CSR.wr_stb/rd_stb.  Names only affect CSR naming, never behaviour; wr_stb/rd_stb are
aliases of the write/read strobes of this LiteX (re / we)."""
import inspect, re, linecache
import migen.fhdl.tracer as tracer

_pat = re.compile(r"^\s*(?:self\.)?(?:submodules\.)?([A-Za-z_][A-Za-z0-9_]*)\s*(?:=|:)")
_cnt = [0]

def get_obj_var_name(override=None, default=None):
    if override:
        return override
    frame = inspect.currentframe().f_back
    ourclass = frame.f_locals["self"].__class__
    while "self" in frame.f_locals and isinstance(frame.f_locals["self"], ourclass):
        frame = frame.f_back
    try:
        vn = tracer.get_var_name(frame)
    except Exception:
        vn = None
    if vn is None:
        line = linecache.getline(frame.f_code.co_filename, frame.f_lineno)
        m = _pat.match(line)
        vn = m.group(1) if m else None
    if vn is None:
        if default is not None:
            vn = default
        else:
            _cnt[0] += 1
            vn = "csr%d" % _cnt[0]
    else:
        vn = tracer.remove_underscore(vn)
    return vn

def install():
    tracer.get_obj_var_name = get_obj_var_name
    import litex.soc.interconnect.csr as csr
    csr.get_obj_var_name = get_obj_var_name
    if not hasattr(csr.CSR, "wr_stb"):
        csr.CSR.wr_stb = property(lambda self: self.re)
        csr.CSR.rd_stb = property(lambda self: self.we)
    if not hasattr(csr.CSRStorage, "wr_stb"):
        csr.CSRStorage.wr_stb = property(lambda self: self.re)
    if not hasattr(csr.CSRStatus, "rd_stb"):
        csr.CSRStatus.rd_stb = property(lambda self: self.we)

install()


def _silence_compat_notice():
    # Hypothesis walks sys.modules and getattr()s on them; LiteX's lazy "stream_sim" compat module answers any getattr
    # with a 2 s nag.  Mark it as already shown (output only, no behaviour).
    import sys
    import litex.soc.interconnect  # noqa
    m = sys.modules.get("litex.soc.interconnect.stream_sim")
    if m is not None and hasattr(type(m), "noticed"):
        try:
            type(m).noticed = True
        except Exception:
            pass

_silence_compat_notice()
