"""C20 machinery: devices under test (LPDDR4/LPDDR5 command paths), DFI stimulus expansion, run loop, expected command list.

A case is a plain JSON-able dict
    dev   : key of DEVICES
    idle  : 0 = idle phases deselected (cs_n=1, NOP pins, zero address), 1 = cs_n=0 with NOP pins and junk address/bank,
            2 = cs_n=1 with junk command pins and junk address/bank
    mw    : cyclic per-controller-cycle pattern of the dynamic `masked_write` input (devices with masked == "dyn"),
            for the LPDDR5 adapter the same list drives `wck_sync_done`
    junk  : cyclic list of integers used for the junk of idle phases
    den   : LPDDR5 PHY only: drive rddata_en / wrdata_en with read / write commands like the controller does
    cmds  : [[gap, kind, operand], ...]; a command sits `gap` (>= 1) slots after the previous one (first: slot gap-1),
            slot = DFI phase position (cycle * nphases + phase); operand = address | bank << 18
DFI encoding of the kinds (cs_n = 0; the standard SDRAM pin code the litedram multiplexer / refresher / init sequence use):
    ACT ras | RD cas | WR cas+we | PRE ras+we | REF cas+ras | MRW cas+ras+we (bank = MA, address[7:0] = OP)
    ZQC we: bank 0 = MPC (address = OP), bank 1 = MRR (address = MA), bank 2 = LPDDR5 NOP, other banks = no command (ZQX)
    NOPCS = cs_n low with NOP pins (what the controller drives on idle phases) = no command
"""
import lib.compat  # noqa
from migen import *
from lib.fastsim import FastSim, MigenSim, compile_dut, HarnessError
from lib import jedec_ca

DEVICES = {
    # LPDDR4: 8 x DFIPhaseAdapter + CommandsPipeline wired exactly like basephy.py does
    "l4pipe_basic":   dict(fam="l4", kind="pipe", ext=False, masked="dyn"),
    "l4pipe_ext":     dict(fam="l4", kind="pipe", ext=True, masked="dyn"),
    # LPDDR4PHY core (out.cs / out.ca), both write flavours, both overlap checks
    "l4phy_mw":       dict(fam="l4", kind="phy", ext=False, masked=True),
    "l4phy_wr_ext":   dict(fam="l4", kind="phy", ext=True, masked=False),
    # DoubleRateLPDDR4PHY (sys + sys2x), out.cs / out.ca sampled on every sys2x edge
    "l4dr_mw":        dict(fam="l4", kind="dr", ext=False, masked=True),
    # simulation PHYs down to the serial CS / CA[5:0] pads (sys8x serialisers; the double-rate one goes sys -> sys2x -> sys8x)
    "l4simphy_pads":   dict(fam="l4", kind="simphy", ext=False, masked=True),
    "l4drsimphy_pads": dict(fam="l4", kind="drsimphy", ext=False, masked=True),
    # LPDDR5: the bare adapter (4 CA edges per DFI command) and the LPDDR5PHY core command path
    "l5adapter":      dict(fam="l5", kind="adapter", masked="dyn"),
    "l5phy_mw":       dict(fam="l5", kind="phy", masked=True),
    "l5phy_wr":       dict(fam="l5", kind="phy", masked=False),
}

# latency in command-bus slots between a DFI command's slot and the first CS sample of its sequence:
# LPDDR4PHY: "ca_latency = 1" controller cycle (ConstBitSlip registers) = 8 slots; the double-rate wrapper adds
# Serializer.LATENCY = 1 more controller cycle; LPDDR5PHY drives the first command word combinationally.
# LPDDR4SimPHY: ca_latency + Serializer.LATENCY (1 sys) = 16 slots; DoubleRateLPDDR4SimPHY: + Latency(sys2x=Serializer.LATENCY) = 4 more.
LATENCY = {("l4", "pipe"): 8, ("l4", "phy"): 8, ("l4", "dr"): 16, ("l4", "simphy"): 16, ("l4", "drsimphy"): 20,
           ("l5", "adapter"): 0, ("l5", "phy"): 0}
NPHASES = {"l4": 8, "l5": 1}
SPAN = {("l4", "pipe"): 4, ("l4", "phy"): 4, ("l4", "dr"): 4, ("l4", "simphy"): 4, ("l4", "drsimphy"): 4, ("l5", "phy"): 2, ("l5", "adapter"): 1}
# the DQ/DQS serialiser domains (sys8x_ddr, sys8x_90, sys8x_90_ddr) do not feed CS/CA; they are clocked like sys8x to save simulation ticks
_PAD_CLOCKS = {"sys": (64, 31), "sys8x": (8, 3), "sys8x_ddr": (8, 3), "sys8x_90": (8, 3), "sys8x_90_ddr": (8, 3)}
ADDRBITS = {"l4": 17, "l5": 18}
BANKBITS = {"l4": 6, "l5": 7}
L4_TRAINING_MPC = (0b1000001, 0b1000011, 0b1000111)   # need a CAS-2 the DFI encoding cannot express: separate sub-check

PINS = {  # kind -> (ras_n, cas_n, we_n)
    "ACT": (0, 1, 1), "RD": (1, 0, 1), "WR": (1, 0, 0), "PRE": (0, 1, 0), "REF": (0, 0, 1), "MRW": (0, 0, 0),
    "MPC": (1, 1, 0), "MRR": (1, 1, 0), "ZQX": (1, 1, 0), "L5NOP": (1, 1, 0), "NOPCS": (1, 1, 1),
}
KINDS = {"l4": ["ACT", "RD", "WR", "PRE", "REF", "MRW", "MRR", "MPC", "ZQX", "NOPCS"],
         "l5": ["ACT", "RD", "WR", "PRE", "REF", "MRW", "MRR", "MPC", "L5NOP", "ZQX", "NOPCS"]}


class _Pads:
    def __init__(self, n=16):
        self.dq = Signal(n)


class L4Pipe(Module):
    """the command part of LPDDR4PHY.__init__ on its own (adapters + CommandsPipeline), masked_write as a run-time input"""
    def __init__(self, ext):
        from litedram.phy.dfi import Interface
        from litedram.phy.lpddr4.commands import DFIPhaseAdapter
        from litedram.phy.utils import CommandsPipeline
        self.dfi = Interface(17, 6, 1, 32, nphases=8)
        self.masked_write = Signal()
        adapters = [DFIPhaseAdapter(p, masked_write=self.masked_write) for p in self.dfi.phases]
        self.submodules += adapters
        self.adapters = adapters
        self.submodules.commands = CommandsPipeline(adapters, cs_ser_width=8, ca_ser_width=8, ca_nbits=6,
                                                    cmd_nphases_span=4, extended_overlaps_check=ext)
        self.cs = self.commands.cs
        self.ca = self.commands.ca


class L5Adapter(Module):
    def __init__(self):
        from litedram.phy.dfi import Interface
        from litedram.phy.lpddr5.commands import DFIPhaseAdapter
        self.dfi = Interface(18, 7, 1, 32, nphases=1)
        self.masked_write = Signal()
        self.submodules.adapter = DFIPhaseAdapter(self.dfi.p0, masked_write=self.masked_write)


def build(dev):
    """fresh device: returns (dut, clocks, io) ; io = dict of signal handles"""
    spec = DEVICES[dev]
    fam, kind = spec["fam"], spec["kind"]
    from litedram.phy.utils import Latency
    if fam == "l4":
        if kind == "pipe":
            dut = L4Pipe(spec["ext"])
            io = dict(phases=dut.dfi.phases, cs=dut.cs, ca=dut.ca, mw=dut.masked_write, width=8)
            return dut, {"sys": 10}, io
        if kind == "phy":
            from litedram.phy.lpddr4.basephy import LPDDR4PHY
            dut = LPDDR4PHY(_Pads(), sys_clk_freq=50e6, ser_latency=Latency(sys=1), des_latency=Latency(sys=2), phytype="C20",
                            masked_write=spec["masked"], extended_overlaps_check=spec["ext"])
            io = dict(phases=dut.dfi.phases, cs=dut.out.cs, ca=dut.out.ca, mw=None, width=8)
            return dut, {"sys": 10}, io
        if kind == "dr":
            from litedram.phy.lpddr4.basephy import DoubleRateLPDDR4PHY
            # clocks as upstream's own LPDDR4 tests define them (all domains rise together at tick 1), serializer counter
            # reset value as upstream's double-rate test uses it
            dut = DoubleRateLPDDR4PHY(_Pads(), sys_clk_freq=50e6, ser_latency=Latency(sys2x=1), des_latency=Latency(sys2x=2),
                                      phytype="C20", masked_write=spec["masked"], extended_overlaps_check=spec["ext"],
                                      serdes_reset_cnt=-1)
            io = dict(phases=dut.dfi.phases, cs=dut.out.cs, ca=dut.out.ca, mw=None, width=4)
            return dut, {"sys": (64, 31), "sys2x": (32, 15)}, io
        if kind in ("simphy", "drsimphy"):
            from litedram.phy.lpddr4.simphy import LPDDR4SimPHY, DoubleRateLPDDR4SimPHY
            clocks = dict(_PAD_CLOCKS)
            if kind == "simphy":
                dut = LPDDR4SimPHY(sys_clk_freq=50e6, masked_write=spec["masked"], extended_overlaps_check=spec["ext"])
            else:
                dut = DoubleRateLPDDR4SimPHY(sys_clk_freq=50e6, masked_write=spec["masked"], extended_overlaps_check=spec["ext"], serdes_reset_cnt=-1)
                clocks["sys2x"] = (32, 15)
            io = dict(phases=dut.dfi.phases, cs=dut.pads.cs, ca=[dut.pads.ca], mw=None, width=1, serial=True)
            return dut, clocks, io
    else:
        if kind == "adapter":
            dut = L5Adapter()
            a = dut.adapter
            io = dict(phases=dut.dfi.phases, mw=dut.masked_write, acs=a.cs, aca=a.ca, valid=a.valid, wsd=a.wck_sync_done, ws=a.wck_sync)
            return dut, {"sys": 10}, io
        if kind == "phy":
            from litedram.phy.lpddr5.basephy import LPDDR5PHY
            dut = LPDDR5PHY(_Pads(), ck_freq=100e6, ser_latency=Latency(sys=1), des_latency=Latency(sys=2), phytype="C20",
                            masked_write=spec["masked"])
            io = dict(phases=dut.dfi.phases, cs=dut.out.cs, ca=dut.out.ca, mw=None)
            return dut, {"sys": 10}, io
    raise ValueError(dev)


_COMPILED = {}


def get_sim(dev, backend):
    if backend == "migen":
        dut, clocks, io = build(dev)
        return MigenSim(dut, clocks), io
    ent = _COMPILED.get(dev)
    if ent is None:
        dut, clocks, io = build(dev)
        ent = _COMPILED[dev] = (compile_dut(dut, clocks), io)
    return FastSim(ent[0]), ent[1]


# ------------------------------------------------------------------------------------------------ stimulus
def positions(case):
    s = -1
    out = []
    for gap, kind, operand in case["cmds"]:
        s += max(1, gap)
        out.append(s)
    return out


def dfi_fields(fam, kind, operand):
    """(cs_n, ras_n, cas_n, we_n, address, bank) the testbench drives for one command"""
    ab, bb = ADDRBITS[fam], BANKBITS[fam]
    addr = operand & ((1 << ab) - 1)
    bank = (operand >> 18) & ((1 << bb) - 1)
    if kind == "MPC":
        bank = 0
        if fam == "l4" and (addr & 0x7f) in L4_TRAINING_MPC:
            addr |= 0x0e      # -> ZQCal Start; the three training op codes are enumerated by the dedicated shard
    elif kind == "MPC_RAW":
        bank = 0
        kind = "MPC"
    elif kind == "MRR":
        bank = 1
    elif kind == "L5NOP":
        bank = 2
    elif kind == "ZQX":
        lo = 2 if fam == "l4" else 3
        bank = lo + bank % ((1 << bb) - lo)
    ras_n, cas_n, we_n = PINS[kind]
    return (0, ras_n, cas_n, we_n, addr, bank)


def interpret(fam, kind, operand, masked):
    """What the DFI command means (from the encoding documented in the module docstring and the commands.py docstrings):
    None = no DRAM command; else dict(op=..., operands..., words=1|2)."""
    cs_n, ras_n, cas_n, we_n, addr, bank = dfi_fields(fam, kind, operand)
    if kind == "MPC_RAW":
        kind = "MPC"
    ap = (addr >> 10) & 1
    if kind in ("ZQX", "NOPCS"):
        return None
    if fam == "l4":
        b3 = bank & 7
        if kind == "ACT":
            return dict(op="ACT", bank=b3, row=addr & 0x1ffff, words=2)
        if kind in ("RD", "WR"):
            op = "RD" if kind == "RD" else ("MWR" if masked else "WR")
            return dict(op=op, bank=b3, col=addr & 0x3fc, ap=ap, bl=0, words=2)
        if kind in ("PRE", "REF"):
            return dict(op=kind, ab=ap, bank=b3, words=1)
        if kind == "MRW":
            return dict(op="MRW", ma=bank & 0x3f, mr_op=addr & 0xff, words=2)
        if kind == "MRR":
            return dict(op="MRR", ma=addr & 0x3f, words=2)
        if kind == "MPC":
            return dict(op="MPC", mpc_op=addr & 0x7f, words=1)
    else:
        b4 = bank & 15
        if kind == "ACT":
            return dict(op="ACT", bank=b4, row=addr & 0x3ffff, words=2)
        if kind in ("RD", "WR"):
            op = "RD16" if kind == "RD" else ("MWR" if masked else "WR16")
            # DFI column = linear column address {C5..C0, B3..B0}: the 4 burst-address bits are not transmitted
            return dict(op=op, bank=b4, col=(addr >> 4) & 0x3f, ap=ap, words=2, cas="RD" if kind == "RD" else "WR")
        if kind == "PRE":
            return dict(op="PRE", bank=b4, ab=ap, words=1)
        if kind == "REF":
            return dict(op="REF", bank=bank & 7, ab=ap, rfm=0, words=1)
        if kind == "MRW":
            return dict(op="MRW", ma=bank & 0x7f, mr_op=addr & 0xff, words=2)
        if kind == "MRR":
            return dict(op="MRR", ma=addr & 0x7f, words=2, cas="RD")
        if kind == "MPC":
            # DFI address 0 is the refresher's ZQCS (address 0, bank 0): commands.py maps it to MPC ZQCal Latch (ASSUMPTIONS)
            return dict(op="MPC", mpc_op=(addr & 0xff) if addr else 0x86, words=1)
        if kind == "L5NOP":
            return dict(op="NOP", words=1)
    raise ValueError((fam, kind))


def masked_at(spec, case, cycle):
    if spec["masked"] == "dyn":
        mw = case.get("mw") or [1]
        return mw[cycle % len(mw)] & 1
    return 1 if spec["masked"] else 0


def expected(case):
    """-> (events, info): events = expected decoded command list (sorted by t), info = per command bookkeeping"""
    spec = DEVICES[case["dev"]]
    fam, kind = spec["fam"], spec["kind"]
    nph = NPHASES[fam]
    span = SPAN[(fam, kind)]
    lat = LATENCY[(fam, kind)]
    ext = True if fam == "l5" else spec["ext"]
    pos = positions(case)
    meaning = []
    for (gap, k, operand), s in zip(case["cmds"], pos):
        meaning.append(interpret(fam, k, operand, masked_at(spec, case, s // nph)))
    n = len(pos)
    sent = [False] * n
    chain = [False] * n       # basic check: suppressed although every earlier command in its window was itself suppressed
    for i in range(n):
        if meaning[i] is None:
            continue
        blockers_valid = [j for j in range(max(0, i - span), i) if meaning[j] is not None and pos[i] - pos[j] < span]
        blockers_sent = [j for j in blockers_valid if sent[j]]
        if ext:
            sent[i] = not blockers_sent
        else:
            sent[i] = not blockers_valid
            chain[i] = bool(blockers_valid) and not blockers_sent
    events = []
    for i in range(n):
        if not sent[i]:
            continue
        m = meaning[i]
        s = pos[i]
        if fam == "l4":
            e = {k: v for k, v in m.items() if k != "words"}
            e["t"] = lat + s + (0 if m["words"] == 2 else 2)
            e["i"] = i
            events.append(e)
        else:
            t0 = lat + (2 * s if kind == "adapter" else s)
            e = {k: v for k, v in m.items() if k not in ("words", "cas")}
            e["i"] = i
            if m["op"] in ("ACT", "MRW"):
                e["t"] = t0
                if m["op"] == "ACT":
                    e["t2"] = t0 + 1
                events.append(e)
            else:
                e["t"] = t0 + 1
                if m.get("cas"):
                    ws = [m["cas"], "NONE"]
                    if kind == "adapter":
                        cyc = s
                        mw = case.get("mw") or [1]
                        done = (mw[cyc % len(mw)] >> 1) & 1
                        ws = ["NONE"] if done else [m["cas"]]
                    events.append(dict(op="CAS", t=t0, ws=ws, dc=0, wrx=0, wxsa=0, wxsb=0, i=i))
                events.append(e)
    events.sort(key=lambda e: e["t"])
    return events, dict(pos=pos, meaning=meaning, sent=sent, chain=chain)


# ------------------------------------------------------------------------------------------------ run
def _junk(case, slot):
    j = case.get("junk") or [0]
    return j[slot % len(j)]


def phase_pins(case, fam, cmdmap, slot):
    c = cmdmap.get(slot)
    if c is not None:
        return dfi_fields(fam, c[1], c[2])
    idle = case.get("idle", 0)
    if idle == 0:
        return (1, 1, 1, 1, 0, 0)
    j = _junk(case, slot) ^ (slot * 0x9E3779B1 & 0x1ffffff)
    addr = j & ((1 << ADDRBITS[fam]) - 1)
    bank = (j >> 18) & ((1 << BANKBITS[fam]) - 1)
    if idle == 1:
        return (0, 1, 1, 1, addr, bank)
    return (1, (j >> 3) & 1, (j >> 7) & 1, (j >> 11) & 1, addr, bank)


def run_case(case, backend="fast", trace=None):
    """-> dict(samples=[...], extra=...) ; samples are the command-bus samples in slot order"""
    dev = case["dev"]
    spec = DEVICES[dev]
    fam, kind = spec["fam"], spec["kind"]
    nph = NPHASES[fam]
    sim, io = get_sim(dev, backend)
    pos = positions(case)
    cmdmap = {}
    for c, s in zip(case["cmds"], pos):
        cmdmap[s] = c
    last = pos[-1] if pos else 0
    if fam == "l4":
        ncycles = last // 8 + 1 + LATENCY[(fam, kind)] // 8 + 2      # room for a 4-slot sequence started in phase 7
    else:
        ncycles = last + 1 + 2
    phases = io["phases"]
    samples = []
    extra = []

    def writes_for(cyc):
        w = []
        for p in range(nph):
            slot = cyc * nph + p
            cs_n, ras_n, cas_n, we_n, addr, bank = phase_pins(case, fam, cmdmap, slot)
            ph = phases[p]
            w += [(ph.cs_n, cs_n), (ph.ras_n, ras_n), (ph.cas_n, cas_n), (ph.we_n, we_n), (ph.address, addr), (ph.bank, bank)]
            if fam == "l5" and kind == "phy":
                c = cmdmap.get(slot)
                rd = wr = 0
                if c is not None and case.get("den"):
                    rd = 1 if c[1] == "RD" else 0
                    wr = 1 if c[1] == "WR" else 0
                w += [(ph.rddata_en, rd), (ph.wrdata_en, wr)]
        if io.get("mw") is not None:
            mw = case.get("mw") or [1]
            w.append((io["mw"], mw[cyc % len(mw)] & 1))
        if io.get("wsd") is not None:
            mw = case.get("mw") or [1]
            w.append((io["wsd"], (mw[cyc % len(mw)] >> 1) & 1))
        return w

    def sample_l4(width):
        if io.get("serial"):
            smp = (sim.get(io["cs"]) & 1, sim.get(io["ca"][0]))
            samples.append(smp)
            if trace is not None:
                trace.append(smp)
            return
        cs = sim.get(io["cs"])
        ca = [sim.get(s) for s in io["ca"]]
        for k in range(width):
            samples.append(((cs >> k) & 1, sum(((ca[b] >> k) & 1) << b for b in range(6))))
        if trace is not None:
            trace.append((cs, tuple(ca)))

    if kind in ("dr", "simphy", "drsimphy"):
        cyc = [-1]
        sclk = "sys2x" if kind == "dr" else "sys8x"

        def on_rising(cd):
            if cd == "sys":
                cyc[0] += 1
                return writes_for(cyc[0])
            return []
        guard = 0
        while True:
            rising = sim.tick(on_rising)
            if cyc[0] >= ncycles:
                break
            if sclk in rising and cyc[0] >= 0:
                sample_l4(io["width"])
            guard += 1
            if guard > 140 * (ncycles + 4):
                raise HarnessError("clocking loop did not terminate")
    else:
        for c in range(ncycles):
            sim.step(writes_for(c))
            if fam == "l4":
                sample_l4(8)
            elif kind == "adapter":
                cs = sim.get(io["acs"])
                ca = [sim.get(s) for s in io["aca"]]
                samples.append((cs & 1, ca[0], ca[1]))
                samples.append(((cs >> 1) & 1, ca[2], ca[3]))
                ex = (sim.get(io["valid"]), sim.get(io["ws"]))
                extra.append(ex)
                if trace is not None:
                    trace.append((cs, tuple(ca), ex))
            else:
                cs = sim.get(io["cs"])
                ca = [sim.get(s) for s in io["ca"]]
                samples.append((cs & 1, sum((ca[b] & 1) << b for b in range(7)), sum(((ca[b] >> 1) & 1) << b for b in range(7))))
                if trace is not None:
                    trace.append((cs, tuple(ca)))
    return dict(samples=samples, extra=extra, cycles=ncycles)


def decode(case, run):
    fam, kind = DEVICES[case["dev"]]["fam"], DEVICES[case["dev"]]["kind"]
    if fam == "l4":
        return jedec_ca.decode_lpddr4(run["samples"])
    if kind == "adapter":
        out = []
        s = run["samples"]
        for c in range(len(s) // 2):
            for e in jedec_ca.decode_lpddr5(s[2 * c:2 * c + 2]):
                e = dict(e)
                e["t"] += 2 * c
                if "t2" in e:
                    e["t2"] += 2 * c
                out.append(e)
        return out
    return jedec_ca.decode_lpddr5(run["samples"])


def diff_selftest(case):
    ta, tb = [], []
    run_case(case, "fast", trace=ta)
    run_case(case, "migen", trace=tb)
    if len(ta) != len(tb):
        raise HarnessError("fastsim and migen.sim produced different numbers of samples for %s" % case["dev"])
    for c in range(len(ta)):
        if ta[c] != tb[c]:
            raise HarnessError("fastsim differs from migen.sim at sample %d on %s: %r vs %r" % (c, case["dev"], ta[c], tb[c]))
    return len(ta)
