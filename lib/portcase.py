"""Harness for native-port adapters (width converters C07, clock-domain crossing C08): a conforming master on the
user-side port, the realistic slave on the controller-side port, byte-accurate reference memory in user command order."""
import json
from hypothesis import strategies as st
import lib.compat  # noqa
from migen import *
from litedram.common import LiteDRAMNativePort
from lib.fastsim import FastSim, MigenSim, compile_dut, HarnessError
from lib.native import NativeMaster, NativeSlave, native_slave, slave_style

_CACHE = {}


class AdapterDUT(Module):
    """cfg: {kind: 'conv'|'cdc', mode, user_dw, ctrl_dw, aw (controller-side address width), reverse, cdc depths...}"""
    def __init__(self, cfg):
        from litedram.frontend.adapter import LiteDRAMNativePortConverter, LiteDRAMNativePortCDC
        mode = cfg.get("mode", "both")
        udw, cdw = cfg["user_dw"], cfg["ctrl_dw"]
        aw = cfg["aw"]
        if udw < cdw:
            uaw = aw + log2_int(cdw // udw)
        elif udw > cdw:
            uaw = aw - log2_int(udw // cdw)
        else:
            uaw = aw
        if cfg["kind"] == "conv":
            self.user = LiteDRAMNativePort(mode, uaw, udw)
            self.ctrl = LiteDRAMNativePort(mode, aw, cdw)
            self.submodules.dut = LiteDRAMNativePortConverter(self.user, self.ctrl, reverse=cfg.get("reverse", False))
        else:
            self.user = LiteDRAMNativePort(mode, uaw, udw, clock_domain="user")
            self.ctrl = LiteDRAMNativePort(mode, aw, cdw, clock_domain="sys")
            self.submodules.dut = LiteDRAMNativePortCDC(self.user, self.ctrl, cmd_depth=cfg.get("cmd_depth", 4),
                                                        wdata_depth=cfg.get("wdata_depth", 16), rdata_depth=cfg.get("rdata_depth", 16))


def get_sim(cfg, backend="fast"):
    clocks = dict(cfg.get("clocks", {"sys": 10}))
    clocks = {k: (tuple(v) if isinstance(v, list) else v) for k, v in clocks.items()}
    if backend == "migen":
        dut = AdapterDUT(cfg)
        return dut, MigenSim(dut, clocks)
    k = json.dumps(cfg, sort_keys=True)
    ent = _CACHE.get(k)
    if ent is None:
        if len(_CACHE) > 8:
            _CACHE.clear()
        dut = AdapterDUT(cfg)
        ent = _CACHE[k] = (dut, compile_dut(dut, clocks))
    return ent[0], FastSim(ent[1])


class Layout:
    """byte layout between a user word and controller words"""
    def __init__(self, cfg):
        self.udw, self.cdw = cfg["user_dw"], cfg["ctrl_dw"]
        self.reverse = cfg.get("reverse", False)
        self.up = self.udw < self.cdw
        self.ratio = (self.cdw // self.udw) if self.up else (self.udw // self.cdw)

    def pieces(self, ua):
        """user address -> list of (ctrl address, bit offset inside ctrl word, bit offset inside user word, nbits)"""
        r = self.ratio
        if self.udw == self.cdw:
            return [(ua, 0, 0, self.udw)]
        if self.up:
            c = ua % r
            pos = (r - 1 - c) if self.reverse else c
            return [(ua // r, pos * self.udw, 0, self.udw)]
        out = []
        for i in range(r):
            pos = (r - 1 - i) if self.reverse else i
            out.append((ua * r + i, 0, pos * self.cdw, self.cdw))
        return out


class RefMem:
    def __init__(self, layout, bg):
        self.l = layout
        self.bg = bg
        self.mem = {}
        self.written = set()

    def word(self, ca):
        v = self.mem.get(ca)
        return self.bg(ca, self.l.cdw) if v is None else v

    def read(self, ua):
        out = 0
        for ca, coff, uoff, nb in self.l.pieces(ua):
            out |= ((self.word(ca) >> coff) & ((1 << nb) - 1)) << uoff
        return out

    def write(self, ua, data, be):
        for ca, coff, uoff, nb in self.l.pieces(ua):
            w = self.word(ca)
            for b in range(nb // 8):
                if (be >> ((uoff // 8) + b)) & 1:
                    byte = (data >> (uoff + 8 * b)) & 0xff
                    sh = coff + 8 * b
                    w = (w & ~(0xff << sh)) | (byte << sh)
            self.mem[ca] = w
            self.written.add(ca)


class AdapterRun:
    pass


def run_adapter(cfg, stim, backend="fast", max_cycles=None):
    """single clock (converters). stim: {ops: [...], slave: {ready, wlat, rlat, qmax}, wait_reads, use_last}"""
    dut, sim = get_sim(cfg, backend)
    sl = stim.get("slave", {})
    slave = native_slave([dut.ctrl], sl)
    master = NativeMaster(dut.user, stim["ops"], flush_at_end=True, use_last=True, wait_reads=stim.get("wait_reads", False))
    lat = max((sl.get("wlat") or [3]) + (sl.get("rlat") or [5])) + sum(sl.get("ready") or [0]) + 8
    down = max(1, cfg["user_dw"] // cfg["ctrl_dw"])
    cap = max_cycles or (400 + len(stim["ops"]) * (60 + down * lat * 2) + sum(op.get("gap", 0) for op in stim["ops"]))
    nreads = sum(1 for op in stim["ops"] if not op["we"])
    lay = Layout(cfg)
    qneed = 40 + 6 * lay.ratio       # an up-converter shifts through all chunks before it issues its command
    cap += qneed
    t = 0
    quiet = 0
    done = False
    while t < cap:
        w = slave.cycle(sim, t)
        w += master.cycle(sim, t)
        sim.step(w)
        t += 1
        if master.idle() and slave.idle() and len(master.r_log) >= nreads:
            quiet += 1
            if quiet >= qneed:
                done = True
                break
        else:
            quiet = 0
    if hasattr(slave, "finish"):
        slave.finish(t)
    r = AdapterRun()
    r.cfg, r.stim, r.dut, r.master, r.slave, r.cycles, r.completed = cfg, stim, dut, master, slave, t, done
    return r


def oracle_adapter(run, clause_prefix):
    """byte reference in user command order; returns (findings, classes)"""
    cfg = run.cfg
    fs = []
    classes = set()
    m, s = run.master, run.slave
    lay = Layout(cfg)
    ref = RefMem(lay, s.bg)
    P = clause_prefix
    expected = []
    for k, op in enumerate(m.ops):
        if m.accept_t[k] is None:
            break
        if op["we"]:
            ref.write(op["addr"], op["data"], op["be"])
        else:
            expected.append((k, ref.read(op["addr"])))
    for e in s.lost:
        if e[0] == "W-extra":
            fs.append(dict(clause=P + ".extra_write_beat", key=e[0], what="stream-style controller-side port: more write-data beats than write commands were put on the port (a beat is left over at the end of the run)"))
            break
        fs.append(dict(clause=P + ".lost_beat", key=e[0], what="controller-side %s at cycle %d (address 0x%x): the adapter was not %s when the one-cycle strobe arrived" % (
            e[0], e[1], e[3], "presenting write data" if e[0].startswith("W") else "ready for read data")))
        break
    got = m.r_log
    if len(got) > len(expected) or (run.completed and len(got) != len(expected)):
        fs.append(dict(clause=P + ".read_beat_count", key="count", what="%d reads accepted, %d read beats returned" % (len(expected), len(got))))
    for j in range(min(len(got), len(expected))):
        k, val = expected[j]
        if got[j][1] != val:
            fs.append(dict(clause=P + ".read_data", key="data", what="read #%d (op %d, user address 0x%x) returned 0x%x, reference 0x%x" % (j, k, m.ops[k]["addr"], got[j][1], val)))
            break
    if not run.completed:
        fs.append(dict(clause=P + ".incomplete", key="hang", what="not finished after %d cycles: %d/%d commands accepted, %d/%d read beats, slave idle=%s" % (
            run.cycles, sum(1 for x in m.accept_t if x is not None), len(m.ops), len(got), len(expected), s.idle())))
    else:
        nw = sum(1 for op in m.ops if op["we"])
        if len(m.w_taken) != nw:
            fs.append(dict(clause=P + ".write_beat_count", key="count", what="%d writes accepted, %d user write beats taken" % (nw, len(m.w_taken))))
        for ca in sorted(ref.written | set(s.mem)):
            sv = s.read_mem(ca, lay.cdw)
            if sv != ref.word(ca):
                fs.append(dict(clause=P + ".final_memory", key="mem", what="controller-side word 0x%x holds 0x%x, reference 0x%x (xor 0x%x)" % (ca, sv, ref.word(ca), sv ^ ref.word(ca))))
                break
    # each controller-side command must be explained by user commands (nothing invented)
    touched = set()
    for k, op in enumerate(m.ops):
        for ca, _, _, _ in lay.pieces(op["addr"]):
            touched.add((ca, bool(op["we"])))
    for e in s.log:
        if e[0] == "C" and (e[4], bool(e[3])) not in touched:
            fs.append(dict(clause=P + ".invented_command", key="cmd", what="controller-side %s of address 0x%x at cycle %d matches no user command" % ("write" if e[3] else "read", e[4], e[1])))
            break
    return fs, classes


# ---------------------------------------------------------------------------------------------------
@st.composite
def slave_sched(draw):
    d = dict(ready=draw(st.sampled_from([None, None, [1, 1], [3, 2], [1, 5], [8, 1, 1, 3], [0, 6, 4, 1]])),
             wlat=draw(st.lists(st.integers(3, 14), min_size=1, max_size=4)),
             rlat=draw(st.lists(st.integers(5, 20), min_size=1, max_size=4)),
             qmax=draw(st.integers(1, 10)))
    d.update(slave_style(draw, st))
    return d


@st.composite
def adapter_ops(draw, cfg, max_ops=24):
    lay = Layout(cfg)
    udw = cfg["user_dw"]
    nbytes = udw // 8
    full = (1 << nbytes) - 1
    mode = cfg.get("mode", "both")
    r = lay.ratio if lay.up else 1
    uaw_words = draw(st.integers(2, 4))
    wide = [draw(st.integers(0, 15)) for _ in range(uaw_words)]
    ops = []
    n = draw(st.integers(1, max_ops))
    while len(ops) < n:
        w = wide[draw(st.integers(0, len(wide) - 1))]
        pat = draw(st.sampled_from(["asc", "desc", "rep", "rand", "single", "asc", "rand"]))
        cnt = draw(st.integers(1, max(1, min(r, 8)))) if r > 1 else 1
        if pat == "asc":
            start = draw(st.integers(0, r - 1))
            chunks = [(start + i) % r for i in range(cnt)] if draw(st.booleans()) else list(range(start, min(r, start + cnt)))
        elif pat == "desc":
            start = draw(st.integers(0, r - 1))
            chunks = [c for c in range(start, -1, -1)][:cnt]
        elif pat == "rep":
            c = draw(st.integers(0, r - 1))
            chunks = [c] * max(2, min(cnt, 3))
        elif pat == "rand":
            chunks = [draw(st.integers(0, r - 1)) for _ in range(cnt)]
        else:
            chunks = [draw(st.integers(0, r - 1))]
        if mode == "write":
            we = 1
        elif mode == "read":
            we = 0
        else:
            we = draw(st.integers(0, 1))
        per_op_dir = draw(st.integers(0, 5)) == 0 and mode == "both"
        for i, c in enumerate(chunks):
            if per_op_dir:
                we = draw(st.integers(0, 1))
            op = dict(we=we, addr=w * r + c, gap=draw(st.sampled_from([0, 0, 0, 0, 1, 3, 9])), last=1 if (draw(st.integers(0, 7)) == 0) else 0)
            if we:
                op["data"] = draw(st.integers(0, (1 << udw) - 1))
                op["be"] = full if draw(st.integers(0, 2)) else draw(st.integers(0, full))
                op["lead"] = draw(st.sampled_from([0, 0, 1, 2]))
            ops.append(op)
    return ops[:max_ops]


def classify_ops(cfg, ops):
    lay = Layout(cfg)
    r = lay.ratio if lay.up else 1
    full = (1 << (cfg["user_dw"] // 8)) - 1
    cl = set()
    for a, b in zip(ops, ops[1:]):
        if r > 1 and a["addr"] // r == b["addr"] // r and a["we"] == b["we"]:
            if b["addr"] % r < a["addr"] % r:
                cl.add("descending_in_word")
            elif b["addr"] % r == a["addr"] % r:
                cl.add("repeated_in_word")
        if a["we"] and not b["we"] and a["addr"] // r == b["addr"] // r:
            cl.add("read_after_write_same_word")
    if any(op["we"] and op["be"] not in (0, full) for op in ops):
        cl.add("partial_enable")
    if any(op.get("last") for op in ops[:-1]):
        cl.add("mid_sequence_last")
    return cl


def run_cdc(cfg, stim, backend="fast", max_ticks=None):
    """two clocks: master in 'user', realistic slave in 'sys'"""
    dut, sim = get_sim(cfg, backend)
    sl = stim.get("slave", {})
    slave = native_slave([dut.ctrl], sl)
    master = NativeMaster(dut.user, stim["ops"], wait_reads=stim.get("wait_reads", False), rready_pattern=stim.get("rready"))
    nreads = sum(1 for op in stim["ops"] if not op["we"])
    tcount = {"user": 0, "sys": 0}
    xlog = {"cmd_u": [], "cmd_s": [], "wd_u": [], "wd_s": [], "rd_u": [], "rd_s": []}
    u, c = dut.user, dut.ctrl
    has_w = cfg.get("mode", "both") != "read"
    has_r = cfg.get("mode", "both") != "write"
    maxfill = [0]

    gtick = [0]
    ev = {"r_pulse": [], "r_deliv": [], "w_push": [], "w_pulse": [], "c_acc": []}

    def on_rising(cd):
        t = tcount[cd]
        tcount[cd] += 1
        g = sim.get
        if cd == "sys":
            if has_r and g(c.rdata.valid):
                ev["r_pulse"].append((gtick[0], t))
            if has_w and g(c.wdata.ready):
                ev["w_pulse"].append((gtick[0], t))
            if g(c.cmd.valid) and g(c.cmd.ready):
                ev["c_acc"].append((gtick[0], t, g(c.cmd.we)))
        else:
            if has_r and g(u.rdata.valid) and g(u.rdata.ready):
                ev["r_deliv"].append((gtick[0], t))
            if has_w and g(u.wdata.valid) and g(u.wdata.ready):
                ev["w_push"].append((gtick[0], t))
        if cd == "user":
            if g(u.cmd.valid) and g(u.cmd.ready):
                xlog["cmd_u"].append((g(u.cmd.we), g(u.cmd.addr)))
            if has_w and g(u.wdata.valid) and g(u.wdata.ready):
                xlog["wd_u"].append((g(u.wdata.data), g(u.wdata.we)))
            if has_r and g(u.rdata.valid) and g(u.rdata.ready):
                xlog["rd_u"].append(g(u.rdata.data))
            if g(u.cmd.valid) and not g(u.cmd.ready):
                maxfill[0] += 1
            return master.cycle(sim, t)
        if cd == "sys":
            if g(c.cmd.valid) and g(c.cmd.ready):
                xlog["cmd_s"].append((g(c.cmd.we), g(c.cmd.addr)))
            if has_w and g(c.wdata.valid) and g(c.wdata.ready):
                xlog["wd_s"].append((g(c.wdata.data), g(c.wdata.we)))
            if has_r and g(c.rdata.valid) and g(c.rdata.ready):
                xlog["rd_s"].append(g(c.rdata.data))
            return slave.cycle(sim, t)
        return []
    lat = max((sl.get("wlat") or [3]) + (sl.get("rlat") or [5])) + sum(sl.get("ready") or [0]) + 8
    clocks = cfg["clocks"]
    pu = clocks["user"][0] if isinstance(clocks["user"], (list, tuple)) else clocks["user"]
    ps = clocks["sys"][0] if isinstance(clocks["sys"], (list, tuple)) else clocks["sys"]
    cap_user = 300 + len(stim["ops"]) * (30 + (lat + 12) * max(1, -(-ps // pu)) * 2) + sum(op.get("gap", 0) for op in stim["ops"])
    quiet = 0
    done = False
    while tcount["user"] < cap_user:
        gtick[0] += 1
        rising = sim.tick(on_rising)
        if "user" in rising:
            if master.idle() and slave.idle() and len(master.r_log) >= nreads:
                quiet += 1
                if quiet >= 40 + 8 * max(1, -(-ps // pu)):
                    done = True
                    break
            else:
                quiet = 0
    if hasattr(slave, "finish"):
        slave.finish(tcount["sys"])
    r = AdapterRun()
    r.cfg, r.stim, r.dut, r.master, r.slave, r.cycles, r.completed = cfg, stim, dut, master, slave, tcount["user"], done
    r.xlog = xlog
    r.ev = ev
    r.backpressure_cycles = maxfill[0]
    r.sys_cycles = tcount["sys"]
    return r
