"""fastsim with O(1) memory accesses (used by C19, whose device contains real Migen memories).

migen.sim's front end (MemoryToArray) turns every Memory into an Array of one Signal per word and every port access
into an _ArrayProxy over ALL words.  lib.fastsim translates an _ArrayProxy read into a tuple of all choices and an
_ArrayProxy write into an if/elif chain with one branch per choice - correct, but linear in the memory depth (and the
elif chain overflows the Python compiler's recursion for a few thousand words).  The memory words of one Memory occupy
consecutive slots of the value list (lib.fastsim registers them first, in order), so an _ArrayProxy whose choices are
exactly such a run of slots (or the same bit slice of every word of such a run: the byte lanes of a write port with
we_granularity) is translated here into an indexed access  v[base + min(n-1, key)]  instead.  Everything else is
inherited unchanged.  Semantics are the same as the stock Evaluator's (index clamped to the last choice; slice
read-modify-write on the post-commit value).  As for lib.fastsim, no verdict rests on this translation: the first case
of every shard is compared with stock migen.sim cycle by cycle and every violation is re-run there.
"""
from migen.fhdl.structure import _ArrayProxy, _Slice, Signal
from lib import fastsim as _fs
from lib.fastsim import FastSim, MigenSim, HarnessError  # noqa (re-exported)


class _MemCompiler(_fs._Compiler):
    def _memrun(self, node):
        """(base, n, start, stop) if node's choices are a contiguous run of memory words (start/stop = bit slice of
        each word, or None for whole words); None otherwise"""
        ch = node.choices
        if not ch:
            return None
        c0 = ch[0]
        if isinstance(c0, Signal):
            sl = None
            sigs = ch
        elif isinstance(c0, _Slice) and isinstance(c0.value, Signal):
            sl = (c0.start, c0.stop)
            for c in ch:
                if not isinstance(c, _Slice) or (c.start, c.stop) != sl:
                    return None
            sigs = [c.value for c in ch]
        else:
            return None
        if sigs[0] not in self.memsigs:
            return None
        base = self.idx[sigs[0]]
        idx = self.idx
        for k, s in enumerate(sigs):
            if not isinstance(s, Signal) or s not in self.memsigs or idx.get(s) != base + k:
                return None
        w = sigs[0].nbits
        for s in sigs:
            if s.nbits != w or s.signed:
                return None
        if sl is None:
            return base, len(sigs), None, None, w
        return base, len(sigs), sl[0], sl[1], w

    def e(self, node, post=False):
        if isinstance(node, _ArrayProxy):
            r = self._memrun(node)
            if r is not None:
                base, n, start, stop, w = r
                word = self.rdmem(base, "min(%d,%s)" % (n - 1, _fs._Compiler.e(self, node.key, post)), post)
                if start is None:
                    return word
                return "((%s>>%d)&%d)" % (word, start, (1 << (stop - start)) - 1)
        return _fs._Compiler.e(self, node, post)

    def assign(self, node, val, out, ind):
        if isinstance(node, _ArrayProxy):
            r = self._memrun(node)
            if r is not None:
                base, n, start, stop, w = r
                k = "k%d_" % self.tmpn
                self.tmpn += 1
                out.append("%s%s=min(%d,%s)" % (ind, k, n - 1, _fs._Compiler.e(self, node.key)))
                if start is None:
                    self.wrmem(base, k, "%s&%d" % (val, (1 << w) - 1), out, ind)
                else:
                    mask = ((1 << stop) - 1) - ((1 << start) - 1)
                    cur = self.rdmem(base, k, True)
                    full = "((%s&%d)|((%s&%d)<<%d))" % (cur, ~mask, val, (1 << (stop - start)) - 1, start)
                    self.wrmem(base, k, "%s&%d" % (full, (1 << w) - 1), out, ind)
                return
        return _fs._Compiler.assign(self, node, val, out, ind)


class CompiledMem(_fs.Compiled):
    def __init__(self, dut, clocks={"sys": 10}, levelised=True):
        self.clocks = dict(clocks)
        c = _MemCompiler(dut, clocks).build(levelised)
        self.c = c
        self.dut = dut
        self.levelised = c.levelised
        self.idx = c.idx
        self.sigs = c.sigs
        self.reset_vals = c.reset_vals
        self.comb = c.ns["comb"]
        self.syncs = {cd: c.ns.get("sync_" + cd) for cd in clocks}
        for cd in c.frag.sync:
            if cd not in clocks:
                raise HarnessError("clock domain %r has sync logic but no clock" % cd)


def compile_dut(dut, clocks={"sys": 10}, levelised=True):
    return CompiledMem(dut, clocks, levelised)
