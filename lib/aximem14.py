"""Small AXI4 memory slave used by C14 (BIST on LiteDRAMAXIPort).  Per-cycle driver like lib/native.py.

Protocol-conforming slave, single-beat bursts (the DMA classes leave aw/ar.len = 0):
  * aw.ready / w.ready / ar.ready follow generated stall schedules (handshake = valid & ready in the same cycle);
  * the k-th accepted W beat belongs to the k-th accepted AW (AXI4: write data in address order), the write is performed
    when both have arrived, a B response is queued afterwards and held until b.ready;
  * an R beat (last = 1) is offered no earlier than `rlat` cycles after its AR was accepted, in AR order, and HELD until
    r.ready (a conforming slave never drops a beat), memory is sampled when the beat is first offered;
  * at most qmax reads outstanding.
Memory is word addressed (`mem[byte_address >> ashift]`); the log carries BYTE addresses:
  ("C", t, pi, we, byte_addr) / ("W", t, 0, byte_addr, data, strb, 1) / ("R", t, 1, byte_addr, data);  pi 0 = write port, 1 = read port.
`notes` counts protocol observations that are not part of C14 (e.g. W beats without `last`)."""
from lib.native import schedule_iter


class AXIMemSlave:
    def __init__(self, wport, rport, *, aw_pattern=None, w_pattern=None, ar_pattern=None, r_gap=None, rlat=None, qmax=8, init=None, bg=None):
        self.wp, self.rp = wport, rport
        self.dw = wport.data_width
        self.ashift = (self.dw // 8).bit_length() - 1
        self.aw_s = schedule_iter(aw_pattern)
        self.w_s = schedule_iter(w_pattern)
        self.ar_s = schedule_iter(ar_pattern)
        self.rlat = rlat or [1]
        self.r_gap = r_gap or [0]
        self.qmax = qmax
        self.mem = dict(init or {})
        self.bg = bg or (lambda addr, width: (addr * 0x9E3779B1 + 0x7F4A7C15) & ((1 << width) - 1))
        self.lost = []
        self.log = []
        self.notes = {}
        self.awq, self.wq, self.bq, self.rq = [], [], 0, []
        self.nr = self.nrr = 0
        self.d_aw = self.d_w = self.d_ar = 0
        self.d_b = 0
        self.d_r = None              # (addr, data) currently offered on R
        self.r_next_ok = 0

    def read_mem(self, addr, width=None):
        v = self.mem.get(addr)
        return self.bg(addr, width or self.dw) if v is None else v

    def idle(self):
        return not self.awq and not self.wq and not self.rq and self.d_r is None

    def _note(self, k):
        self.notes[k] = self.notes.get(k, 0) + 1

    def cycle(self, sim, t):
        get = sim.get
        wp, rp = self.wp, self.rp
        w = []
        # ---- observe ----
        if self.d_aw and get(wp.aw.valid):
            a = get(wp.aw.addr)
            if get(wp.aw.len) != 0:
                self._note("aw_len_nonzero")
            if get(wp.aw.size) != self.ashift:
                self._note("aw_size_unexpected")
            self.awq.append(a)
            self.log.append(("C", t, 0, 1, a))
        if self.d_w and get(wp.w.valid):
            if not get(wp.w.last):
                self._note("w_beat_without_last")
            self.wq.append((get(wp.w.data), get(wp.w.strb)))
        while self.awq and self.wq:
            a = self.awq.pop(0)
            d, strb = self.wq.pop(0)
            wa = a >> self.ashift
            old = self.read_mem(wa)
            for b in range(self.dw // 8):
                if (strb >> b) & 1:
                    old = (old & ~(0xff << (8 * b))) | (d & (0xff << (8 * b)))
            self.mem[wa] = old
            self.log.append(("W", t, 0, a, d, strb, 1))
            self.bq += 1
        if self.d_b and get(wp.b.ready):
            self.bq -= 1
        if self.d_ar and get(rp.ar.valid):
            a = get(rp.ar.addr)
            if get(rp.ar.len) != 0:
                self._note("ar_len_nonzero")
            lat = max(1, self.rlat[self.nr % len(self.rlat)])
            self.rq.append((a, t + lat))
            self.nr += 1
            self.log.append(("C", t, 1, 0, a))
        if self.d_r is not None and get(rp.r.ready):
            a, d = self.d_r
            self.log.append(("R", t, 1, a, d))
            self.d_r = None
            self.r_next_ok = t + 1 + self.r_gap[self.nrr % len(self.r_gap)]
            self.nrr += 1
        # ---- drive ----
        self.d_aw = 1 if (next(self.aw_s) and len(self.awq) < self.qmax) else 0
        self.d_w = 1 if (next(self.w_s) and len(self.wq) < self.qmax) else 0
        self.d_ar = 1 if (next(self.ar_s) and len(self.rq) + (self.d_r is not None) < self.qmax) else 0
        w += [(wp.aw.ready, self.d_aw), (wp.w.ready, self.d_w), (rp.ar.ready, self.d_ar)]
        self.d_b = 1 if self.bq > 0 else 0
        w.append((wp.b.valid, self.d_b))
        if self.d_r is None and self.rq and self.rq[0][1] <= t + 1 and t + 1 >= self.r_next_ok:
            a, _ = self.rq.pop(0)
            self.d_r = (a, self.read_mem(a >> self.ashift))
        if self.d_r is not None:
            w += [(rp.r.valid, 1), (rp.r.data, self.d_r[1]), (rp.r.last, 1)]
        else:
            w.append((rp.r.valid, 0))
        return w
