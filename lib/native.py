"""Native-port drivers: the conforming master of C01/C07 and the realistic native slave (DESIGN 2.3).

Drivers are per-cycle Python objects: `cycle(sim, t)` looks at the settled values of cycle t and returns the
writes to apply at the next edge.  No RNG, no clock: every choice comes from the op list / schedules."""


class NativeMaster:
    """Conforming master.
    ops: list of dicts {we, addr, data, be, gap, lead}
      gap  : idle cycles before the command is first offered
      lead : how many *later* write ops get their data queued at the moment this command is first offered
    A command is held until cmd.valid & cmd.ready.  Write data is queued no later than the cycle its command is
    first offered; wdata.valid is high with the queue head until wdata.ready.  rdata.ready is constantly 1.
    `wait_reads`: if True the master does not offer a new command while read data is outstanding (non-pipelined)."""

    def __init__(self, port, ops, name="m", wait_reads=False, flush_at_end=False, use_last=False, loop_until=0, rready_pattern=None):
        # rready_pattern: stall schedule for rdata.ready (None = constantly 1, the master of C01/C07); only meaningful on ports whose
        # read data is a real stream (the user side of the clock-domain-crossing port: "any back-pressure", C08)
        self.rready = schedule_iter(rready_pattern) if rready_pattern else None
        self.d_rready = 1
        self.port = port
        self.ops = list(ops)
        self.base_ops = list(ops)
        self.loop_until = loop_until if ops else 0
        self.name = name
        self.i = 0
        self.offered = False
        self.gap = ops[0].get("gap", 0) if ops else 0
        self.pushed = 0            # number of ops whose data has been queued (index bound)
        self.wq = []               # queued (op index, data, be)
        self.accept_t = [None] * len(ops)
        self.offer_t = [None] * len(ops)
        self.w_taken = []          # (t, op index)
        self.w_lost = []           # t of wdata.ready pulses with an empty queue
        self.r_log = []            # (t, data)
        self.wait_reads = wait_reads
        self.reads_out = 0
        self.flush_at_end = flush_at_end
        self.use_last = use_last
        self.has_w = port.mode != "read"
        self.has_r = port.mode != "write"
        self.done_t = None

    def _push_upto(self, k):
        while self.pushed <= k and self.pushed < len(self.ops):
            op = self.ops[self.pushed]
            if op["we"]:
                self.wq.append((self.pushed, op["data"], op["be"]))
            self.pushed += 1

    def idle(self):
        return self.i >= len(self.ops) and not self.wq and not self.offered

    def cycle(self, sim, t):
        p = self.port
        get = sim.get
        w = []
        # observe
        if self.has_w and get(p.wdata.ready):
            if self.wq and get(p.wdata.valid):
                k, _, _ = self.wq.pop(0)
                self.w_taken.append((t, k))
            else:
                self.w_lost.append(t)
        if self.has_r and get(p.rdata.valid) and self.d_rready:
            self.r_log.append((t, get(p.rdata.data)))
            self.reads_out -= 1
        if self.offered and get(p.cmd.ready):
            self.accept_t[self.i] = t
            if not self.ops[self.i]["we"]:
                self.reads_out += 1
            self.i += 1
            self.offered = False
            if self.i >= len(self.ops) and t < self.loop_until:
                # repeat the op list (same addresses, data made distinct per round) until loop_until
                rnd = len(self.ops) // len(self.base_ops)
                for op in self.base_ops:
                    o = dict(op)
                    if o["we"]:
                        o["data"] = (o["data"] + rnd * 0x0101010101010101010101010101010101) & ((1 << self.port.data_width) - 1)
                    self.ops.append(o)
                    self.accept_t.append(None)
                    self.offer_t.append(None)
            if self.i < len(self.ops):
                self.gap = self.ops[self.i].get("gap", 0)
        # drive
        if not self.offered and self.i < len(self.ops):
            if self.gap > 0:
                self.gap -= 1
            elif self.wait_reads and self.reads_out > 0:
                pass
            else:
                op = self.ops[self.i]
                self.offered = True
                self.offer_t[self.i] = t + 1
                self._push_upto(self.i + op.get("lead", 0))
                w.append((p.cmd.valid, 1))
                w.append((p.cmd.we, op["we"]))
                w.append((p.cmd.addr, op["addr"]))
                if self.use_last:
                    w.append((p.cmd.last, op.get("last", 0)))
        if not self.offered:
            w.append((p.cmd.valid, 0))
        if self.has_w:
            if self.wq:
                _, d, be = self.wq[0]
                w.append((p.wdata.valid, 1))
                w.append((p.wdata.data, d))
                w.append((p.wdata.we, be))
            else:
                w.append((p.wdata.valid, 0))
        if self.has_r:
            self.d_rready = 1 if self.rready is None else next(self.rready)
            w.append((p.rdata.ready, self.d_rready))
        if self.flush_at_end:
            w.append((p.flush, 1 if (self.i >= len(self.ops) and not self.offered) else 0))
        return w


def schedule_iter(pattern):
    """stall schedule: list of small ints used cyclically: ready for a, stalled for b, ready for c ...
    [] or None = always ready."""
    if not pattern:
        while True:
            yield 1
    k = 0
    while True:
        n = pattern[k % len(pattern)]
        for _ in range(n):
            yield 1 if k % 2 == 0 else 0
        k += 1
        if all(x == 0 for x in pattern):
            while True:
                yield 1


class NativeSlave:
    """Realistic native slave: shows only behaviour the real core can show, including what the suite's stubs hide.

    * cmd.ready follows a generated stall schedule, at most qmax commands outstanding;
    * data phases strictly in acceptance order (over all served ports), at most one per cycle;
    * a write's wdata.ready is a one-cycle pulse asserted whether or not wdata.valid is high, no earlier than
      WMIN cycles after acceptance; a read's rdata.valid is a one-cycle pulse regardless of rdata.ready, no earlier
      than RMIN cycles after acceptance;
    * writes take effect / reads sample memory in acceptance order.
    A pulse that finds wdata.valid = 0 or rdata.ready = 0 is recorded in `lost` (a lost beat of the device under test)."""
    WMIN = 3
    RMIN = 5

    def __init__(self, ports, *, ready_pattern=None, wlat=None, rlat=None, qmax=8, init=None, bg=None, apply_lost=False):
        self.apply_lost = apply_lost
        self.ports = list(ports)
        self.ready = [schedule_iter(ready_pattern) for _ in self.ports]
        self.wlat = wlat or [self.WMIN]
        self.rlat = rlat or [self.RMIN]
        self.nw = self.nr = 0
        self.qmax = qmax
        self.q = []                 # (port index, we, addr, due)
        self.last_due = -1
        self.mem = dict(init or {})
        self.bg = bg or (lambda addr, width: (addr * 0x9E3779B1 + 0x7F4A7C15) & ((1 << width) - 1))
        self.lost = []
        self.log = []               # ("C", t, pi, we, addr) / ("W", t, pi, addr, data, we, valid) / ("R", t, pi, addr, data)
        self.pendw = {}
        self.pendr = {}
        self.drive_ready = [0] * len(self.ports)

    def read_mem(self, addr, width):
        v = self.mem.get(addr)
        return self.bg(addr, width) if v is None else v

    def idle(self):
        return not self.q and not self.pendw and not self.pendr

    def writes_handed(self):
        """write-data beats taken from the device so far"""
        return sum(1 for e in self.log if e[0] == "W")

    def cycle(self, sim, t):
        get = sim.get
        w = []
        for pi, p in enumerate(self.ports):
            if pi in self.pendw:
                addr = self.pendw.pop(pi)
                v = get(p.wdata.valid)
                d = get(p.wdata.data)
                we = get(p.wdata.we)
                if not v:
                    self.lost.append(("W-novalid", t, pi, addr))
                if v or self.apply_lost:
                    # the real crossbar takes wdata.data / wdata.we in the strobe cycle whether or not wdata.valid is high
                    old = self.read_mem(addr, p.data_width)
                    for b in range(p.data_width // 8):
                        if (we >> b) & 1:
                            old = (old & ~(0xff << (8 * b))) | (d & (0xff << (8 * b)))
                    self.mem[addr] = old
                self.log.append(("W", t, pi, addr, d, we, v))
            if pi in self.pendr:
                addr, data = self.pendr.pop(pi)
                if not get(p.rdata.ready):
                    self.lost.append(("R-noready", t, pi, addr))
                self.log.append(("R", t, pi, addr, data))
            if self.drive_ready[pi] and get(p.cmd.valid):
                we = get(p.cmd.we)
                addr = get(p.cmd.addr)
                if we:
                    lat = max(self.WMIN, self.wlat[self.nw % len(self.wlat)])
                    self.nw += 1
                else:
                    lat = max(self.RMIN, self.rlat[self.nr % len(self.rlat)])
                    self.nr += 1
                due = max(t + lat, self.last_due + 1)
                self.last_due = due
                self.q.append((pi, we, addr, due))
                self.log.append(("C", t, pi, we, addr))
        # drive next cycle
        for pi, p in enumerate(self.ports):
            rdy = next(self.ready[pi]) and len(self.q) < self.qmax
            self.drive_ready[pi] = 1 if rdy else 0
            w.append((p.cmd.ready, self.drive_ready[pi]))
            if p.mode != "read":
                w.append((p.wdata.ready, 0))
            if p.mode != "write":
                w.append((p.rdata.valid, 0))
        if self.q and self.q[0][3] <= t + 1:
            pi, we, addr, due = self.q.pop(0)
            p = self.ports[pi]
            if we:
                w.append((p.wdata.ready, 1))
                self.pendw[pi] = addr
            else:
                data = self.read_mem(addr, p.data_width)
                w.append((p.rdata.valid, 1))
                w.append((p.rdata.data, data))
                self.pendr[pi] = (addr, data)
        return w


class NativeFifoSlave:
    """Stream-style native slave: the memory side as a frontend sees it when its port is the USER side of a buffered port of the
    repository itself (LiteDRAMNativePortCDC, the width converters, LiteDRAMNativePort FIFOs): every channel is an ordinary
    valid/ready stream backed by a queue.

    * cmd.ready follows a generated stall schedule while fewer than qmax commands are queued;
    * wdata.ready is high whenever the write-data queue has room (depth wdepth, optional stall schedule) - WHETHER OR NOT a write
      command has been accepted yet (this is what the pulse-style NativeSlave never shows);
    * rdata.valid is held with the head of the read-data queue until rdata.ready;
    * the backend performs the queued commands in acceptance order (over all served ports), at most one per cycle, a write as soon as
      its latency has elapsed and a data beat is queued, a read as soon as its latency has elapsed and the read-data queue has room;
    * no beat can be lost by construction; write-data beats that no write command ever consumes are reported through `lost`
      as ("W-extra", t, port, None) by `finish()` (called by idle() users at the end of a run).
    Same interface and log format as NativeSlave."""
    WMIN = 1
    RMIN = 2

    def __init__(self, ports, *, ready_pattern=None, wlat=None, rlat=None, qmax=8, init=None, bg=None, apply_lost=False,
                 wdepth=4, rdepth=4, wready_pattern=None):
        # (init: initial memory contents, as for NativeSlave)
        self.ports = list(ports)
        self.ready = [schedule_iter(ready_pattern) for _ in self.ports]
        self.wready = [schedule_iter(wready_pattern) for _ in self.ports]
        self.wlat = wlat or [self.WMIN]
        self.rlat = rlat or [self.RMIN]
        self.nw = self.nr = 0
        self.qmax = max(1, qmax)
        self.wdepth, self.rdepth = max(1, wdepth), max(1, rdepth)
        self.q = []                 # (port index, we, addr, due) in acceptance order
        self.wq = [[] for _ in self.ports]      # queued write-data beats (data, we)
        self.rq = [[] for _ in self.ports]      # queued read-data words (addr, data)
        self.mem = dict(init or {})
        self.bg = bg or (lambda addr, width: (addr * 0x9E3779B1 + 0x7F4A7C15) & ((1 << width) - 1))
        self.lost = []
        self.log = []
        self.drive_ready = [0] * len(self.ports)
        self.drive_wready = [0] * len(self.ports)
        self.drive_rvalid = [None] * len(self.ports)
        self.pendw = self.pendr = {}            # (attribute compatibility with NativeSlave users; always empty)
        self.max_wq_ahead = 0                   # most data beats queued while no write command was queued (for the evidence)

    def read_mem(self, addr, width):
        v = self.mem.get(addr)
        return self.bg(addr, width) if v is None else v

    def idle(self):
        return not self.q and not any(self.rq)

    def writes_handed(self):
        """write-data beats taken from the device so far (performed or still queued)"""
        return sum(1 for e in self.log if e[0] == "W") + sum(len(x) for x in self.wq)

    def orphan_beats(self):
        """write-data beats queued although no write command is queued: legal only transiently (data may lead its command)"""
        return [(pi, len(x)) for pi, x in enumerate(self.wq) if x and not any(c[0] == pi and c[1] for c in self.q)]

    def cycle(self, sim, t):
        get = sim.get
        w = []
        # ---- handshakes of this cycle (what was driven for it is in drive_*) ----
        for pi, p in enumerate(self.ports):
            if self.drive_rvalid[pi] is not None and get(p.rdata.ready):
                addr, data = self.rq[pi].pop(0)
                self.log.append(("R", t, pi, addr, data))
            if p.mode != "read" and self.drive_wready[pi] and get(p.wdata.valid):
                self.wq[pi].append((get(p.wdata.data), get(p.wdata.we), t))
                if not any(c[0] == pi and c[1] for c in self.q):
                    self.max_wq_ahead = max(self.max_wq_ahead, len(self.wq[pi]))
            if self.drive_ready[pi] and get(p.cmd.valid):
                we = get(p.cmd.we)
                addr = get(p.cmd.addr)
                if we:
                    lat = max(self.WMIN, self.wlat[self.nw % len(self.wlat)])
                    self.nw += 1
                else:
                    lat = max(self.RMIN, self.rlat[self.nr % len(self.rlat)])
                    self.nr += 1
                self.q.append((pi, we, addr, t + lat))
                self.log.append(("C", t, pi, we, addr))
        # ---- backend: one command per cycle, in acceptance order ----
        if self.q and self.q[0][3] <= t:
            pi, we, addr, due = self.q[0]
            p = self.ports[pi]
            if we:
                if self.wq[pi]:
                    d, be, th = self.wq[pi].pop(0)
                    old = self.read_mem(addr, p.data_width)
                    for b in range(p.data_width // 8):
                        if (be >> b) & 1:
                            old = (old & ~(0xff << (8 * b))) | (d & (0xff << (8 * b)))
                    self.mem[addr] = old
                    self.log.append(("W", th, pi, addr, d, be, 1))      # time = when the beat was handed to the port
                    self.q.pop(0)
            elif len(self.rq[pi]) < self.rdepth:
                self.rq[pi].append((addr, self.read_mem(addr, p.data_width)))
                self.q.pop(0)
        # ---- drive next cycle ----
        for pi, p in enumerate(self.ports):
            rdy = next(self.ready[pi]) and len(self.q) < self.qmax
            self.drive_ready[pi] = 1 if rdy else 0
            w.append((p.cmd.ready, self.drive_ready[pi]))
            if p.mode != "read":
                wr = next(self.wready[pi]) and len(self.wq[pi]) < self.wdepth
                self.drive_wready[pi] = 1 if wr else 0
                w.append((p.wdata.ready, self.drive_wready[pi]))
            if p.mode != "write":
                if self.rq[pi]:
                    self.drive_rvalid[pi] = self.rq[pi][0]
                    w.append((p.rdata.valid, 1))
                    w.append((p.rdata.data, self.rq[pi][0][1]))
                else:
                    self.drive_rvalid[pi] = None
                    w.append((p.rdata.valid, 0))
        return w

    def finish(self, t):
        """end of a run: data beats that no command consumed"""
        for pi, n in self.orphan_beats():
            self.lost.append(("W-extra", t, pi, None))


def native_slave(ports, sl, **kw):
    """slave described by a stimulus dict: style 'pulse' (default) = NativeSlave (what the bare crossbar shows), style 'fifo' =
    NativeFifoSlave (what the user side of a buffered / clock-domain-crossing port shows)."""
    sl = sl or {}
    args = dict(ready_pattern=sl.get("ready"), wlat=sl.get("wlat"), rlat=sl.get("rlat"), qmax=sl.get("qmax", 8))
    args.update(kw)
    if sl.get("style") == "fifo":
        return NativeFifoSlave(ports, wdepth=sl.get("wdepth", 4), rdepth=sl.get("rdepth", 4), wready_pattern=sl.get("wready"), **args)
    return NativeSlave(ports, **args)


def slave_style(draw, st):
    """extra keys of a slave description drawn by the stimulus strategies (one place so that all frontends see the same envelope)"""
    if draw(st.integers(0, 3)):
        return {}
    return dict(style="fifo", wdepth=draw(st.sampled_from([1, 2, 4, 16])), rdepth=draw(st.sampled_from([1, 2, 4, 16])),
                wready=draw(st.sampled_from([None, None, [2, 1], [1, 3], [0, 9, 5, 2]])))
