"""Core campaign (C01-C05, used by C06-C08): configuration and stimulus strategies, the run loop, oracles."""
import json, math
from fractions import Fraction
from hypothesis import strategies as st

import lib.compat  # noqa
from lib.core import CoreDUT, address_align, burst_length, clocks_of, TIMING_KEYS
from lib.fastsim import FastSim, MigenSim, compile_dut, HarnessError
from lib.refdram import RefDRAM, background
from lib.native import NativeMaster
from lib.addrmap import AddrMap

MEMTYPES = [("SDR", 1), ("SDR", 2), ("DDR", 2), ("LPDDR", 2), ("DDR2", 2), ("DDR3", 2), ("DDR3", 4), ("DDR4", 4)]
_CACHE = {}
_CACHE_ORDER = []


def cfg_key(cfg):
    return json.dumps(cfg, sort_keys=True)


def get_sim(cfg, backend="fast"):
    if backend == "migen":
        dut = CoreDUT(cfg)
        return dut, MigenSim(dut, clocks_of(cfg))
    k = cfg_key(cfg)
    ent = _CACHE.get(k)
    if ent is None:
        dut = CoreDUT(cfg)
        comp = compile_dut(dut, clocks_of(cfg))
        ent = _CACHE[k] = (dut, comp)
        _CACHE_ORDER.append(k)
        if len(_CACHE_ORDER) > 6:
            _CACHE.pop(_CACHE_ORDER.pop(0), None)
    dut, comp = ent
    return dut, FastSim(comp)


def addrmap_of(cfg):
    W = cfg["dfi_databits"] * cfg["nphases"]
    return AddrMap(cfg["bankbits"], cfg["rowbits"], cfg["colbits"], address_align(cfg), cfg.get("nranks", 1),
                   data_bytes=W // 8, bank_byte_alignment=cfg.get("ctrl", {}).get("bank_byte_alignment", 0))


def word_width(cfg):
    return cfg["dfi_databits"] * cfg["nphases"]


def wl_blc(cfg):
    """write latency (DRAM clocks, command to first data) and burst duration in DRAM clocks"""
    mt = cfg["memtype"]
    bl = burst_length(cfg)
    if mt == "SDR":
        return 0, bl
    if mt in ("DDR", "LPDDR"):
        return 1, bl // 2
    return (cfg.get("cwl") if cfg.get("cwl") is not None else cfg["cl"]), bl // 2


# ---------------------------------------------------------------------------------------------------
# configuration strategies
@st.composite
def synth_timing(draw, refresh=None):
    tRP = draw(st.integers(1, 4))
    tRAS = draw(st.one_of(st.none(), st.integers(1, 9)))
    t = dict(
        tRP=tRP, tRCD=draw(st.integers(1, 4)), tWR=draw(st.integers(1, 4)), tWTR=draw(st.integers(1, 4)),
        tREFI=draw(st.integers(100, 400)), tRFC=draw(st.integers(2, 12)),
        tFAW=draw(st.one_of(st.none(), st.integers(2, 14))), tCCD=draw(st.integers(1, 4)),
        tRRD=draw(st.one_of(st.none(), st.integers(1, 4))),
        tRAS=tRAS, tRC=None if tRAS is None else tRAS + tRP - draw(st.integers(0, 1)),
        tZQCS=draw(st.one_of(st.none(), st.integers(4, 16))))
    if t["tRC"] is not None and t["tRC"] < 1:
        t["tRC"] = 1
    return t


@st.composite
def phy_part(draw, memtype, nph):
    if memtype in ("SDR", "DDR", "LPDDR"):
        cl, cwl = draw(st.integers(2, 3)), None
    elif memtype == "DDR2":
        cl = draw(st.integers(3, 7))
        cwl = cl - 1
    elif memtype == "DDR3":
        cl, cwl = draw(st.integers(5, 14)), draw(st.integers(5, 10))
    else:
        cl, cwl = draw(st.integers(9, 18)), draw(st.integers(9, 14))
    return dict(memtype=memtype, nphases=nph, dfi_databits=draw(st.sampled_from([8, 16, 32])),
                rdphase=draw(st.integers(0, nph - 1)), wrphase=draw(st.integers(0, nph - 1)), cl=cl, cwl=cwl,
                read_latency=draw(st.integers(2, 10)), write_latency=draw(st.integers(0, 3)))


@st.composite
def ctrl_part(draw, refresh=None, zqcs_ok=True, auto_precharge=None):
    c = dict(cmd_buffer_depth=draw(st.sampled_from([2, 4, 8, 16, 3, 1])), cmd_buffer_buffered=draw(st.booleans()),
             read_time=draw(st.sampled_from([0, 2, 3, 8, 32])), write_time=draw(st.sampled_from([0, 2, 3, 8, 16])),
             with_refresh=draw(st.booleans()) if refresh is None else refresh,
             refresh_postponing=draw(st.integers(1, 8)),
             with_auto_precharge=draw(st.booleans()) if auto_precharge is None else auto_precharge)
    c["zq_period"] = draw(st.integers(150, 900))
    return c


def finish_ctrl(cfg):
    """zq_period is a harness-level knob -> refresh_zqcs_freq"""
    c = cfg["ctrl"]
    zp = c.pop("zq_period", None)
    if zp:
        c["refresh_zqcs_freq"] = cfg.get("clk_freq", 100e6) / zp
    return cfg


@st.composite
def core_cfg(draw, nports=None, ranks=None, refresh=None, auto_precharge=None, memtypes=None, max_bankbits=3):
    memtype, nph = draw(st.sampled_from(memtypes or MEMTYPES))
    cfg = draw(phy_part(memtype, nph))
    align = address_align(cfg)
    cfg["nranks"] = draw(st.sampled_from([1, 1, 2])) if ranks is None else ranks
    cfg["bankbits"] = draw(st.integers(1, 4 if memtype == "DDR4" and max_bankbits >= 3 else max_bankbits))
    cfg["colbits"] = draw(st.integers(max(8, align + 1), 12))
    # the address bus (max(rowbits, colbits) wide) must be able to carry A10 and, for colbits > 10, the column bits that
    # travel above A10: rowbits >= 11 and rowbits >= colbits + 1 (true of every real device)
    cfg["rowbits"] = draw(st.integers(max(11, cfg["colbits"] + 1 if cfg["colbits"] > 10 else 11), 14))
    cfg["clk_freq"] = 100e6
    cfg["timing"] = draw(synth_timing())
    cfg["ctrl"] = draw(ctrl_part(refresh=refresh, auto_precharge=auto_precharge))
    W = word_width(cfg)
    if draw(st.integers(0, 3)) == 0:
        # bank byte alignment: power of two from one data word up to the row-column space of one rank
        lo = 0
        hi = cfg["rowbits"] + cfg["colbits"] - align
        cfg["ctrl"]["bank_byte_alignment"] = (W // 8) << draw(st.integers(lo, hi))
    n = draw(st.sampled_from([1, 2, 2, 3, 3, 4, 8])) if nports is None else nports
    cfg["ports"] = [{} for _ in range(n)]
    return finish_ctrl(cfg)


# ---------------------------------------------------------------------------------------------------
# stimulus strategies
STYLES = ["mixed", "mixed", "mixed", "writes", "reads", "alternate", "stream"]


@st.composite
def loc_pool(draw, cfg, n=None):
    nb = 1 << cfg["bankbits"]
    nr = cfg.get("nranks", 1)
    align = address_align(cfg)
    ncolw = 1 << (cfg["colbits"] - align)
    nrows = 1 << cfg["rowbits"]
    n = n or draw(st.integers(2, 10))
    row_choices = [0, 1, 2, 3, nrows - 1, nrows >> 1, 5]
    col_choices = [0, 1, 2, ncolw - 1, ncolw >> 1, 3]
    if cfg["colbits"] > 10:
        col_choices += [(1 << (10 - align)), (1 << (10 - align)) + 1, (1 << (10 - align)) - 1]
    col_choices = [c for c in col_choices if c < ncolw]
    pool = [(draw(st.integers(0, nr - 1)), draw(st.integers(0, nb - 1)), draw(st.sampled_from(row_choices)), draw(st.sampled_from(col_choices)))]
    while len(pool) < n:
        base = pool[draw(st.integers(0, len(pool) - 1))]
        kind = draw(st.sampled_from(["col", "row", "bank", "rank", "col", "row", "any"]))
        rk, bk, rw, cl = base
        if kind == "col":
            cl = draw(st.sampled_from(col_choices))
        elif kind == "row":
            rw = draw(st.sampled_from(row_choices))
        elif kind == "bank":
            bk = draw(st.integers(0, nb - 1))
        elif kind == "rank":
            rk = draw(st.integers(0, nr - 1))
        else:
            rk, bk, rw, cl = draw(st.integers(0, nr - 1)), draw(st.integers(0, nb - 1)), draw(st.integers(0, nrows - 1)), draw(st.integers(0, ncolw - 1))
        pool.append((rk, bk, rw, cl))
    return pool


@st.composite
def port_ops(draw, cfg, pool, max_ops=40, style=None, min_ops=1):
    W = word_width(cfg)
    nbytes = W // 8
    am = addrmap_of(cfg)
    align = address_align(cfg)
    style = style or draw(st.sampled_from(STYLES))
    n = draw(st.integers(min_ops, max_ops))
    full = (1 << nbytes) - 1
    ops = []
    stream_loc = draw(st.integers(0, len(pool) - 1))
    for k in range(n):
        if style == "writes":
            we = 1
        elif style == "reads":
            we = 0
        elif style == "alternate":
            we = k & 1
        else:
            we = draw(st.integers(0, 1))
        if style == "stream":
            li = stream_loc if draw(st.integers(0, 9)) else draw(st.integers(0, len(pool) - 1))
        else:
            li = draw(st.integers(0, len(pool) - 1))
        rk, bk, rw, cw = pool[li]
        op = dict(we=we, addr=am.encode(rk, bk, rw, cw << align), gap=draw(st.sampled_from([0, 0, 0, 0, 0, 1, 2, 7, 25])))
        if k == 0:
            op["gap"] = draw(st.sampled_from([0, 0, 3, 17, 60, 95, 130]))
        if we:
            op["data"] = draw(st.integers(0, (1 << W) - 1))
            op["be"] = full if draw(st.integers(0, 2)) else draw(st.integers(0, full))
            op["lead"] = draw(st.sampled_from([0, 0, 0, 1, 3]))
        ops.append(op)
    return ops


@st.composite
def core_stim(draw, cfg, max_ops=40):
    pool = draw(loc_pool(cfg))
    return dict(pool=[list(p) for p in pool], ports=[draw(port_ops(cfg, pool, max_ops)) for _ in cfg["ports"]])


# ---------------------------------------------------------------------------------------------------
class CoreRun:
    pass


def make_dram(cfg, dut, req=None):
    WL, BLc = wl_blc(cfg)
    return RefDRAM(dut.dfi, nphases=cfg["nphases"], nranks=cfg.get("nranks", 1), bankbits=cfg["bankbits"], rowbits=cfg["rowbits"],
                   colbits=cfg["colbits"], align=address_align(cfg), dfi_databits=cfg["dfi_databits"],
                   read_latency=cfg["read_latency"], write_latency=cfg["write_latency"], rdphase=cfg["rdphase"], wrphase=cfg["wrphase"],
                   req=req, WL=WL, BLc=BLc)


def observed_signals(dut):
    sigs = []
    for ph in dut.dfi.phases:
        sigs += [ph.cs_n, ph.ras_n, ph.cas_n, ph.we_n, ph.bank, ph.address, ph.wrdata, ph.wrdata_mask, ph.wrdata_en, ph.rddata_en]
    for p in dut.ports:
        sigs += [p.cmd.ready, p.wdata.ready, p.rdata.valid, p.rdata.data]
    return sigs


def default_cap(cfg, stim):
    nops = sum(len(o) for o in stim["ports"])
    gaps = sum(op.get("gap", 0) for o in stim["ports"] for op in o)
    lu = max(stim.get("loop_until") or [0])
    if lu:
        return int(lu * 3 + 3000 + nops * 40)
    t = cfg["timing"]
    per = (t["tRP"] + t["tRCD"] + (t.get("tRC") or 0) + t["tWR"] + t["tWTR"] + (t.get("tFAW") or 0) + cfg["read_latency"] + 12)
    ref = 0
    c = cfg.get("ctrl", {})
    if c.get("with_refresh", True):
        ref = (t["tRFC"] + t["tRP"] + (t.get("tZQCS") or 0) + 8) * c.get("refresh_postponing", 1)
    base = 600 + gaps + nops * per * 3
    base += (base // max(100, t["tREFI"]) + 2) * ref * 2
    return int(base)


def run_core(cfg, stim, backend="fast", req=None, max_cycles=None, trace=None, min_cycles=0, tail=12, probe=None):
    dut, sim = get_sim(cfg, backend)
    loops = stim.get("loop_until") or [0] * len(dut.ports)
    masters = [NativeMaster(p, ops, name="p%d" % i, loop_until=lu) for i, (p, ops, lu) in enumerate(zip(dut.ports, stim["ports"], loops))]
    dram = make_dram(cfg, dut, req)
    cap = max_cycles or max(default_cap(cfg, stim), min_cycles + 400)
    obs = observed_signals(dut) if trace is not None else None
    quiet = 0
    t = 0
    done = False
    while t < cap:
        if obs is not None:
            trace.append([sim.get(s) for s in obs])
        w = dram.cycle(sim, t)
        for m in masters:
            w += m.cycle(sim, t)
        if probe is not None:
            probe(dut, sim, t)
        sim.step(w)
        t += 1
        if all(m.idle() and m.reads_out <= 0 for m in masters) and dram.quiescent():
            quiet += 1
            if quiet >= tail and t >= min_cycles:
                done = True
                break
        else:
            quiet = 0
    r = CoreRun()
    r.cfg, r.stim, r.dut, r.sim, r.masters, r.dram, r.cycles, r.completed, r.cap = cfg, stim, dut, sim, masters, dram, t, done, cap
    r.am = addrmap_of(cfg)
    r.backend = backend
    return r


def diff_selftest(cfg, stim, ncycles=250):
    """run the same case on both simulators and compare every observed signal on every cycle"""
    ta, tb = [], []
    ra = run_core(cfg, stim, "fast", trace=ta, max_cycles=ncycles, tail=10**9)
    rb = run_core(cfg, stim, "migen", trace=tb, max_cycles=ncycles, tail=10**9)
    n = min(len(ta), len(tb))
    for c in range(n):
        if ta[c] != tb[c]:
            bad = [i for i in range(len(ta[c])) if ta[c][i] != tb[c][i]]
            raise HarnessError("fastsim differs from migen.sim at cycle %d signal indexes %s cfg=%s" % (c, bad[:5], cfg_key(cfg)))
    return n


# ---------------------------------------------------------------------------------------------------
# oracles
def accepted_events(run):
    ev = []
    for pi, m in enumerate(run.masters):
        for k, t in enumerate(m.accept_t):
            if t is not None:
                ev.append((t, pi, k))
    ev.sort()
    return ev


def _apply_be(old, data, be, nbytes):
    for b in range(nbytes):
        if (be >> b) & 1:
            old = (old & ~(0xff << (8 * b))) | (data & (0xff << (8 * b)))
    return old


def oracle_c01(run):
    """reference memory in command-acceptance order; returns (findings, classes)"""
    fs = []
    cfg = run.cfg
    W = word_width(cfg)
    nbytes = W // 8
    am = run.am
    align = am.align
    ref = {}
    written = set()
    expected = [[] for _ in run.masters]
    classes = set()
    last_writer = {}      # addr -> (port, partial, refs_at_write, bank rows touched since)
    full = (1 << nbytes) - 1
    refs = run.dram.refs
    nph = cfg["nphases"]
    for t, pi, k in accepted_events(run):
        op = run.masters[pi].ops[k]
        a = op["addr"]
        rk, bk, rw, col = am.decode(a)
        loc = (rk, bk, rw, col >> align)
        cur = ref.get(a)
        if cur is None:
            cur = background(loc, W, run.dram.salt)
        if op["we"]:
            ref[a] = _apply_be(cur, op["data"], op["be"], nbytes)
            written.add(a)
            last_writer[a] = (pi, op["be"] != full and op["be"] != 0, t)
        else:
            expected[pi].append((k, cur, a))
            lw = last_writer.get(a)
            if lw is not None:
                if lw[0] != pi:
                    classes.add("raw_cross_port")
                if lw[1]:
                    classes.add("raw_partial_be")
                if any(lw[2] * nph <= r <= t * nph for r in refs):
                    classes.add("raw_across_refresh")
                classes.add("raw")
    for pi, m in enumerate(run.masters):
        exp = expected[pi]
        got = m.r_log
        if m.w_lost:
            fs.append(dict(clause="C01.wdata_ready_without_data", key="port%d" % pi, what="wdata.ready pulsed at cycle %d while the conforming master had no write outstanding" % m.w_lost[0]))
        nacc_w = sum(1 for k, t in enumerate(m.accept_t) if t is not None and m.ops[k]["we"])
        if run.completed and len(m.w_taken) != nacc_w:
            fs.append(dict(clause="C01.write_strobe_count", key="port%d" % pi, what="%d write commands accepted, %d wdata.ready strobes" % (nacc_w, len(m.w_taken))))
        if len(got) > len(exp) or (run.completed and len(got) != len(exp)):
            fs.append(dict(clause="C01.read_beat_count", key="port%d" % pi, what="%d reads accepted, %d data beats returned" % (len(exp), len(got))))
        for j in range(min(len(exp), len(got))):
            k, val, a = exp[j]
            tg, dg = got[j]
            if dg != val:
                diff = val ^ dg
                bad = [b for b in range(nbytes) if (diff >> (8 * b)) & 0xff]
                fs.append(dict(clause="C01.read_data", key="port%d" % pi,
                               what="port %d read #%d (op %d, addr 0x%x -> %s) returned 0x%x expected 0x%x (bytes %s differ)" % (pi, j, k, a, am.decode(a), dg, val, bad)))
                break
    if not run.completed:
        fs.append(dict(clause="C01.incomplete", key="cap", what="case did not finish within %d cycles" % run.cap))
    else:
        exp_locs = {}
        for a in written:
            rk, bk, rw, col = am.decode(a)
            exp_locs[(rk, bk, rw, col >> align)] = (a, ref[a])
        for loc, (a, v) in exp_locs.items():
            dv = run.dram.loc_value(loc)
            if dv != v:
                fs.append(dict(clause="C01.final_memory", key="loc", what="DRAM location %s (addr 0x%x) holds 0x%x, reference 0x%x" % (loc, a, dv, v)))
                break
        for loc, dv in run.dram.mem.items():
            if loc not in exp_locs and dv != background(loc, W, run.dram.salt):
                fs.append(dict(clause="C01.stray_write", key="loc", what="DRAM location %s changed but no write addressed it" % (loc,)))
                break
    return fs, classes


def oracle_c02(run):
    """state legality (from the reference DRAM) + every RD/WR explained by the oldest outstanding request of its bank"""
    fs = []
    classes = set()
    dram = run.dram
    for f in dram.findings:
        if f["clause"].startswith("C02.") or f["clause"].startswith("HARNESS."):
            g = dict(f)
            g["key"] = f["clause"]
            g["what"] = "%s at DRAM clock %s: %s" % (f["clause"], f["t"], {k: v for k, v in f.items() if k not in ("clause", "t")})
            fs.append(g)
    am = run.am
    per_bank = {}
    for t, pi, k in accepted_events(run):
        op = run.masters[pi].ops[k]
        rk, bk, rw, col = am.decode(op["addr"])
        per_bank.setdefault((rk, bk), []).append((bool(op["we"]), rw, col, pi, k))
    seen = {}
    for (t, kind, rk, bk, row, col, ap) in dram.rw_log:
        lst = per_bank.get((rk, bk), [])
        i = seen.get((rk, bk), 0)
        seen[(rk, bk)] = i + 1
        if i >= len(lst):
            fs.append(dict(clause="C02.unrequested_access", key="rw", what="%s at t=%d on rank %d bank %d has no outstanding request" % (kind, t, rk, bk)))
            break
        we, rw, c, pi, k = lst[i]
        if we != (kind == "WR") or rw != row or c != col:
            fs.append(dict(clause="C02.access_mismatch", key="rw",
                           what="%s at t=%d rank %d bank %d open row %d col %d, but oldest outstanding request (port %d op %d) is %s row %d col %d" % (
                               kind, t, rk, bk, row, col, pi, k, "WR" if we else "RD", rw, c)))
            break
    if run.completed:
        for key, lst in per_bank.items():
            if seen.get(key, 0) != len(lst):
                fs.append(dict(clause="C02.request_not_performed", key="rw", what="bank %s: %d requests accepted, %d accesses on DFI" % (key, len(lst), seen.get(key, 0))))
                break
    # classes
    nref = len(dram.refs)
    if cfgget(run.cfg, "nranks", 1) == 2 and len(set(r for (_, _, r, _, _, _, _) in dram.rw_log)) == 2:
        classes.add("both_ranks")
    if any(ap for (*_, ap) in dram.rw_log):
        classes.add("auto_precharge")
    if nref:
        classes.add("refresh")
    # refresh while >= 2 banks were open: look at cmds
    openb = set()
    for (t, kind, ranks, bank, addr) in dram.cmds:
        if kind == "ACT":
            openb.add((ranks, bank))
        elif kind in ("RD", "WR") and (addr >> 10) & 1:
            openb.discard((ranks, bank))
        elif kind == "PRE":
            if (addr >> 10) & 1:
                if len(openb) >= 2:
                    classes.add("prea_with_2_open")
                openb.clear()
            else:
                openb.discard((ranks, bank))
    return fs, classes


def cfgget(cfg, k, d):
    return cfg.get(k, d)


def oracle_c03(run):
    fs = []
    for f in run.dram.findings:
        if f["clause"].startswith("C03."):
            g = dict(f)
            rule = f["clause"][4:]
            g["key"] = "%s/%s" % (rule, f.get("cmd", "PREA" if f.get("all") else ""))
            g["what"] = "%s: %s clocks between commands at t=%s and t=%s, datasheet needs %s (%s)" % (
                rule, f["delta"], f["t_from"], f["t"], f["need"], {k: v for k, v in f.items() if k not in ("clause", "t", "t_from", "delta", "need")})
            fs.append(g)
    return fs


def latency_stats(run):
    """per op: offer->accept and accept->data-phase latencies (cycles)"""
    out = []
    for pi, m in enumerate(run.masters):
        wt = {k: t for t, k in m.w_taken}
        rd_idx = 0
        for k, op in enumerate(m.ops):
            ta = m.accept_t[k]
            to = m.offer_t[k]
            if op["we"]:
                td = wt.get(k)
            else:
                td = m.r_log[rd_idx][0] if ta is not None and rd_idx < len(m.r_log) else None
                if ta is not None:
                    rd_idx += 1
            out.append((pi, k, to, ta, td))
    return out
