"""Avalon-MM master driver, bridge test bench and oracle for C11 (LiteDRAMAvalonMM2Native).

The master is a per-cycle Python object like the drivers of lib/native.py: `cycle(sim, t)` looks at the settled values of
cycle t and returns the writes to apply at the next edge.  Everything it does comes from the op list (no RNG, no clock).

What the master holds and what it does not (Avalon Interface Specifications, "Avalon Memory-Mapped Interfaces",
sections "waitrequest", "Write Bursts", "Read Bursts", "Pipelined Read Transfer with Variable Latency"):
  * while `read` or `write` is asserted and `waitrequest` is high, EVERY master output (address, burstcount, byteenable,
    writedata, read, write) is kept unchanged until the cycle in which waitrequest is sampled low;
  * address and burstcount of a burst are presented on its first beat (and held for as long as that beat is stalled);
    the agent has to capture them there.  On later beats of a write burst they are don't-care: the master drives, depending
    on the op's `later` field, the same values ("hold"), the same address with burstcount 0 as LiteX's own
    AvalonMMInterface.bus_write does ("bc0"), or unrelated values ("junk"); inside one stalled beat they stay constant;
  * `write` may be low for any number of cycles between two beats of a write burst; that only delays the burst.  writedata
    and byteenable are per beat; a write burst is never interleaved with another command of the same master;
  * a read command (single or burst) is complete for the master once accepted; it may present its next command in the next
    cycle while read data is still outstanding (pipelined reads): the agent throttles with waitrequest.  Ops with `wait`
    model a master that first collects all outstanding read data.
"""
import json
from hypothesis import strategies as st
import lib.compat  # noqa
from migen import *
from lib.fastsim import FastSim, MigenSim, compile_dut, HarnessError
from lib.native import native_slave, slave_style, NativeSlave

_CACHE = {}


# ---------------------------------------------------------------------------------------------------
# device
class AvalonDUT(Module):
    """cfg: {avl_dw, port_dw, port_aw, base (byte address), max_burst, inc}"""
    def __init__(self, cfg):
        from litex.soc.interconnect.avalon import AvalonMMInterface
        from litedram.common import LiteDRAMNativePort
        from litedram.frontend.avalon import LiteDRAMAvalonMM2Native
        self.avalon = AvalonMMInterface(data_width=cfg["avl_dw"], adr_width=30)
        self.port = LiteDRAMNativePort("both", address_width=cfg.get("port_aw", 30), data_width=cfg["port_dw"])
        self.submodules.bridge = LiteDRAMAvalonMM2Native(self.avalon, self.port, max_burst_length=cfg["max_burst"],
                                                         base_address=cfg.get("base", 0), burst_increment=cfg.get("inc", 1))


def get_sim(cfg, backend="fast"):
    if backend == "migen":
        dut = AvalonDUT(cfg)
        return dut, MigenSim(dut, {"sys": 10})
    k = json.dumps(cfg, sort_keys=True)
    ent = _CACHE.get(k)
    if ent is None:
        if len(_CACHE) > 8:
            _CACHE.clear()
        dut = AvalonDUT(cfg)
        ent = _CACHE[k] = (dut, compile_dut(dut, {"sys": 10}))
    return ent[0], FastSim(ent[1])


def word_offset(cfg):
    """Avalon word address of the first word of the memory (addresses are word addresses, as in test_avalon.py)"""
    return cfg.get("base", 0) // (cfg["avl_dw"] // 8)


# ---------------------------------------------------------------------------------------------------
# master
class AvalonMaster:
    """ops: list of
         {kind: "w", addr, data: [..], be: [..], gaps: [..], gap, wait, later}   write, burstcount = len(data)
         {kind: "r", addr, n, be, gap, wait}                                      read, burstcount = n
       addr  : Avalon word address;  gap: idle cycles before the command is first presented
       gaps  : gaps[k] = cycles with write low before beat k (k >= 1) of a write burst
       wait  : do not present this command before every outstanding readdatavalid beat has arrived
       later : what address/burstcount show on beats >= 1 of a write burst: "hold" | "bc0" | "junk"
    idle_clear: drive address/burstcount/byteenable/writedata to 0 between commands (else they keep their last value)."""

    def __init__(self, bus, ops, idle_clear=False):
        self.bus = bus
        self.ops = ops
        self.idle_clear = idle_clear
        self.i = 0                 # current op
        self.beat = 0              # next beat of the current write burst
        self.presenting = False
        self.gap = ops[0].get("gap", 0) if ops else 0
        self.accepts = []          # (t, op index, beat index) for writes, (t, op index, None) for reads
        self.present_t = {}        # (op, beat) -> first cycle the beat was visible
        self.r_log = []            # (t, data)
        self.r_expected = 0        # read beats owed by accepted read commands
        self.held_cycles = 0       # cycles a command/beat was held under waitrequest
        self.spurious_rdv = []     # t of readdatavalid with no read beat owed

    # -- helpers
    def done(self):
        return self.i >= len(self.ops) and not self.presenting

    def idle(self):
        return self.done() and len(self.r_log) >= self.r_expected

    def in_write_burst(self):
        """(op index, beats accepted) while between 1 and n-1 beats of a write burst have been accepted"""
        if self.i < len(self.ops) and self.beat > 0:
            return self.i, self.beat
        return None

    def _junk(self, op, k):
        x = (op["addr"] * 2654435761 + k * 40503 + 12345) & 0x3fffffff
        return x, ((x >> 7) % 255) + 1

    def _drive_beat(self, w):
        b = self.bus
        op = self.ops[self.i]
        if op["kind"] == "r":
            w += [(b.address, op["addr"]), (b.burstcount, op["n"]), (b.byteenable, op["be"]), (b.read, 1), (b.write, 0)]
            return
        k = self.beat
        n = len(op["data"])
        if k == 0 or op.get("later", "hold") == "hold":
            a, bc = op["addr"], n
        elif op["later"] == "bc0":
            a, bc = op["addr"], 0
        else:
            a, bc = self._junk(op, k)
        w += [(b.address, a), (b.burstcount, bc), (b.byteenable, op["be"][k]), (b.writedata, op["data"][k]), (b.write, 1), (b.read, 0)]

    def cycle(self, sim, t):
        b = self.bus
        g = sim.get
        w = []
        if g(b.readdatavalid):
            if len(self.r_log) >= self.r_expected:
                self.spurious_rdv.append(t)
            self.r_log.append((t, g(b.readdata)))
        just_accepted = False
        if self.presenting:
            if g(b.waitrequest):
                self.held_cycles += 1
                return w               # everything stays as it is
            op = self.ops[self.i]
            just_accepted = True
            self.presenting = False
            if op["kind"] == "r":
                self.accepts.append((t, self.i, None))
                self.r_expected += op["n"]
                self.i += 1
                self.beat = 0
            else:
                self.accepts.append((t, self.i, self.beat))
                self.beat += 1
                if self.beat >= len(op["data"]):
                    self.i += 1
                    self.beat = 0
                else:
                    self.gap = op["gaps"][self.beat]
            if self.beat == 0 and self.i < len(self.ops):
                self.gap = self.ops[self.i].get("gap", 0)
        # decide what to show in the next cycle
        if self.i < len(self.ops):
            op = self.ops[self.i]
            blocked = self.beat == 0 and op.get("wait") and len(self.r_log) < self.r_expected
            if self.gap > 0:
                self.gap -= 1
            elif not blocked:
                self.presenting = True
                self.present_t[(self.i, self.beat)] = t + 1
                self._drive_beat(w)
                return w
        if just_accepted or t == 0:
            w += [(b.read, 0), (b.write, 0)]
            if self.idle_clear and self.beat == 0:
                w += [(b.address, 0), (b.burstcount, 0), (b.byteenable, 0), (b.writedata, 0)]
        return w


# ---------------------------------------------------------------------------------------------------
# reference memory: bytes of the native port's address space
class RefBytes:
    def __init__(self, cfg, bg):
        self.cfg = cfg
        self.bg = bg
        self.ab = cfg["avl_dw"] // 8
        self.pb = cfg["port_dw"] // 8
        self.off = word_offset(cfg)
        self.mem = {}
        self.touched = set()      # native word addresses written

    def byte(self, ba):
        v = self.mem.get(ba)
        if v is None:
            v = (self.bg(ba // self.pb, self.cfg["port_dw"]) >> (8 * (ba % self.pb))) & 0xff
        return v

    def read(self, aaddr):
        base = (aaddr - self.off) * self.ab
        return sum(self.byte(base + i) << (8 * i) for i in range(self.ab))

    def write(self, aaddr, data, be):
        base = (aaddr - self.off) * self.ab
        for i in range(self.ab):
            if (be >> i) & 1:
                self.mem[base + i] = (data >> (8 * i)) & 0xff
                self.touched.add((base + i) // self.pb)

    def native_word(self, na):
        return sum(self.byte(na * self.pb + i) << (8 * i) for i in range(self.pb))

    def footprint(self, aaddr):
        base = (aaddr - self.off) * self.ab
        return range(base // self.pb, (base + self.ab - 1) // self.pb + 1)


# ---------------------------------------------------------------------------------------------------
class AvalonRun:
    pass


def beat_addr(cfg, op, k):
    return op["addr"] + k * cfg.get("inc", 1)


def cycle_cap(cfg, stim):
    """(total cap, silence bound).  A live bridge produces an event on one of the two interfaces (beat accepted, readdatavalid, native command or
    data strobe, master gap counting down) at least every stall + latency + converter shifting cycles; `silence` is 4x that plus 250."""
    sl = stim.get("slave", {})
    down = max(1, cfg["avl_dw"] // cfg["port_dw"])
    up = max(1, cfg["port_dw"] // cfg["avl_dw"])
    per_cmd = max((sl.get("wlat") or [3]) + (sl.get("rlat") or [5])) + sum(sl.get("ready") or [0]) + sl.get("qmax", 8) + 12
    per_beat = down * per_cmd + 4 * up + 8
    cap = 400
    for op in stim["ops"]:
        n = len(op["data"]) if op["kind"] == "w" else op["n"]
        cap += op.get("gap", 0) + sum(op.get("gaps", [])) + 3 * n * per_beat + 60
    return cap, 250 + 4 * per_cmd + 8 * up


def run_bridge(cfg, stim, backend="fast", max_cycles=None, trace=None):
    dut, sim = get_sim(cfg, backend)
    sl = stim.get("slave", {})
    slave = native_slave([dut.port], sl)
    master = AvalonMaster(dut.avalon, stim["ops"], idle_clear=stim.get("idle_clear", False))
    fsm = dut.bridge.fsm
    enc = fsm.encoding
    S_START, S_BW, S_BR = enc["START"], enc["BURST_WRITE"], enc["BURST_READ"]
    cap, silence = cycle_cap(cfg, stim)
    cap = max_cycles or cap
    last_sig, last_progress = None, 0
    qneed = 40 + 8 * max(1, cfg["port_dw"] // cfg["avl_dw"])
    t = 0
    quiet = 0
    done = False
    prev_state = S_START
    prev_burst = None
    early_exit = []             # (t, op, beats accepted): BURST_WRITE -> START while the master's burst still has beats to give
    stall_in_burst = 0
    port = dut.port
    obs = None
    if trace is not None:
        a = dut.avalon
        obs = [a.waitrequest, a.readdatavalid, a.readdata, port.cmd.valid, port.cmd.we, port.cmd.addr, port.wdata.valid, port.wdata.data,
               port.wdata.we, port.rdata.ready, fsm.state]
    while t < cap:
        state = sim.get(fsm.state)
        if obs is not None:
            trace.append([sim.get(s) for s in obs])
        if prev_state == S_BW and state == S_START and prev_burst is not None:
            # decided in cycle t-1, when the master's burst had 1..n-1 beats accepted (including cycle t-1)
            early_exit.append((t, prev_burst[0], prev_burst[1]))
        if state in (S_BW, S_BR) and sim.get(port.cmd.valid) and not sim.get(port.cmd.ready):
            stall_in_burst += 1
        prev_state = state
        w = slave.cycle(sim, t)
        w += master.cycle(sim, t)
        prev_burst = master.in_write_burst()
        sim.step(w)
        t += 1
        if master.idle() and slave.idle():
            quiet += 1
            if quiet >= qneed:
                done = True
                break
        else:
            quiet = 0
            sig = (len(master.accepts), len(master.r_log), len(slave.log), master.gap)
            if sig != last_sig:
                last_sig, last_progress = sig, t
            elif t - last_progress > silence:
                break               # nothing has happened on either interface for `silence` cycles with work outstanding
    if hasattr(slave, "finish"):
        slave.finish(t)
    r = AvalonRun()
    r.cfg, r.stim, r.dut, r.master, r.slave, r.cycles, r.completed = cfg, stim, dut, master, slave, t, done
    r.early_exit = early_exit
    r.silent = t - last_progress
    r.stall_in_burst = stall_in_burst
    r.final_state = sim.get(fsm.state)
    r.state_names = {v: k for k, v in enc.items()}
    # internals used only to NAME the cause of a failure that the black-box oracle has already established
    r.final = dict(state=r.state_names.get(r.final_state), cmd_fifo=sim.get(dut.bridge.cmd_fifo.level), wdata_fifo=sim.get(dut.bridge.wdata_fifo.level), conv=None)
    conv = getattr(getattr(dut.bridge, "converter", None), "converter", None)
    if conv is not None and hasattr(conv, "fsm"):
        cn = {v: k for k, v in conv.fsm.encoding.items()}
        r.final["conv"] = cn.get(sim.get(conv.fsm.state))
    return r


def oracle(run, P="C11"):
    """byte-accurate reference in command (= acceptance) order.  Returns the list of findings."""
    cfg, m, s = run.cfg, run.master, run.slave
    ops = m.ops
    ref = RefBytes(cfg, s.bg)
    fs = []
    acc_w = {}
    acc_r = set()
    for (t, i, k) in m.accepts:
        if k is None:
            acc_r.add(i)
        else:
            acc_w.setdefault(i, []).append(k)
    expected = []                 # (op, beat, address, data)
    nat_w = nat_r = 0             # native commands owed (exact when the Avalon side is not narrower than the port)
    down = max(1, cfg["avl_dw"] // cfg["port_dw"])
    foot = set()
    for i, op in enumerate(ops):
        if op["kind"] == "w":
            for k in acc_w.get(i, []):
                a = beat_addr(cfg, op, k)
                ref.write(a, op["data"][k], op["be"][k])
                nat_w += down
                for na in ref.footprint(a):
                    foot.add((na, 1))
        elif i in acc_r:
            for k in range(op["n"]):
                a = beat_addr(cfg, op, k)
                expected.append((i, k, a, ref.read(a)))
                nat_r += down
                for na in ref.footprint(a):
                    foot.add((na, 0))
    # a single access is offered to the native side while waitrequest is still high: count the beat being presented as allowed
    if m.presenting and m.i < len(ops):
        op = ops[m.i]
        for na in ref.footprint(beat_addr(cfg, op, m.beat if op["kind"] == "w" else 0)):
            foot.add((na, 1 if op["kind"] == "w" else 0))
    for e in s.lost:
        if e[0] == "W-extra":
            fs.append(dict(clause=P + ".extra_write_beat", key=e[0], what="stream-style native port: more write-data beats than write commands were put on the port (a beat is left over at the end of the run)"))
            break
        fs.append(dict(clause=P + ".lost_beat", key=e[0], what="native-side %s at cycle %d (native address 0x%x): the bridge was not %s when the one-cycle strobe arrived" % (
            e[0], e[1], e[3], "presenting write data" if e[0].startswith("W") else "ready for read data")))
        break
    got = m.r_log
    if m.spurious_rdv:
        fs.append(dict(clause=P + ".unexpected_readdatavalid", key="rdv", what="readdatavalid at cycle %d although every accepted read had already received all its beats (%d owed)" % (
            m.spurious_rdv[0], m.r_expected)))
    if len(got) > len(expected) or (run.completed and len(got) != len(expected)):
        fs.append(dict(clause=P + ".read_beat_count", key="count", what="accepted reads ask for %d beats in total, %d readdatavalid beats returned" % (len(expected), len(got))))
    for j in range(min(len(got), len(expected))):
        i, k, a, val = expected[j]
        if got[j][1] != val:
            fs.append(dict(clause=P + ".read_data", key="data", what="read beat #%d (op %d beat %d of %d, Avalon word address 0x%x) returned 0x%x at cycle %d, reference 0x%x" % (
                j, i, k, ops[i]["n"], a, got[j][1], got[j][0], val)))
            break
    if not run.completed:
        nacc = len(m.accepts)
        ntot = sum(len(op["data"]) if op["kind"] == "w" else 1 for op in ops)
        fs.append(dict(clause=P + ".hang", key="hang", what="work outstanding after %d cycles (no event on either interface during the last %d): %d of %d commands/beats accepted (op %d beat %d %s), %d of %d read beats returned, bridge state %s, native slave idle=%s" % (
            run.cycles, run.silent, nacc, ntot, m.i, m.beat, "held under waitrequest" if m.presenting else "not presented", len(got), len(expected),
            run.state_names.get(run.final_state, run.final_state), s.idle())))
    else:
        for na in sorted(ref.touched | set(s.mem)):
            sv = s.read_mem(na, cfg["port_dw"])
            rv = ref.native_word(na)
            if sv != rv:
                fs.append(dict(clause=P + ".final_memory", key="mem", what="native word 0x%x holds 0x%x after quiescence, reference 0x%x (xor 0x%x)" % (na, sv, rv, sv ^ rv)))
                break
        cw = sum(1 for e in s.log if e[0] == "C" and e[3])
        cr = sum(1 for e in s.log if e[0] == "C" and not e[3])
        if cfg["avl_dw"] >= cfg["port_dw"]:
            bad = (cw != nat_w, cr != nat_r)
        else:
            bad = (cw > nat_w, cr > nat_r)
        if bad[0]:
            fs.append(dict(clause=P + ".native_write_count", key="count", what="%d accepted write beats need %s%d native write commands, the bridge issued %d" % (
                nat_w // down, "" if cfg["avl_dw"] >= cfg["port_dw"] else "at most ", nat_w, cw)))
        if bad[1]:
            fs.append(dict(clause=P + ".native_read_count", key="count", what="%d accepted read beats need %s%d native read commands, the bridge issued %d" % (
                nat_r // down, "" if cfg["avl_dw"] >= cfg["port_dw"] else "at most ", nat_r, cr)))
    for e in s.log:
        if e[0] == "C" and (e[4], 1 if e[3] else 0) not in foot:
            fs.append(dict(clause=P + ".invented_command", key="cmd", what="native %s of address 0x%x at cycle %d matches no accepted Avalon beat" % ("write" if e[3] else "read", e[4], e[1])))
            break
    return fs


# ---------------------------------------------------------------------------------------------------
# stimulus
@st.composite
def slave_sched(draw):
    d = dict(ready=draw(st.sampled_from([None, None, [1, 1], [3, 2], [1, 5], [8, 1, 1, 3], [0, 6, 4, 1], [2, 9]])),
             wlat=draw(st.lists(st.integers(3, 14), min_size=1, max_size=4)),
             rlat=draw(st.lists(st.integers(5, 20), min_size=1, max_size=4)),
             qmax=draw(st.integers(1, 10)))
    d.update(slave_style(draw, st))
    return d


@st.composite
def avalon_ops(draw, cfg, max_ops=8, over_max=False, align=False):
    """align (only meaningful when the port is wider than the Avalon bus): every burst starts on a native word and ends on the last chunk
    of one (first address and burstcount * burst_increment are multiples of the width ratio)"""
    adw = cfg["avl_dw"]
    nb = adw // 8
    full = (1 << nb) - 1
    inc = cfg.get("inc", 1)
    maxb = cfg["max_burst"]
    off = word_offset(cfg)
    span = max(24, (maxb + 2) * inc)
    ratio = max(1, cfg["port_dw"] // adw)
    unit = ratio // inc if ratio % inc == 0 else ratio      # smallest burstcount with burstcount * inc a multiple of ratio
    nops = draw(st.integers(1, max_ops))
    # regions of the memory the accesses go to: the bottom, the very top, the middle ("all addresses": every address bit of the port is used);
    # memory size in Avalon words as the native port declares it, limited by the 30-bit Avalon word address of the test bench
    M = min((1 << cfg.get("port_aw", 30)) * cfg["port_dw"] // adw, (1 << 30) - off)
    span = min(span, M)
    al = ratio * 16
    regions = [0]
    if M > 2 * span:
        regions = draw(st.sampled_from([[0], [0], [M - span - (M - span) % al], [0, M - span - (M - span) % al], [(M // 2) - (M // 2) % al, 0],
                                        [M - span - (M - span) % al, (M // 4) * 3 - ((M // 4) * 3) % al]]))
    ops = []
    for _ in range(nops):
        kind = draw(st.sampled_from(["w", "r", "wb", "rb", "wb", "rb"]))
        if kind in ("w", "r"):
            n = 1
        else:
            hi = maxb
            if over_max and draw(st.integers(0, 3)) == 0:
                hi = min(255, 2 * maxb + 3)
            n = draw(st.one_of(st.integers(2, min(hi, 6)), st.integers(2, hi)))
            if align:
                n -= n % unit
                if n < 2:
                    n = unit if 2 <= unit <= hi else 1
        if n > (M // 2 - 1) // inc:
            n = max(1, (M // 2 - 1) // inc)
            if align and n > 1:
                n -= n % unit
                if n < 2:
                    n = 1
        room = span - 1 - (n - 1) * inc
        a = draw(st.integers(0, room)) if room >= 0 else 0
        if align and n > 1:
            a -= a % ratio
        a += regions[draw(st.integers(0, len(regions) - 1))]
        over_end = a + (n - 1) * inc - (M - 1)      # the whole burst stays inside the memory
        if over_end > 0:
            a -= over_end + ((-over_end) % ratio if align else 0)
        if a < 0:
            raise HarnessError("generator: burst of %d beats does not fit a memory of %d Avalon words" % (n, M))
        a += off
        op = dict(kind=kind[0], addr=a, gap=draw(st.one_of(st.just(0), st.integers(0, 12))), wait=draw(st.integers(0, 3)) == 3)
        if kind[0] == "w":
            op["data"] = [draw(st.integers(0, (1 << adw) - 1)) for _ in range(n)]
            allfull = draw(st.integers(0, 2)) > 0
            op["be"] = [full if (allfull or draw(st.booleans())) else draw(st.integers(0, full)) for _ in range(n)]
            gappy = draw(st.integers(0, 2)) == 0
            op["gaps"] = [0] + [(draw(st.one_of(st.just(0), st.integers(0, 8), st.integers(0, 24))) if gappy else 0) for _ in range(n - 1)]
            op["later"] = draw(st.sampled_from(["hold", "hold", "bc0", "junk"]))
        else:
            op["n"] = n
            op["be"] = full if draw(st.integers(0, 2)) else draw(st.integers(0, full))
        ops.append(op)
    return ops


def classify(cfg, stim, run):
    cl = set()
    for op in stim["ops"]:
        if op["kind"] == "w":
            n = len(op["data"])
            if n > 1 and any(op["gaps"][1:]):
                cl.add("write_burst_with_idle_gap")
            if any(b not in (0, (1 << (cfg["avl_dw"] // 8)) - 1) for b in op["be"]):
                cl.add("partial_byteenable")
        else:
            n = op["n"]
        if n > cfg["max_burst"]:
            cl.add("burst_longer_than_fifo")
    if run.stall_in_burst:
        cl.add("native_stall_inside_burst")
    M = (1 << cfg.get("port_aw", 30)) * cfg["port_dw"] // cfg["avl_dw"]
    if any(op["addr"] - word_offset(cfg) >= M // 2 for op in stim["ops"]):
        cl.add("upper_half_of_the_memory")
    return cl
