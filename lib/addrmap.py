"""Independent port-address <-> DRAM-location map, written from the documentation of the mapping
(ControllerSettings.address_mapping = ROW_BANK_COL, bank_byte_alignment comment in core/controller.py,
crossbar docstring): column bits lowest, then the bank field (bank number low, rank above it), then the row;
with a bank byte alignment larger than a row of one bank the bank field moves up and the low row bits
sit below it.  Plain integer arithmetic, no Migen."""


def log2_exact(n):
    assert n > 0 and n & (n - 1) == 0, n
    return n.bit_length() - 1


class AddrMap:
    def __init__(self, bankbits, rowbits, colbits, align, nranks=1, data_bytes=None, bank_byte_alignment=0):
        self.bankbits, self.rowbits, self.colbits, self.align = bankbits, rowbits, colbits, align
        self.rankbits = log2_exact(nranks)
        self.colw = colbits - align                    # column bits present in a port address
        shift = self.colw
        if bank_byte_alignment:
            words = bank_byte_alignment // data_bytes
            shift = max(shift, log2_exact(words) if words >= 1 else 0)
        self.shift = shift
        self.bfw = bankbits + self.rankbits
        self.width = rowbits + self.colw + self.bfw

    def decode(self, a):
        """port address -> (rank, bank, row, col) ; col in DRAM column units (burst aligned)"""
        low = a & ((1 << self.shift) - 1)
        bf = (a >> self.shift) & ((1 << self.bfw) - 1)
        high = a >> (self.shift + self.bfw)
        rc = low | (high << self.shift)
        colword = rc & ((1 << self.colw) - 1)
        row = rc >> self.colw
        bank = bf & ((1 << self.bankbits) - 1)
        rank = bf >> self.bankbits
        return rank, bank, row, colword << self.align

    def encode(self, rank, bank, row, col):
        assert col % (1 << self.align) == 0
        rc = (row << self.colw) | (col >> self.align)
        low = rc & ((1 << self.shift) - 1)
        high = rc >> self.shift
        bf = bank | (rank << self.bankbits)
        return low | (bf << self.shift) | (high << (self.shift + self.bfw))

    def dfi_col(self, col):
        """column value as it must appear on the DFI address bus of a RD/WR: A10 is never a column bit,
        column bits >= 10 travel on A11 and up."""
        lo = col & 0x3ff
        hi = col >> 10
        return lo | (hi << 11)
