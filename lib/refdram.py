"""Independent reference model of one DRAM channel at the DFI boundary + monitors.

Written from the JEDEC command truth table (cs_n/ras_n/cas_n/we_n, A10 = auto-precharge on RD/WR and
all-banks on PRE, never a column bit; columns above 1 Ki travel on A11, A12...), not from phy/model.py.

Time unit: DRAM clocks, t = cycle * nphases + phase.

The model produces *findings* (dicts with a clause tag) instead of raising, so one run can collect several:
  C02.*  state legality           C03.*  datasheet timing            (refresh times are logged for C04)
"""
from fractions import Fraction

NOP, ACT, RD, WR, PRE, REF, MRS, ZQC = "NOP", "ACT", "RD", "WR", "PRE", "REF", "MRS", "ZQC"
_DECODE = {  # (ras_n, cas_n, we_n)
    (1, 1, 1): NOP, (0, 1, 1): ACT, (1, 0, 1): RD, (1, 0, 0): WR,
    (0, 1, 0): PRE, (0, 0, 1): REF, (0, 0, 0): MRS, (1, 1, 0): ZQC,
}


def background(loc, width, salt=0):
    """deterministic pseudo-random initial contents of a location (rank, bank, row, colburst)"""
    rank, bank, row, col = loc
    x = (rank * 0x9E3779B97F4A7C15 + bank * 0xC2B2AE3D27D4EB4F + row * 0x165667B19E3779F9 + col * 0x27D4EB2F165667C5 + salt + 0x1234567) & ((1 << 64) - 1)
    out = 0
    n = 0
    while n < width:
        x ^= x >> 33
        x = (x * 0xFF51AFD7ED558CCD) & ((1 << 64) - 1)
        x ^= x >> 29
        out |= x << n
        n += 64
    return out & ((1 << width) - 1)


class _Bank:
    __slots__ = ("open", "row", "t_act", "t_pre", "t_rd", "t_wr", "ap_pending")

    def __init__(self):
        self.open = False
        self.row = None
        self.t_act = None
        self.t_pre = None     # effective start of the last precharge (explicit, all-bank or auto)
        self.t_rd = None
        self.t_wr = None


class RefDRAM:
    def __init__(self, dfi, *, nphases, nranks, bankbits, rowbits, colbits, align, dfi_databits,
                 read_latency, write_latency, rdphase=None, wrphase=None,
                 req=None, WL=0, BLc=1, salt=0, check_phases=True, ignore_cs=False):
        self.dfi = dfi
        self.phases = dfi.phases
        self.nph = nphases
        self.nranks = nranks
        self.nbanks = 1 << bankbits
        self.rowbits, self.colbits, self.align = rowbits, colbits, align
        self.dw = dfi_databits
        self.W = dfi_databits * nphases
        self.nbytes = self.W // 8
        self.rl, self.wl = read_latency, write_latency
        self.rdphase, self.wrphase = rdphase, wrphase
        self.check_phases = check_phases
        self.req = dict(req or {})
        self.WL, self.BLc = WL, BLc
        self.salt = salt
        self.banks = [[_Bank() for _ in range(self.nbanks)] for _ in range(nranks)]
        self.acts = [[] for _ in range(nranks)]       # ACT times per rank
        self.t_cas = [None] * nranks
        self.t_wrr = [None] * nranks                  # last WR per rank
        self.t_ref = [None] * nranks
        self.t_zq = [None] * nranks
        self.t_prea = [None] * nranks
        self.mem = {}
        self.findings = []
        self.cmds = []                                # (t, kind, ranks, bank, addr)
        self.refs = []                                # times of REF commands (rank 0 view)
        self.zqs = []
        self.rw_log = []                              # (t, kind, rank, bank, row, col, ap)
        self.act_log = []                             # (t, rank, bank, row)
        self.pending_wr = []                          # [due_cycle, loc, wobj]
        self.pending_rd = []                          # [due_cycle, base, [wobj...], loc]
        self.inflight_w = {}                          # loc -> [wobj] (command issued, data not arrived)
        self.slack = {}                               # rule -> min observed (delta - need)
        self.close = set()                            # rules for which a pair within 2x the minimum was seen
        self.touched = set()
        self.nrd = self.nwr = 0
        self.ignore_cs = ignore_cs

    # ------------------------------------------------------------------------------------------
    def find(self, clause, t, **kw):
        d = {"clause": clause, "t": t}
        d.update(kw)
        self.findings.append(d)

    def _need(self, rule, t_from, t_now, extra=0, **kw):
        need = self.req.get(rule)
        if need is None or t_from is None:
            return
        delta = t_now - t_from
        need = need + extra
        s = delta - need
        prev = self.slack.get(rule)
        if prev is None or s < prev:
            self.slack[rule] = s
        if delta <= 2 * need:
            self.close.add(rule + ("/PREA" if kw.get("all") else "") + ("/REF" if kw.get("cmd") in ("REF", "ZQC") and rule == "tRP" else ""))
        if s < 0:
            self.find("C03." + rule, t_now, t_from=t_from, delta=delta, need=str(need), **kw)

    def _any_cmd_after_ref(self, rank, t, kind):
        self._need("tRFC", self.t_ref[rank], t, cmd=kind, rank=rank)
        self._need("tZQCS", self.t_zq[rank], t, cmd=kind, rank=rank)

    def loc_value(self, loc):
        v = self.mem.get(loc)
        if v is None:
            v = background(loc, self.W, self.salt)
        return v

    # ------------------------------------------------------------------------------------------
    def cycle(self, sim, cyc):
        """call once per controller cycle before sim.step(); returns the writes (rddata) for this cycle"""
        get = sim.get
        nph = self.nph
        # 1. decode commands of this cycle
        for p, ph in enumerate(self.phases):
            ras, cas, we = get(ph.ras_n), get(ph.cas_n), get(ph.we_n)
            rden, wren = get(ph.rddata_en), get(ph.wrdata_en)
            kind = _DECODE[(ras, cas, we)]
            t = cyc * nph + p
            if kind == NOP:
                if self.check_phases and (rden or wren):
                    self.find("C02.data_en_without_cmd", t, phase=p, rddata_en=rden, wrdata_en=wren)
                continue
            csn = get(ph.cs_n)
            ranks = [r for r in range(self.nranks) if not (csn >> r) & 1] if not self.ignore_cs else [0]
            if not ranks:
                # deselected: no command reaches any device
                if self.check_phases and (rden or wren):
                    self.find("C02.data_en_without_cmd", t, phase=p, rddata_en=rden, wrdata_en=wren)
                self.find("C02.cmd_without_cs", t, phase=p, kind=kind)
                continue
            bank = get(ph.bank)
            addr = get(ph.address)
            self.cmds.append((t, kind, tuple(ranks), bank, addr))
            if self.check_phases:
                if (kind == RD) != bool(rden) or (kind == WR) != bool(wren):
                    self.find("C02.data_en_mismatch", t, phase=p, kind=kind, rddata_en=rden, wrdata_en=wren)
                if kind == RD and self.rdphase is not None and p != self.rdphase:
                    self.find("C02.rd_wrong_phase", t, phase=p)
                if kind == WR and self.wrphase is not None and p != self.wrphase:
                    self.find("C02.wr_wrong_phase", t, phase=p)
            if kind in (ACT, RD, WR) or (kind == PRE and not (addr >> 10) & 1):
                if len(ranks) != 1:
                    self.find("C02.cs_not_one_rank", t, kind=kind, ranks=ranks)
            if kind in (REF, ZQC) or (kind == PRE and (addr >> 10) & 1 and False):
                if len(ranks) != self.nranks:
                    self.find("C02.refresh_not_all_ranks", t, kind=kind, ranks=ranks)
            for rank in ranks:
                self._command(kind, rank, bank, addr, t, cyc)
        # 2. write data arriving this cycle (after decoding, so that write_latency = 0 samples in the command's own cycle)
        if self.pending_wr and self.pending_wr[0][0] <= cyc:
            while self.pending_wr and self.pending_wr[0][0] <= cyc:
                due, loc, w = self.pending_wr.pop(0)
                data = 0
                mask = 0
                bpp = self.dw // 8
                for i, ph in enumerate(self.phases):
                    data |= get(ph.wrdata) << (i * self.dw)
                    mask |= get(ph.wrdata_mask) << (i * bpp)
                w[0], w[1] = data, mask
                self.mem[loc] = self._apply(self.loc_value(loc), data, mask)
                lst = self.inflight_w.get(loc)
                if lst:
                    lst.remove(w)
                    if not lst:
                        del self.inflight_w[loc]
        # 3. read data returning at cyc + 1 (written now, visible after the edge)
        writes = []
        if self.pending_rd and self.pending_rd[0][0] <= cyc + 1:
            due, base, ws, loc = self.pending_rd.pop(0)
            val = base
            for w in ws:
                if w[0] is None:
                    self.find("HARNESS.read_before_write_data", cyc, loc=loc)
                else:
                    val = self._apply(val, w[0], w[1])
            m = (1 << self.dw) - 1
            for i, ph in enumerate(self.phases):
                writes.append((ph.rddata, (val >> (i * self.dw)) & m))
                writes.append((ph.rddata_valid, 1))
            self._rv = True
        elif getattr(self, "_rv", False):
            for ph in self.phases:
                writes.append((ph.rddata_valid, 0))
            self._rv = False
        return writes

    def _apply(self, old, data, mask):
        if mask == 0:
            return data
        for b in range(self.nbytes):
            if not (mask >> b) & 1:
                old = (old & ~(0xff << (8 * b))) | (data & (0xff << (8 * b)))
        return old

    # ------------------------------------------------------------------------------------------
    def _eff_close(self, b, t_ap_cmd, is_write):
        """effective start of an auto-precharge: never earlier than the command; for a write after write
        recovery; never before tRAS after the activate (the device delays it internally)."""
        t = t_ap_cmd
        if is_write and self.req.get("tWR") is not None:
            t = max(t, t_ap_cmd + self.WL + self.BLc + self.req["tWR"])
        if self.req.get("tRAS") is not None and b.t_act is not None:
            t = max(t, b.t_act + self.req["tRAS"])
        return t

    def _command(self, kind, rank, bank, addr, t, cyc):
        banks = self.banks[rank]
        self._any_cmd_after_ref(rank, t, kind)
        if kind == ACT:
            b = banks[bank]
            if b.open:
                self.find("C02.act_on_open_bank", t, rank=rank, bank=bank, open_row=b.row, new_row=addr)
            self._need("tRP", b.t_pre, t, rank=rank, bank=bank, cmd="ACT")
            self._need("tRC", b.t_act, t, rank=rank, bank=bank)
            al = self.acts[rank]
            if al:
                self._need("tRRD", al[-1], t, rank=rank, bank=bank)
            if len(al) >= 4:
                self._need("tFAW", al[-4], t, rank=rank, bank=bank)
            al.append(t)
            if len(al) > 8:
                del al[:-8]
            b.open, b.row, b.t_act = True, addr & ((1 << self.rowbits) - 1), t
            if addr >> self.rowbits:
                self.find("C02.row_out_of_range", t, rank=rank, bank=bank, addr=addr)
            b.t_rd = b.t_wr = None
            self.act_log.append((t, rank, bank, b.row))
        elif kind in (RD, WR):
            b = banks[bank]
            ap = (addr >> 10) & 1
            col = (addr & 0x3ff) | ((addr >> 11) << 10)
            if not b.open:
                self.find("C02.rw_on_closed_bank", t, kind=kind, rank=rank, bank=bank)
                row = -1
            else:
                row = b.row
            if col % (1 << self.align) or col >= (1 << self.colbits):
                self.find("C02.col_misaligned_or_out_of_range", t, kind=kind, rank=rank, bank=bank, col=col)
            self._need("tRCD", b.t_act if b.open else None, t, rank=rank, bank=bank, cmd=kind)
            self._need("tCCD", self.t_cas[rank], t, rank=rank, cmd=kind)
            if kind == RD:
                self._need("tWTR", self.t_wrr[rank], t, extra=self.WL + self.BLc, rank=rank)
            self.t_cas[rank] = t
            loc = (rank, bank, row, col >> self.align)
            self.touched.add(loc)
            self.rw_log.append((t, kind, rank, bank, row, col, ap))
            if kind == WR:
                self.nwr += 1
                b.t_wr = t
                self.t_wrr[rank] = t
                w = [None, None]
                self.pending_wr.append([cyc + self.wl, loc, w])
                self.inflight_w.setdefault(loc, []).append(w)
            else:
                self.nrd += 1
                b.t_rd = t
                self.pending_rd.append([cyc + self.rl, self.loc_value(loc), list(self.inflight_w.get(loc, ())), loc])
            if ap and b.open:
                b.open = False
                b.t_pre = self._eff_close(b, t, kind == WR)
        elif kind == PRE:
            allb = (addr >> 10) & 1
            for bi in (range(self.nbanks) if allb else [bank]):
                b = banks[bi]
                if b.open:
                    self._need("tRAS", b.t_act, t, rank=rank, bank=bi, all=allb)
                    self._need("tWR", b.t_wr, t, extra=self.WL + self.BLc, rank=rank, bank=bi, all=allb)
                    b.open = False
                    b.t_pre = t
                elif b.t_pre is not None and b.t_pre > t:
                    pass   # auto-precharge still pending inside the device; an explicit PRE changes nothing
            if allb:
                self.t_prea[rank] = t
        elif kind in (REF, ZQC):
            for bi, b in enumerate(banks):
                if b.open:
                    self.find("C02.%s_with_open_bank" % kind.lower(), t, rank=rank, bank=bi)
                self._need("tRP", b.t_pre, t, rank=rank, bank=bi, cmd=kind)
            if kind == REF:
                self.t_ref[rank] = t
                if rank == 0:
                    self.refs.append(t)
            else:
                self.t_zq[rank] = t
                if rank == 0:
                    self.zqs.append(t)
        elif kind == MRS:
            self.find("C02.unexpected_mrs", t, rank=rank)

    def quiescent(self):
        return not self.pending_wr and not self.pending_rd
