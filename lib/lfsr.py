"""Independent plain-Python model of the BIST data/address generators of litedram/frontend/bist.py (C14 oracle).

What the hardware uses (read from bist.py, re-implemented here from the description, not imported):
  * `Generator(n_out=31, n_state=31, taps=[27, 30])` for data and for addresses: a PRBS31 source (x^31 + x^28 + 1 with an
    inverted feedback bit, register reset to 0) advanced 31 bit-shifts per enable, or a plain up counter (reset 0).
    The LFSR *output* is the register content after the 31 shifts of the current step, i.e. the first word seen is already
    one step away from the all-zero reset state; the counter output is the register itself, first word 0.
  * data word = the 31 generator bits repeated from bit 0 upwards and cut to the port's data width (low bits first).
  * address of sequence position i = base (in words) + (address generator word i masked to the range).
The BIST generator and checker are reset before every run (upstream driver), so every run starts from word 0.

Two address models are offered:
  * `strict`    : mask = range in WORDS - 1   (what the property statement / documentation promise: inside [base, end))
  * `bytemask`  : mask = range in BYTES - 1   (hypothesis "addr_mask is a byte count applied to the word counter")
The check is made against `strict`; `bytemask` is only used to *name* one specific cause of a deviation.
"""


def _mask(n):
    return (1 << n) - 1


class PRBS:
    """Fibonacci shift register: every bit-shift moves bit k to k+1 and inserts NOT(xor of the tap bits) at bit 0.
    One word step = n_out bit-shifts; the output word is the low n_out bits of the register afterwards."""

    def __init__(self, n_out=31, n_state=31, taps=(27, 30)):
        self.n_out, self.n_state, self.taps = n_out, n_state, tuple(taps)
        self.width = max(n_out, n_state)
        self.state = 0

    def next_word(self):
        r = self.state & _mask(self.n_state)      # bits above the state width start as 0
        for _ in range(self.n_out):
            fb = 1
            for t in self.taps:
                fb ^= (r >> t) & 1
            r = ((r << 1) | fb) & _mask(self.width)
        self.state = r & _mask(self.n_state)
        return r & _mask(self.n_out)


def prbs_words(n, n_out=31, n_state=31, taps=(27, 30)):
    g = PRBS(n_out, n_state, taps)
    return [g.next_word() for _ in range(n)]


def prbs_words_bitserial(n, n_out=31, n_state=31, taps=(27, 30)):
    """Second formulation used only to cross-check `PRBS`: the inserted bit stream b_k obeys
    b_k = 1 ^ XOR_t b_{k-1-t} (zero history); word j holds the last n_out stream bits, newest at bit 0.
    Valid when n_out >= n_state (the register then always holds stream bits only)."""
    assert n_out >= n_state
    b = []
    out = []
    for j in range(n):
        for _ in range(n_out):
            k = len(b)
            fb = 1
            for t in taps:
                if k - 1 - t >= 0:
                    fb ^= b[k - 1 - t]
            b.append(fb)
        w = 0
        for i in range(n_out):
            w |= b[len(b) - 1 - i] << i
        out.append(w)
    return out


def gen_words(n, random, n_out=31):
    """first n output words of a `Generator` that was reset and is enabled once per word"""
    if random:
        return prbs_words(n, n_out)
    return [i & _mask(n_out) for i in range(n)]


def replicate(word, data_width, n_out=31):
    """n_out-bit word repeated from bit 0 upwards, cut to data_width"""
    v = 0
    sh = 0
    while sh < data_width:
        v |= (word & _mask(n_out)) << sh
        sh += n_out
    return v & _mask(data_width)


def bist_sequence(data_width, word_addr_bits, base, end, length, random_data, random_addr, model="strict"):
    """[(word address, data word)] for base/end/length given in BYTES (as the BIST registers take them).
    word_addr_bits: width of the word address on the port (native: address_width; AXI: address_width - log2(bytes))."""
    nbytes = data_width // 8
    assert nbytes >= 1 and nbytes & (nbytes - 1) == 0
    sh = nbytes.bit_length() - 1
    n = length >> sh
    rng_bytes = end - base
    if model == "strict":
        assert rng_bytes > 0 and rng_bytes & (rng_bytes - 1) == 0 and rng_bytes >= nbytes
        mask = (rng_bytes >> sh) - 1
    elif model == "bytemask":
        mask = (rng_bytes - 1) & _mask(word_addr_bits + sh)
    else:
        raise ValueError(model)
    d = gen_words(n, random_data)
    a = gen_words(n, random_addr)
    base_w = base >> sh
    return [((base_w + (a[i] & mask)) & _mask(word_addr_bits), replicate(d[i], data_width)) for i in range(n)]


def image(seq, init=None):
    """memory image {word address: data} after performing the writes of seq in order"""
    m = dict(init or {})
    for a, d in seq:
        m[a] = d
    return m


def expected_errors(seq, read):
    """number of sequence positions whose stored word differs from the generated word; read(addr) -> stored word"""
    return sum(1 for a, d in seq if read(a) != d)


def has_repeat(seq):
    seen = set()
    for a, _ in seq:
        if a in seen:
            return True
        seen.add(a)
    return False


# ---- self checks -------------------------------------------------------------------------------------------------

def selfcheck_pure():
    """model-internal consistency; raises AssertionError"""
    for (no, ns, taps) in ((31, 31, (27, 30)), (23, 23, (17, 22)), (15, 15, (13, 14)), (40, 31, (27, 30))):
        assert prbs_words(40, no, ns, taps) == prbs_words_bitserial(40, no, ns, taps), (no, ns, taps)
    w = prbs_words(3000)
    assert len(set(w)) == len(w) and 0 not in w[1:]
    # PRBS31 recurrence on the serialised stream (x^31 + x^28 + 1, inverted): b_k = ~(b_{k-28} ^ b_{k-31})
    bits = []
    for x in w[:200]:
        bits += [(x >> (30 - i)) & 1 for i in range(31)]      # oldest bit of a word is its bit 30
    for k in range(31, len(bits)):
        assert bits[k] == 1 ^ bits[k - 28] ^ bits[k - 31]
    assert replicate(0x7fffffff, 64) == (1 << 64) - 1 and replicate(1, 64) == 1 | 1 << 31 | 1 << 62
    assert replicate(0x12345678, 8) == 0x78 and replicate(5, 32) == 5 | (1 << 31)
    return True


def selfcheck_upstream_images(data):
    """`data` = MemoryTestDataMixin().bist_test_data (the pinned expected memory images of test/test_bist.py).
    Returns {name: which of my address models reproduces the pinned image}."""
    out = {}
    for name in sorted(data):
        cfg = dict(data[name])
        exp = list(cfg.pop("expected"))
        dw = int(name.split("bit")[0])
        res = []
        for model in ("strict", "bytemask"):
            try:
                seq = bist_sequence(dw, 32, cfg["base"], cfg["end"], cfg["length"], cfg.get("random_data", 0), cfg.get("random_addr", 0), model)
            except AssertionError:
                continue
            img = image(seq)
            mem = [img.get(i, 0) for i in range(len(exp))]
            if mem == exp and all(a < len(exp) for a in img):
                res.append(model)
        out[name] = res
    return out
