"""Harness for C12: LiteDRAMDMAReader / LiteDRAMDMAWriter between stream drivers (lib/streams.py) and a memory-side stub:
the realistic native slave (lib/native.py NativeSlave: unconditional one-cycle strobes) or a conforming AXI4 memory slave
(lib/aximem12.py).  The oracle uses only the stimulus, the stub's memory function and what is visible on the DMA's
sink/source streams and on the port; nothing inside litedram/frontend/dma.py is observed.

cfg  : {kind: 'reader'|'writer', port: 'native'|'axi', depth, buffered, dw, aw}
stim : {items: [{address, (data,) last, gap}], consumer: schedule (reader), enable: [[start, len], ...] (reader),
        slave: native {ready, rlat, wlat, qmax} | axi {aw, w, ar, r_gap, rlat, blat, qmax}}"""
import os, json
from hypothesis import strategies as st
import lib.compat  # noqa
from migen import *
from litedram.common import LiteDRAMNativePort
from lib.fastsim import FastSim, MigenSim, compile_dut, HarnessError
from lib.native import NativeSlave, native_slave, slave_style
from lib.aximem12 import AXIMem12
from lib.streams import StreamSource, StreamSink, LevelDriver, sched_period, sched_extra, norm_pattern

_CACHE = {}


class DMADUT(Module):
    def __init__(self, cfg):
        from litedram.frontend.dma import LiteDRAMDMAReader, LiteDRAMDMAWriter
        from litedram.frontend.axi import LiteDRAMAXIPort
        reader = cfg["kind"] == "reader"
        if cfg["port"] == "native":
            self.port = LiteDRAMNativePort("read" if reader else "write", cfg["aw"], cfg["dw"])
        else:
            self.port = LiteDRAMAXIPort(data_width=cfg["dw"], address_width=cfg["aw"], id_width=1)
        cls = LiteDRAMDMAReader if reader else LiteDRAMDMAWriter
        self.submodules.dma = cls(self.port, fifo_depth=cfg["depth"], fifo_buffered=bool(cfg["buffered"]), with_csr=False)


def default_backend():
    return "migen" if os.environ.get("VERIF_SIM") == "migen" else "fast"


def get_sim(cfg, backend="fast"):
    if backend == "migen":
        dut = DMADUT(cfg)
        return dut, MigenSim(dut, {"sys": 10})
    k = json.dumps(cfg, sort_keys=True)
    ent = _CACHE.get(k)
    if ent is None:
        if len(_CACHE) > 12:
            _CACHE.clear()
        dut = DMADUT(cfg)
        ent = _CACHE[k] = (dut, compile_dut(dut, {"sys": 10}))
    return ent[0], FastSim(ent[1])


def tag(cfg):
    return "%s/%s d%d%s w%d" % (cfg["kind"], cfg["port"], cfg["depth"], "b" if cfg["buffered"] else "", cfg["dw"])


def ashift(cfg):
    return (cfg["dw"] // 8).bit_length() - 1


def word_of(cfg, address):
    """key of the stub memory an address on the DMA sink refers to (native: word address, AXI: byte address)"""
    return address if cfg["port"] == "native" else address >> ashift(cfg)


def make_slave(cfg, port, sl):
    sl = sl or {}
    if cfg["port"] == "native":
        return native_slave([port], dict(sl, ready=norm_pattern(sl.get("ready")), wready=norm_pattern(sl.get("wready"))))
    return AXIMem12(port, aw_pat=norm_pattern(sl.get("aw")), w_pat=norm_pattern(sl.get("w")), ar_pat=norm_pattern(sl.get("ar")),
                    r_gap=sl.get("r_gap"), rlat=sl.get("rlat"), blat=sl.get("blat"), qmax=sl.get("qmax", 8))


def cycle_cap(cfg, stim):
    sl = stim.get("slave") or {}
    n = len(stim["items"])
    if cfg["port"] == "native":
        ps = sum(norm_pattern(sl.get("ready"))) or 1
        lat = max((sl.get("rlat") or [5]) + (sl.get("wlat") or [3]) + [5])
    else:
        ps = sum((sum(norm_pattern(sl.get(k))) or 1) for k in ("aw", "w", "ar"))
        lat = max((sl.get("rlat") or [1]) + (sl.get("blat") or [1])) + max(sl.get("r_gap") or [0])
    pc = sched_period(stim.get("consumer"))
    extra = sched_extra(stim.get("consumer")) + sum(int(b) for _, b in (stim.get("enable") or [])) + max([int(a) for a, _ in (stim.get("enable") or [])] or [0])
    return 400 + extra + sum(it.get("gap", 0) for it in stim["items"]) + 2 * n * (pc + ps + lat + 12)


class DMARun:
    pass


def run_case(cfg, stim, backend=None, max_cycles=None, trace=None):
    """One simulation.  Everything the oracle needs is collected from the streams and the port handshakes."""
    backend = backend or default_backend()
    dut, sim = get_sim(cfg, backend)
    get = sim.get
    reader = cfg["kind"] == "reader"
    axi = cfg["port"] == "axi"
    port, dma = dut.port, dut.dma
    slave = make_slave(cfg, port, stim.get("slave"))
    src = StreamSource(dma.sink, stim["items"], ["address"] if reader else ["address", "data"])
    drivers = [slave, src]
    snk = en = None
    if reader:
        snk = StreamSink(dma.source, ["data"], stim.get("consumer"))
        en = LevelDriver(dma.enable, stim.get("enable"), idle=1, active=0)
        drivers += [snk, en]
        cmd = port.ar if axi else port.cmd
        obs = [dma.sink.ready, dma.source.valid, dma.source.data, dma.source.last, cmd.valid, cmd.addr, (port.r if axi else port.rdata).ready]
    else:
        cmd = port.aw if axi else port.cmd
        wd = port.w if axi else port.wdata
        obs = [dma.sink.ready, cmd.valid, cmd.addr, wd.valid, wd.data, (wd.strb if axi else wd.we)]
        if axi:
            obs.append(port.b.ready)
    n = len(stim["items"])
    depth = cfg["depth"]
    cap = max_cycles or cycle_cap(cfg, stim)
    r = DMARun()
    r.cfg, r.stim, r.slave, r.src, r.snk = cfg, stim, slave, src, snk
    r.accepted = []          # (t, index) sink handshakes
    r.issued = 0             # port command handshakes
    r.consumed = []          # reader: (t, data, last, delivered) words that left the DMA's output (delivered or flushed)
    r.max_out = 0
    r.out_violation = None
    r.stall_full = 0         # cycles with consumer not ready while outstanding >= depth
    r.stall_full_run = 0
    r.full_backpressure = 0  # writer: cycles the producer is refused although the port would take the command
    r.en_drop_in_flight = 0
    r.flushed = 0
    run_len = 0
    prev_en = 1
    quiet = 0
    need_quiet = 24 + depth
    done = False
    t = 0
    while t < cap:
        if trace is not None:
            trace.append([get(s) for s in obs])
        # ---- observe (settled values of cycle t) ----
        if get(cmd.valid) and get(cmd.ready):
            r.issued += 1
        if get(dma.sink.valid) and get(dma.sink.ready):
            r.accepted.append((t, len(r.accepted)))
        if reader:
            e = get(dma.enable)
            sv, sr = get(dma.source.valid), get(dma.source.ready)
            out_before = r.issued - len(r.consumed) - (1 if (get(cmd.valid) and get(cmd.ready)) else 0)
            if prev_en and not e and out_before > 0:
                r.en_drop_in_flight += 1
            prev_en = e
            if sv and (sr or not e):
                r.consumed.append((t, get(dma.source.data), get(dma.source.last), 1 if sr else 0))
                if not sr:
                    r.flushed += 1
            out = r.issued - len(r.consumed)
            if out > r.max_out:
                r.max_out = out
            if out > depth and r.out_violation is None:
                r.out_violation = (t, out)
            if not sr and e and out >= depth:
                r.stall_full += 1
                run_len += 1
                if run_len > r.stall_full_run:
                    r.stall_full_run = run_len
            else:
                run_len = 0
        else:
            if get(dma.sink.valid) and get(cmd.ready) and not get(dma.sink.ready):
                r.full_backpressure += 1
        # ---- drive ----
        w = []
        for d in drivers:
            w += d.cycle(sim, t)
        sim.step(w)
        t += 1
        if reader:
            fin = src.done() and len(r.consumed) >= n and slave.idle()
        else:
            nw = sum(1 for x in slave.log if x[0] == "W")
            fin = src.done() and nw >= n and slave.idle()
        if fin:
            quiet += 1
            if quiet >= need_quiet:
                done = True
                break
        else:
            quiet = 0
    if hasattr(slave, "finish"):
        slave.finish(t)
    r.cycles = t
    r.completed = done
    return r


def oracle(run):
    """returns (findings, classes).  Clauses follow the property statement; see props/c12.py RULE."""
    cfg, stim, s = run.cfg, run.stim, run.slave
    items = stim["items"]
    fs = []
    cl = set()
    P = "C12"
    kp = "%s/%s/" % (cfg["kind"], cfg["port"])
    dw = cfg["dw"]
    nacc = len(run.accepted)
    if cfg["kind"] == "reader":
        exp = [(s.read_mem(word_of(cfg, it["address"]), dw), 1 if it.get("last") else 0) for it in items]
        got = run.consumed
        for e in s.lost:
            fs.append(dict(clause=P + ".reader_overrun", key=kp + "lost", what="%s: read strobe for address 0x%x at cycle %d met rdata.ready = 0 (%d reads issued, %d words out, consumer %s)" % (
                tag(cfg), e[3], e[1], run.issued, len(got), stim.get("consumer"))))
            break
        if run.out_violation:
            fs.append(dict(clause=P + ".reader_outstanding", key=kp + "outstanding", what="%s: %d reads issued and not yet delivered at cycle %d, FIFO depth %d" % (
                tag(cfg), run.out_violation[1], run.out_violation[0], cfg["depth"])))
        if len(got) > nacc or (run.completed and len(got) != nacc):
            fs.append(dict(clause=P + ".reader_word_count", key=kp + "count", what="%s: %d addresses accepted, %d words left the output (%d delivered, %d flushed while disabled)" % (
                tag(cfg), nacc, len(got), len(got) - run.flushed, run.flushed)))
        for j in range(min(len(got), len(exp))):
            if got[j][1] != exp[j][0]:
                fs.append(dict(clause=P + ".reader_data", key=kp + "data", what="%s: output word #%d is 0x%x, memory at address 0x%x holds 0x%x" % (
                    tag(cfg), j, got[j][1], items[j]["address"], exp[j][0])))
                break
        for j in range(min(len(got), len(exp))):
            if got[j][2] != exp[j][1]:
                fs.append(dict(clause=P + ".reader_last", key=kp + "last", what="%s: output word #%d has last=%d, its address was given with last=%d" % (
                    tag(cfg), j, got[j][2], exp[j][1])))
                break
        if not run.completed:
            fs.append(dict(clause=P + ".hang", key=kp + "hang", what="%s: not finished after %d cycles: %d/%d addresses accepted, %d reads issued, %d words out, slave idle=%s" % (
                tag(cfg), run.cycles, nacc, len(items), run.issued, len(got), s.idle())))
        elif run.issued != nacc:
            fs.append(dict(clause=P + ".reader_word_count", key=kp + "cmds", what="%s: %d addresses accepted but %d reads issued on the port" % (tag(cfg), nacc, run.issued)))
        # classes
        if run.stall_full:
            cl.add("consumer_stalled_with_full_reservation")
        if run.stall_full_run >= 100:
            cl.add("stalled_100_cycles_with_full_reservation")
        if cfg["depth"] == 1 and len(items) >= 2:
            cl.add("minimal_fifo_depth")
        if run.en_drop_in_flight:
            cl.add("enable_dropped_with_reads_in_flight")
        if run.flushed:
            cl.add("words_flushed_while_disabled")
    else:
        full = (1 << (dw // 8)) - 1
        if cfg["port"] == "native":
            wlog = [(x[1], x[3], x[4], x[5], x[6]) for x in s.log if x[0] == "W"]     # t, addr, data, we, valid
        else:
            wlog = [(x[1], x[2], x[3], x[4], 1) for x in s.log if x[0] == "W"]
        for e in s.lost:
            if e[0] == "W-extra":
                fs.append(dict(clause=P + ".writer_extra_beat", key=kp + "extra", what="%s: stream-style port: more write-data beats than write commands were put on the port" % tag(cfg)))
                break
            fs.append(dict(clause=P + ".writer_lost_beat", key=kp + "lost", what="%s: write strobe for address 0x%x at cycle %d met wdata.valid = 0" % (tag(cfg), e[3], e[1])))
            break
        if len(wlog) > nacc or (run.completed and len(wlog) != nacc):
            fs.append(dict(clause=P + ".writer_write_count", key=kp + "count", what="%s: %d (address, data) pairs accepted, %d writes performed" % (tag(cfg), nacc, len(wlog))))
        for j in range(min(len(wlog), len(items))):
            t_, a, d, we, v = wlog[j]
            it = items[j]
            if a != it["address"] or (v and d != it["data"]):
                fs.append(dict(clause=P + ".writer_pairing", key=kp + "pair", what="%s: write #%d at cycle %d stores 0x%x at address 0x%x, input pair #%d is (0x%x, 0x%x)" % (
                    tag(cfg), j, t_, d, a, j, it["address"], it["data"])))
                break
            if v and we != full:
                fs.append(dict(clause=P + ".writer_byte_enables", key=kp + "we", what="%s: write #%d has byte enables 0x%x, expected all ones" % (tag(cfg), j, we)))
                break
        if not run.completed:
            fs.append(dict(clause=P + ".hang", key=kp + "hang", what="%s: not finished after %d cycles: %d/%d pairs accepted, %d commands issued, %d writes performed, slave idle=%s" % (
                tag(cfg), run.cycles, nacc, len(items), run.issued, len(wlog), s.idle())))
        else:
            # final memory = last writer wins (follows from the log equality; kept as a cross-check of the stub bookkeeping)
            ref = {}
            for it in items:
                ref[word_of(cfg, it["address"])] = it["data"]
            for a in sorted(ref):
                if s.read_mem(a, dw) != ref[a]:
                    fs.append(dict(clause=P + ".writer_final_memory", key=kp + "mem", what="%s: word 0x%x holds 0x%x, expected 0x%x" % (tag(cfg), a, s.read_mem(a, dw), ref[a])))
                    break
        if cfg["depth"] == 1 and len(items) >= 2:
            cl.add("minimal_fifo_depth")
        if run.full_backpressure:
            cl.add("producer_refused_by_full_fifo")
        if len(set(it["address"] for it in items)) < len(items):
            cl.add("repeated_address")
    return fs, cl


# ---------------------------------------------------------------------------------------------------
# strategies
@st.composite
def patterns(draw, sparse_max=45):
    kind = draw(st.sampled_from(["always", "always", "short", "short", "sparse", "irregular"]))
    if kind == "always":
        return []
    if kind == "short":
        k = draw(st.integers(1, 3))
        return norm_pattern([draw(st.integers(0, 4)) for _ in range(2 * k)])
    if kind == "sparse":
        return [draw(st.integers(1, 2)), draw(st.integers(4, sparse_max))]
    rnd = draw(st.randoms(use_true_random=False))
    k = draw(st.integers(3, 10))
    return norm_pattern([rnd.randint(0, 3) if i % 2 == 0 else rnd.choice([0, 1, 1, 2, 3, 5, 9, 17]) for i in range(2 * k)])


@st.composite
def consumer_scheds(draw, long_stall):
    spec = dict(pat=draw(patterns()))
    if draw(st.integers(0, 2)) != 0:
        spec["hold"] = [draw(st.integers(0, 90)), draw(st.integers(20, long_stall))]
    return spec


@st.composite
def slave_scheds(draw, cfg):
    depth = cfg["depth"]
    qs = sorted(set([1, 2, 3, 8, 10, max(1, depth - 1), depth, depth + 1, depth + 4, 40]))
    if cfg["port"] == "native":
        d = dict(ready=draw(patterns(12)),
                 rlat=draw(st.lists(st.sampled_from([5, 5, 6, 7, 9, 12, 20, 33, 60]), min_size=1, max_size=4)),
                 wlat=draw(st.lists(st.sampled_from([3, 3, 4, 5, 8, 14, 30]), min_size=1, max_size=4)),
                 qmax=draw(st.sampled_from(qs)))
        # the DMA engines are routinely put on clock-domain-crossing / converted ports (video, BIST with CDC): stream-style memory side
        d.update(slave_style(draw, st))
        return d
    return dict(aw=draw(patterns(12)), w=draw(patterns(12)), ar=draw(patterns(12)),
                r_gap=draw(st.lists(st.sampled_from([0, 0, 0, 1, 3]), min_size=1, max_size=3)),
                rlat=draw(st.lists(st.sampled_from([1, 1, 2, 3, 6, 15, 40]), min_size=1, max_size=4)),
                blat=draw(st.lists(st.sampled_from([1, 2, 5, 11]), min_size=1, max_size=3)),
                qmax=draw(st.sampled_from(qs)))


@st.composite
def item_lists(draw, cfg, max_items):
    reader = cfg["kind"] == "reader"
    sh = ashift(cfg) if cfg["port"] == "axi" else 0
    words = cfg["aw"] - sh
    n = draw(st.integers(1, max_items))
    style = draw(st.sampled_from(["seq", "pool", "wide", "mixed"]))
    base = draw(st.integers(0, (1 << words) - 1))
    pool = [draw(st.integers(0, (1 << words) - 1)) for _ in range(draw(st.integers(1, 4)))]
    gaps = draw(st.sampled_from([[0], [0], [0, 0, 0, 1], [0, 0, 2, 7], [0, 1, 20], [3]]))
    items = []
    for i in range(n):
        stl = style if style != "mixed" else draw(st.sampled_from(["seq", "pool", "wide"]))
        if stl == "seq":
            a = (base + i) & ((1 << words) - 1)
        elif stl == "pool":
            a = pool[draw(st.integers(0, len(pool) - 1))]
        else:
            a = draw(st.integers(0, (1 << words) - 1))
        it = dict(address=a << sh, last=1 if draw(st.integers(0, 5)) == 0 else 0, gap=draw(st.sampled_from(gaps)))
        if not reader:
            it["data"] = draw(st.integers(0, (1 << cfg["dw"]) - 1))
        items.append(it)
    if draw(st.booleans()):
        items[-1]["last"] = 1
    return items


@st.composite
def stims(draw, cfg, max_items=48, long_stall=400):
    stim = dict(items=draw(item_lists(cfg, max_items)), slave=draw(slave_scheds(cfg)))
    if cfg["kind"] == "reader":
        stim["consumer"] = draw(consumer_scheds(long_stall))
        if draw(st.integers(0, 3)) == 0:
            stim["enable"] = [[draw(st.integers(1, 250)), draw(st.integers(1, 40))] for _ in range(draw(st.integers(1, 3)))]
    return stim


def diff_selftest(cfg, stim, col, ncycles=300):
    """same stimulus, same drivers on the compiled simulator and on stock migen.sim; every observed signal, every cycle"""
    ta, tb = [], []
    run_case(cfg, stim, backend="fast", max_cycles=ncycles, trace=ta)
    run_case(cfg, stim, backend="migen", max_cycles=ncycles, trace=tb)
    if ta != tb:
        m = min(len(ta), len(tb))
        bad = [i for i in range(m) if ta[i] != tb[i]]
        raise HarnessError("fastsim differs from migen.sim on %s at cycle %s" % (cfg, bad[0] if bad else "(length %d vs %d)" % (len(ta), len(tb))))
    col.diff_cycles += len(ta)
