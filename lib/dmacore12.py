"""C12 on the real core (no stub assumption): LiteDRAMDMAWriter on a write port and LiteDRAMDMAReader on a read port of the
same LiteDRAMCrossbar -> LiteDRAMController -> reference DRAM (lib/refdram.py) at the DFI boundary.

Round trip: phase 1 streams (address, data) pairs through the writer and waits until the DRAM has them; phase 2 streams
read addresses (only addresses written in phase 1) through the reader with a stalling consumer.  Oracle: the reader's output
is [last data written to a for a in read addresses] with the `last` marks; port monitors: no rdata.valid with
rdata.ready = 0 on the reader's port, no wdata.ready with wdata.valid = 0 on the writer's port, (reads issued - words out)
<= fifo depth.  Trusts C01 (the core returns the last data written), which has its own check.

cfg  : {core: <lib/core.py configuration with ports [{mode: write}, {mode: read}]>, depth, buffered}
stim : {writes: [{address, data, last, gap}], reads: [{address, last, gap}], consumer: schedule, enable: windows relative
        to the start of phase 2}"""
import json
from hypothesis import strategies as st
import lib.compat  # noqa
from lib.core import CoreDUT, clocks_of
from lib.corecase import make_dram
from lib.fastsim import FastSim, MigenSim, compile_dut
from lib.streams import StreamSource, StreamSink, LevelDriver, sched_period, sched_extra
from lib import dmacase as dc

_CACHE = {}

_T = dict(tRP=2, tRCD=2, tWR=2, tWTR=2, tREFI=140, tRFC=6, tFAW=None, tCCD=1, tRRD=None, tRC=None, tRAS=None, tZQCS=None)
_PORTS = [{"mode": "write"}, {"mode": "read"}]
CORES = [
    dict(memtype="SDR", nphases=1, dfi_databits=16, rdphase=0, wrphase=0, cl=2, cwl=None, read_latency=4, write_latency=0, nranks=1, bankbits=2, rowbits=11, colbits=8,
         clk_freq=100e6, timing=dict(_T), ctrl=dict(cmd_buffer_depth=8, with_refresh=True), ports=_PORTS),
    dict(memtype="DDR3", nphases=4, dfi_databits=16, rdphase=2, wrphase=3, cl=6, cwl=5, read_latency=8, write_latency=2, nranks=1, bankbits=3, rowbits=12, colbits=10,
         clk_freq=100e6, timing=dict(_T, tFAW=6, tRRD=2, tCCD=1), ctrl=dict(cmd_buffer_depth=16, with_refresh=True), ports=_PORTS),
    dict(memtype="DDR2", nphases=2, dfi_databits=8, rdphase=1, wrphase=0, cl=3, cwl=2, read_latency=6, write_latency=1, nranks=1, bankbits=2, rowbits=11, colbits=9,
         clk_freq=100e6, timing=dict(_T, tREFI=400), ctrl=dict(cmd_buffer_depth=4, cmd_buffer_buffered=True, with_refresh=True), ports=_PORTS),
]


def configs():
    out = []
    for ci, core in enumerate(CORES):
        for depth, buffered in ((1, 0), (4, 1), (16, 0), (3, 0), (32, 1), (8, 1)):
            out.append(dict(core=core, depth=depth, buffered=buffered))
    return out


class DMACoreDUT(CoreDUT):
    def __init__(self, cfg):
        from litedram.frontend.dma import LiteDRAMDMAReader, LiteDRAMDMAWriter
        CoreDUT.__init__(self, cfg["core"])
        self.submodules.writer = LiteDRAMDMAWriter(self.ports[0], fifo_depth=cfg["depth"], fifo_buffered=bool(cfg["buffered"]))
        self.submodules.reader = LiteDRAMDMAReader(self.ports[1], fifo_depth=cfg["depth"], fifo_buffered=bool(cfg["buffered"]))


def get_sim(cfg, backend="fast"):
    clocks = clocks_of(cfg["core"])
    if backend == "migen":
        dut = DMACoreDUT(cfg)
        return dut, MigenSim(dut, clocks)
    k = json.dumps(cfg, sort_keys=True)
    ent = _CACHE.get(k)
    if ent is None:
        if len(_CACHE) > 3:
            _CACHE.clear()
        dut = DMACoreDUT(cfg)
        ent = _CACHE[k] = (dut, compile_dut(dut, clocks))
    return ent[0], FastSim(ent[1])


def tag(cfg):
    c = cfg["core"]
    return "core %s 1:%d d%d%s" % (c["memtype"], c["nphases"], cfg["depth"], "b" if cfg["buffered"] else "")


def addr_bits(cfg):
    c = cfg["core"]
    from lib.core import address_align
    return c["bankbits"] + c["rowbits"] + c["colbits"] - address_align(c)


def data_width(cfg):
    """native port width of the core = DFI data bits x phases (lib/corecase.word_width)"""
    return cfg["core"]["dfi_databits"] * cfg["core"]["nphases"]


class CoreDMARun:
    pass


def run_case(cfg, stim, backend="fast", max_cycles=None, trace=None):
    dut, sim = get_sim(cfg, backend)
    get = sim.get
    core = cfg["core"]
    dram = make_dram(core, dut)
    wp, rp = dut.ports
    wsrc = StreamSource(dut.writer.sink, stim["writes"], ["address", "data"])
    rsrc = None
    snk = en = None
    depth = cfg["depth"]
    nW, nR = len(stim["writes"]), len(stim["reads"])
    per = 120 + 2 * (core["timing"]["tRFC"] + 20)
    cap = max_cycles or (1500 + nW * per + nR * (per + sched_period(stim.get("consumer"))) * 2 + sched_extra(stim.get("consumer")) +
                         sum(int(a) + int(b) for a, b in (stim.get("enable") or [])) + sum(it.get("gap", 0) for it in stim["writes"] + stim["reads"]))
    r = CoreDMARun()
    r.cfg, r.stim = cfg, stim
    r.w_accepted = r.w_cmds = r.w_beats = 0
    r.r_accepted = r.issued = 0
    r.consumed = []
    r.lost_w = []
    r.lost_r = []
    r.max_out = 0
    r.out_violation = None
    r.stall_full = r.stall_full_run = 0
    r.en_drop_in_flight = 0
    r.flushed = 0
    r.phase2_at = None
    obs = [dut.writer.sink.ready, dut.reader.sink.ready, dut.reader.source.valid, dut.reader.source.data, dut.reader.source.last,
           wp.cmd.valid, wp.cmd.ready, wp.wdata.valid, wp.wdata.ready, rp.cmd.valid, rp.cmd.ready, rp.rdata.valid, rp.rdata.ready, rp.rdata.data]
    run_len = 0
    prev_en = 1
    quiet = 0
    settle = 0
    done = False
    t = 0
    while t < cap:
        if trace is not None:
            trace.append([get(s) for s in obs])
        # writer side monitors
        if get(dut.writer.sink.valid) and get(dut.writer.sink.ready):
            r.w_accepted += 1
        if get(wp.cmd.valid) and get(wp.cmd.ready):
            r.w_cmds += 1
        if get(wp.wdata.ready):
            if get(wp.wdata.valid):
                r.w_beats += 1
            else:
                r.lost_w.append(t)
        # reader side monitors
        acc = get(rp.cmd.valid) and get(rp.cmd.ready)
        if acc:
            r.issued += 1
        if get(dut.reader.sink.valid) and get(dut.reader.sink.ready):
            r.r_accepted += 1
        if get(rp.rdata.valid) and not get(rp.rdata.ready):
            r.lost_r.append(t)
        e = get(dut.reader.enable)
        sv, sr = get(dut.reader.source.valid), get(dut.reader.source.ready)
        if prev_en and not e and (r.issued - len(r.consumed) - (1 if acc else 0)) > 0:
            r.en_drop_in_flight += 1
        prev_en = e
        if sv and (sr or not e):
            r.consumed.append((t, get(dut.reader.source.data), get(dut.reader.source.last), 1 if sr else 0))
            if not sr:
                r.flushed += 1
        out = r.issued - len(r.consumed)
        r.max_out = max(r.max_out, out)
        if out > depth and r.out_violation is None:
            r.out_violation = (t, out)
        if rsrc is not None and not sr and e and out >= depth:
            r.stall_full += 1
            run_len += 1
            r.stall_full_run = max(r.stall_full_run, run_len)
        else:
            run_len = 0
        # drive
        w = dram.cycle(sim, t)
        w += wsrc.cycle(sim, t)
        if rsrc is None:
            w += [(dut.reader.source.ready, 0), (dut.reader.sink.valid, 0)]
            if wsrc.done() and r.w_beats + len(r.lost_w) >= r.w_cmds and r.w_cmds >= nW and dram.quiescent():
                settle += 1
                if settle >= 12:
                    # phase 2: schedules count from here
                    r.phase2_at = t + 1
                    t0 = t + 1
                    rsrc = StreamSource(dut.reader.sink, stim["reads"], ["address"])
                    snk = StreamSink(dut.reader.source, ["data"], stim.get("consumer"))
                    en = LevelDriver(dut.reader.enable, stim.get("enable"), idle=1, active=0)
            else:
                settle = 0
        else:
            w += rsrc.cycle(sim, t - t0) + snk.cycle(sim, t - t0) + en.cycle(sim, t - t0)
        sim.step(w)
        t += 1
        if rsrc is not None and rsrc.done() and len(r.consumed) >= nR and dram.quiescent():
            quiet += 1
            if quiet >= 24 + depth:
                done = True
                break
        else:
            quiet = 0
    r.cycles, r.completed = t, done
    return r


def oracle(run):
    cfg, stim = run.cfg, run.stim
    fs = []
    cl = set()
    P = "C12"
    kp = "core/"
    mem = {}
    for it in stim["writes"]:
        mem[it["address"]] = it["data"]
    exp = [(mem[it["address"]], 1 if it.get("last") else 0) for it in stim["reads"]]
    got = run.consumed
    if run.lost_r:
        fs.append(dict(clause=P + ".reader_overrun", key=kp + "lost", what="%s: rdata.valid met rdata.ready = 0 at cycle %d on the crossbar port (%d reads issued, %d words out)" % (
            tag(cfg), run.lost_r[0], run.issued, len(got))))
    if run.lost_w:
        fs.append(dict(clause=P + ".writer_lost_beat", key=kp + "lost", what="%s: wdata.ready met wdata.valid = 0 at cycle %d on the crossbar port" % (tag(cfg), run.lost_w[0])))
    if run.out_violation:
        fs.append(dict(clause=P + ".reader_outstanding", key=kp + "outstanding", what="%s: %d reads issued and not yet delivered at cycle %d, FIFO depth %d" % (
            tag(cfg), run.out_violation[1], run.out_violation[0], cfg["depth"])))
    if len(got) > run.r_accepted or (run.completed and len(got) != run.r_accepted):
        fs.append(dict(clause=P + ".reader_word_count", key=kp + "count", what="%s: %d addresses accepted, %d words left the output" % (tag(cfg), run.r_accepted, len(got))))
    for j in range(min(len(got), len(exp))):
        if got[j][1] != exp[j][0]:
            fs.append(dict(clause=P + ".roundtrip_data", key=kp + "data", what="%s: output word #%d is 0x%x, the last data written to address 0x%x through the DMA writer is 0x%x" % (
                tag(cfg), j, got[j][1], stim["reads"][j]["address"], exp[j][0])))
            break
    for j in range(min(len(got), len(exp))):
        if got[j][2] != exp[j][1]:
            fs.append(dict(clause=P + ".reader_last", key=kp + "last", what="%s: output word #%d has last=%d, its address was given with last=%d" % (tag(cfg), j, got[j][2], exp[j][1])))
            break
    if not run.completed:
        fs.append(dict(clause=P + ".hang", key=kp + "hang", what="%s: not finished after %d cycles: writer %d/%d pairs accepted, %d commands, %d data beats; phase 2 %s; reader %d/%d accepted, %d issued, %d words out" % (
            tag(cfg), run.cycles, run.w_accepted, len(stim["writes"]), run.w_cmds, run.w_beats, "started at %s" % run.phase2_at if run.phase2_at else "not started",
            run.r_accepted, len(stim["reads"]), run.issued, len(got))))
    elif run.w_cmds != len(stim["writes"]) or run.w_beats != len(stim["writes"]):
        fs.append(dict(clause=P + ".writer_write_count", key=kp + "count", what="%s: %d pairs accepted, %d write commands, %d write data beats on the port" % (
            tag(cfg), run.w_accepted, run.w_cmds, run.w_beats)))
    if run.stall_full:
        cl.add("consumer_stalled_with_full_reservation")
    if run.stall_full_run >= 100:
        cl.add("stalled_100_cycles_with_full_reservation")
    if cfg["depth"] == 1 and len(stim["reads"]) >= 2:
        cl.add("minimal_fifo_depth")
    if run.en_drop_in_flight:
        cl.add("enable_dropped_with_reads_in_flight")
    return fs, cl


@st.composite
def stims(draw, cfg, max_items=24, long_stall=300):
    ab = addr_bits(cfg)
    dw = data_width(cfg)
    n = draw(st.integers(1, max_items))
    base = draw(st.integers(0, (1 << ab) - 1))
    style = draw(st.sampled_from(["seq", "wide", "mixed"]))
    writes = []
    for i in range(n):
        if style == "seq" or (style == "mixed" and draw(st.booleans())):
            a = (base + i) & ((1 << ab) - 1)
        else:
            a = draw(st.integers(0, (1 << ab) - 1))
        writes.append(dict(address=a, data=draw(st.integers(0, (1 << dw) - 1)), last=1 if draw(st.integers(0, 5)) == 0 else 0, gap=draw(st.sampled_from([0, 0, 0, 1, 5]))))
    m = draw(st.integers(1, max_items))
    order = draw(st.sampled_from(["same", "random"]))
    reads = []
    for i in range(m):
        k = (i % n) if order == "same" else draw(st.integers(0, n - 1))
        reads.append(dict(address=writes[k]["address"], last=1 if draw(st.integers(0, 5)) == 0 else 0, gap=draw(st.sampled_from([0, 0, 0, 0, 2]))))
    stim = dict(writes=writes, reads=reads, consumer=draw(dc.consumer_scheds(long_stall)))
    if draw(st.integers(0, 3)) == 0:
        stim["enable"] = [[draw(st.integers(1, 150)), draw(st.integers(1, 30))] for _ in range(draw(st.integers(1, 2)))]
    return stim


