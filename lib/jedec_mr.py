"""Independent JEDEC mode-register decoders (oracle of C17).

Written from the JEDEC standards (JESD21-C SDR, JESD79 DDR, JESD209 LPDDR, JESD79-2 DDR2, JESD79-3 DDR3, JESD79-4 DDR4,
JESD209-4 LPDDR4, JESD209-5 LPDDR5, JESD82-31 DDR4 RCD), NOT from litedram/init.py.  Nothing here imports litedram.

A register layout is a list of Field(name, bits, table): `bits` are the address/opcode bit positions LSB first, `table` maps
the field code to its meaning (None = the code itself).  decode_reg() extracts every field, reports reserved codes and
any set bit that belongs to no field (how an overflowing / overlapping neighbour shows up), and re-assembles the value
from the decoded codes (must reproduce the input).

decode_state(memtype, writes) folds an ordered list of mode-register writes [(ba, a), ...] into the state the DRAM ends up
with: burst length, CAS latency, CAS write latency, write recovery ... plus the list of problems found on the way.
"""


class Field:
    def __init__(self, name, bits, table=None):
        self.name, self.bits, self.table = name, list(bits), table

    def code(self, value):
        c = 0
        for i, b in enumerate(self.bits):
            c |= ((value >> b) & 1) << i
        return c

    def place(self, code):
        v = 0
        for i, b in enumerate(self.bits):
            v |= ((code >> i) & 1) << b
        return v


def _seq(lo, n):
    return list(range(lo, lo + n))


def decode_reg(layout, value, width):
    """-> (fields {name: meaning}, codes {name: code}, problems [str])"""
    fields, codes, problems = {}, {}, []
    covered = 0
    rebuilt = 0
    for f in layout:
        m = f.place((1 << len(f.bits)) - 1)
        if covered & m:
            raise AssertionError("decoder layout overlaps itself at %s" % f.name)
        covered |= m
        c = f.code(value)
        codes[f.name] = c
        rebuilt |= f.place(c)
        if f.table is None:
            fields[f.name] = c
        elif c in f.table:
            fields[f.name] = f.table[c]
        else:
            fields[f.name] = None
            problems.append("field %s holds reserved code 0b%s" % (f.name, format(c, "0%db" % len(f.bits))))
    if value < 0 or value >> width:
        problems.append("value 0x%x does not fit in %d address/opcode bits" % (value, width))
    stray = value & ~covered & ((1 << width) - 1)
    if stray:
        problems.append("bits 0x%x set outside every defined field (reserved / overflow of a neighbouring field)" % stray)
    if rebuilt != (value & covered):
        raise AssertionError("decoder cannot rebuild the value")
    return fields, codes, problems


# ---------------------------------------------------------------------------------------------------------------
# SDR SDRAM (JESD21-C 3.11.5): A2:A0 BL, A3 BT, A6:A4 CL, A8:A7 operating mode, A9 write burst mode
SDR_MR = [Field("BL", [0, 1, 2], {0: 1, 1: 2, 2: 4, 3: 8, 7: "page"}), Field("BT", [3], {0: "sequential", 1: "interleave"}),
          Field("CL", [4, 5, 6], {1: 1, 2: 2, 3: 3}), Field("OPMODE", [7, 8], {0: "standard"}), Field("WB", [9], {0: "burst", 1: "single"})]

# DDR SDRAM (JESD79F): MR A2:A0 BL, A3 BT, A6:A4 CL, A12:A7 operating mode (0 normal, 2 = normal + DLL reset)
DDR_MR = [Field("BL", [0, 1, 2], {1: 2, 2: 4, 3: 8}), Field("BT", [3], {0: "sequential", 1: "interleave"}),
          Field("CL", [4, 5, 6], {2: 2, 3: 3, 5: 1.5, 6: 2.5}), Field("OPMODE", _seq(7, 6), {0: "normal", 2: "dll_reset"})]
DDR_EMR = [Field("DLL", [0], {0: "enable", 1: "disable"}), Field("DS", [1], {0: "normal", 1: "weak"}), Field("QFC", [2], {0: "disable", 1: "enable"}),
           Field("OPMODE", _seq(3, 10), {0: "normal"})]

# LPDDR (mobile DDR, JESD209B): MR BA=00: A2:A0 BL, A3 BT, A6:A4 CL, rest 0 ; EMR BA=10: A2:A0 PASR, A4:A3 TCSR, A7:A5 DS
LPDDR_MR = [Field("BL", [0, 1, 2], {1: 2, 2: 4, 3: 8, 4: 16}), Field("BT", [3], {0: "sequential", 1: "interleave"}),
            Field("CL", [4, 5, 6], {2: 2, 3: 3}), Field("OPMODE", _seq(7, 6), {0: "normal"})]
LPDDR_EMR = [Field("PASR", [0, 1, 2], {0: "full", 1: "half", 2: "quarter", 5: "eighth", 6: "sixteenth"}), Field("TCSR", [3, 4]),
             Field("DS", [5, 6, 7], {0: "full", 1: "half", 2: "quarter", 3: "eighth", 4: "three-quarter"}), Field("OPMODE", _seq(8, 5), {0: "normal"})]

# DDR2 (JESD79-2F)
DDR2_MR = [Field("BL", [0, 1, 2], {2: 4, 3: 8}), Field("BT", [3], {0: "sequential", 1: "interleave"}),
           Field("CL", [4, 5, 6], {2: 2, 3: 3, 4: 4, 5: 5, 6: 6, 7: 7}), Field("TM", [7], {0: "normal"}), Field("DLL_RESET", [8]),
           Field("WR", [9, 10, 11], {1: 2, 2: 3, 3: 4, 4: 5, 5: 6, 6: 7, 7: 8}), Field("PD", [12], {0: "fast", 1: "slow"})]
DDR2_EMR1 = [Field("DLL", [0], {0: "enable", 1: "disable"}), Field("ODS", [1], {0: "full", 1: "reduced"}),
             Field("RTT", [2, 6], {0: "disabled", 1: "75ohm", 2: "150ohm", 3: "50ohm"}), Field("AL", [3, 4, 5], {0: 0, 1: 1, 2: 2, 3: 3, 4: 4, 5: 5, 6: 6}),
             Field("OCD", [7, 8, 9], {0: "exit", 1: "drive1", 2: "drive0", 4: "adjust", 7: "default"}), Field("DQS_N", [10], {0: "enable", 1: "disable"}),
             Field("RDQS", [11], {0: "disable", 1: "enable"}), Field("QOFF", [12], {0: "enabled", 1: "disabled"})]
DDR2_EMR2 = [Field("PASR", [0, 1, 2]), Field("DCC", [3]), Field("SRT", [7]), ]
DDR2_EMR3 = []

# DDR3 (JESD79-3F)
DDR3_CL = {0b0010: 5, 0b0100: 6, 0b0110: 7, 0b1000: 8, 0b1010: 9, 0b1100: 10, 0b1110: 11, 0b0001: 12, 0b0011: 13, 0b0101: 14, 0b0111: 15, 0b1001: 16}
DDR3_WR = {0: 16, 1: 5, 2: 6, 3: 7, 4: 8, 5: 10, 6: 12, 7: 14}
DDR3_MR0 = [Field("BL", [0, 1], {0: 8, 1: "otf", 2: 4}), Field("CL", [2, 4, 5, 6], DDR3_CL), Field("RBT", [3], {0: "sequential", 1: "interleave"}),
            Field("TM", [7], {0: "normal"}), Field("DLL_RESET", [8]), Field("WR", [9, 10, 11], DDR3_WR), Field("PPD", [12], {0: "slow", 1: "fast"})]
DDR3_MR1 = [Field("DLL", [0], {0: "enable", 1: "disable"}), Field("RON", [1, 5], {0: "40ohm", 1: "34ohm"}),
            Field("RTT_NOM", [2, 6, 9], {0: "disabled", 1: "60ohm", 2: "120ohm", 3: "40ohm", 4: "20ohm", 5: "30ohm"}),
            Field("AL", [3, 4], {0: 0, 1: "CL-1", 2: "CL-2"}), Field("WRLVL", [7]), Field("TDQS", [11]), Field("QOFF", [12], {0: "enabled", 1: "disabled"})]
DDR3_MR2 = [Field("PASR", [0, 1, 2]), Field("CWL", [3, 4, 5], {0: 5, 1: 6, 2: 7, 3: 8, 4: 9, 5: 10, 6: 11, 7: 12}), Field("ASR", [6]), Field("SRT", [7]),
            Field("RTT_WR", [9, 10], {0: "disabled", 1: "60ohm", 2: "120ohm"})]
DDR3_MR3 = [Field("MPR_LOC", [0, 1]), Field("MPR", [2])]

# DDR4 (JESD79-4B)
DDR4_CL = {0b00000: 9, 0b00001: 10, 0b00010: 11, 0b00011: 12, 0b00100: 13, 0b00101: 14, 0b00110: 15, 0b00111: 16, 0b01000: 18, 0b01001: 20,
           0b01010: 22, 0b01011: 24, 0b01100: 23, 0b01101: 17, 0b01110: 19, 0b01111: 21, 0b10000: 25, 0b10001: 26, 0b10010: 27, 0b10011: 28,
           0b10100: 29, 0b10101: 30, 0b10110: 31, 0b10111: 32}
DDR4_WR = {0b0000: 10, 0b0001: 12, 0b0010: 14, 0b0011: 16, 0b0100: 18, 0b0101: 20, 0b0110: 24, 0b0111: 22, 0b1000: 26, 0b1001: 28}
DDR4_MR0 = [Field("BL", [0, 1], {0: 8, 1: "otf", 2: 4}), Field("CL", [2, 4, 5, 6, 12], DDR4_CL), Field("RBT", [3], {0: "sequential", 1: "interleave"}),
            Field("TM", [7], {0: "normal"}), Field("DLL_RESET", [8]), Field("WR", [9, 10, 11, 13], DDR4_WR)]
DDR4_MR1 = [Field("DLL", [0], {1: "enable", 0: "disable"}), Field("RON", [1, 2], {0: "34ohm", 1: "48ohm"}), Field("AL", [3, 4], {0: 0, 1: "CL-1", 2: "CL-2"}),
            Field("WRLVL", [7]), Field("RTT_NOM", [8, 9, 10], {0: "disabled", 1: "60ohm", 2: "120ohm", 3: "40ohm", 4: "240ohm", 5: "48ohm", 6: "80ohm", 7: "34ohm"}),
            Field("TDQS", [11]), Field("QOFF", [12], {0: "enabled", 1: "disabled"})]
DDR4_MR2 = [Field("CWL", [3, 4, 5], {0: 9, 1: 10, 2: 11, 3: 12, 4: 14, 5: 16, 6: 18, 7: 20}), Field("LPASR", [6, 7]),
            Field("RTT_WR", [9, 10, 11], {0: "disabled", 1: "120ohm", 2: "240ohm", 3: "high-z", 4: "80ohm"}), Field("WCRC", [12])]
DDR4_MR3 = [Field("MPR_PAGE", [0, 1]), Field("MPR", [2]), Field("GEARDOWN", [3]), Field("PDA", [4]), Field("TSR", [5]),
            Field("FGR", [6, 7, 8], {0: "1x", 1: "2x", 2: "4x", 5: "otf2x", 6: "otf4x"}), Field("WCL", [9, 10]), Field("MPR_FMT", [11, 12])]
DDR4_MR4 = [Field("MPDM", [1]), Field("TCRR", [2]), Field("TCRM", [3]), Field("IVREF", [4]), Field("CAL", [6, 7, 8]), Field("SRA", [9]),
            Field("RPT", [10]), Field("RPRE", [11]), Field("WPRE", [12])]
DDR4_MR5 = [Field("CAPL", [0, 1, 2]), Field("CRC_ERR", [3]), Field("CAP_ERR", [4]), Field("ODT_IBUF", [5]), Field("RTT_PARK", [6, 7, 8]),
            Field("CAP_PERSIST", [9]), Field("DM", [10]), Field("WDBI", [11]), Field("RDBI", [12])]
DDR4_MR6 = [Field("VREFDQ", _seq(0, 6)), Field("VREFDQ_RANGE", [6]), Field("VREFDQ_TRAIN", [7]), Field("TCCD_L", [10, 11, 12], {0: 4, 1: 5, 2: 6, 3: 7, 4: 8})]

# LPDDR4 (JESD209-4B)
LP4_NWR = {0: 6, 1: 10, 2: 16, 3: 20, 4: 24, 5: 30, 6: 34, 7: 40}
LP4_RL = {False: {0: 6, 1: 10, 2: 14, 3: 20, 4: 24, 5: 28, 6: 32, 7: 36}, True: {0: 6, 1: 12, 2: 16, 3: 22, 4: 28, 5: 32, 6: 36, 7: 40}}   # key: DBI-RD
LP4_WL = {0: {0: 4, 1: 6, 2: 8, 3: 10, 4: 12, 5: 14, 6: 16, 7: 18}, 1: {0: 4, 1: 8, 2: 12, 3: 18, 4: 22, 5: 26, 6: 30, 7: 34}}                # key: WLS
LP4_MR1 = [Field("BL", [0, 1], {0: 16, 1: 32, 2: "otf"}), Field("WPRE", [2], {1: "2tCK"}), Field("RPRE", [3], {0: "static", 1: "toggle"}),
           Field("NWR", [4, 5, 6], LP4_NWR), Field("RPST", [7], {0: "0.5tCK", 1: "1.5tCK"})]
LP4_MR2 = [Field("RL", [0, 1, 2]), Field("WL", [3, 4, 5]), Field("WLS", [6]), Field("WRLEV", [7])]
LP4_MR3 = [Field("PUCAL", [0]), Field("WPST", [1]), Field("PPRP", [2]), Field("PDDS", [3, 4, 5], {1: "RZQ/1", 2: "RZQ/2", 3: "RZQ/3", 4: "RZQ/4", 5: "RZQ/5", 6: "RZQ/6"}),
           Field("DBI_RD", [6]), Field("DBI_WR", [7])]
_LP_ODT = {0: "disable", 1: "RZQ/1", 2: "RZQ/2", 3: "RZQ/3", 4: "RZQ/4", 5: "RZQ/5", 6: "RZQ/6"}
LP4_MR11 = [Field("DQ_ODT", [0, 1, 2], _LP_ODT), Field("CA_ODT", [4, 5, 6], _LP_ODT)]
_LP4_VREF = dict((i, i) for i in range(0b110010 + 1))
LP4_MR12 = [Field("VREF_CA", _seq(0, 6), _LP4_VREF), Field("VR_CA", [6])]
LP4_MR14 = [Field("VREF_DQ", _seq(0, 6), _LP4_VREF), Field("VR_DQ", [6])]
LP4_MR13 = [Field("CBT", [0]), Field("RPT", [1]), Field("VRO", [2]), Field("VRCG", [3]), Field("RRO", [4]), Field("DMD", [5]), Field("FSP_WR", [6]), Field("FSP_OP", [7])]
# one row of the JEDEC "frequency ranges for RL, WL, nWR" table: (RL no DBI, WL set A, nWR, max clock MHz)
LP4_ROWS = [(6, 4, 6, 266), (10, 6, 10, 533), (14, 8, 16, 800), (20, 10, 20, 1066), (24, 12, 24, 1333), (28, 14, 30, 1600), (32, 16, 34, 1866), (36, 18, 40, 2133)]

# LPDDR5 (JESD209-5A), x16, DVFSC disabled, read link ECC off / DBI off (RL set 0), WL set A
LP5_WL_A = {2: {0: 4, 1: 4, 2: 6, 3: 8, 4: 8, 5: 10},
            4: {0: 2, 1: 2, 2: 3, 3: 4, 4: 4, 5: 5, 6: 6, 7: 6, 8: 7, 9: 8, 10: 9, 11: 9}}
LP5_WL_B = {2: {0: 4, 1: 6, 2: 8, 3: 10, 4: 14, 5: 16},
            4: {0: 2, 1: 3, 2: 4, 3: 5, 4: 7, 5: 8, 6: 9, 7: 11, 8: 12, 9: 14, 10: 15, 11: 16}}
LP5_RL_0 = {2: {0: 6, 1: 8, 2: 10, 3: 12, 4: 16, 5: 18},
            4: {0: 3, 1: 4, 2: 5, 3: 6, 4: 8, 5: 9, 6: 10, 7: 12, 8: 13, 9: 15, 10: 16, 11: 17}}
LP5_NWR = {2: {0: 5, 1: 10, 2: 14, 3: 19, 4: 24, 5: 28},
           4: {0: 3, 1: 5, 2: 7, 3: 10, 4: 12, 5: 14, 6: 16, 7: 19, 8: 21, 9: 24, 10: 26, 11: 28}}
LP5_MR1 = [Field("CK_MODE", [3], {0: "differential", 1: "single-ended"}), Field("WL", [4, 5, 6, 7])]
LP5_MR2 = [Field("RL", [0, 1, 2, 3]), Field("NWR", [4, 5, 6, 7])]
LP5_MR3 = [Field("PDDS", [0, 1, 2], {1: "RZQ/1", 2: "RZQ/2", 3: "RZQ/3", 4: "RZQ/4", 5: "RZQ/5", 6: "RZQ/6"}), Field("BK_ORG", [3, 4], {0: "BG", 1: "8B", 2: "16B"}),
           Field("WLS", [5]), Field("DBI_RD", [6]), Field("DBI_WR", [7])]
LP5_MR18 = [Field("WCK_ODT", [0, 1, 2], _LP_ODT), Field("WCK_FM", [3]), Field("WCK_ON", [4]), Field("WCK2CK_LEV", [6]), Field("CKR", [7], {0: 4, 1: 2})]
LP5_MR11 = [Field("DQ_ODT", [0, 1, 2], _LP_ODT), Field("NT_ODT", [3]), Field("CA_ODT", [4, 5, 6], _LP_ODT)]
LP5_MR12 = [Field("VREF_CA", _seq(0, 7)), Field("VBS", [7])]
LP5_MR14 = [Field("VREF_DQ_L", _seq(0, 7)), Field("VDLC", [7])]
LP5_MR15 = [Field("VREF_DQ_U", _seq(0, 7))]
LP5_BYTE = [Field("OP", _seq(0, 8))]

LAYOUTS = {
    "SDR": (13, {0: ("MR", SDR_MR)}),
    "DDR": (13, {0: ("MR", DDR_MR), 1: ("EMR", DDR_EMR)}),
    "LPDDR": (13, {0: ("MR", LPDDR_MR), 2: ("EMR", LPDDR_EMR)}),
    "DDR2": (13, {0: ("MR", DDR2_MR), 1: ("EMR1", DDR2_EMR1), 2: ("EMR2", DDR2_EMR2), 3: ("EMR3", DDR2_EMR3)}),
    "DDR3": (13, {0: ("MR0", DDR3_MR0), 1: ("MR1", DDR3_MR1), 2: ("MR2", DDR3_MR2), 3: ("MR3", DDR3_MR3)}),
    "DDR4": (14, {0: ("MR0", DDR4_MR0), 1: ("MR1", DDR4_MR1), 2: ("MR2", DDR4_MR2), 3: ("MR3", DDR4_MR3), 4: ("MR4", DDR4_MR4),
                  5: ("MR5", DDR4_MR5), 6: ("MR6", DDR4_MR6)}),
    "LPDDR4": (8, {1: ("MR1", LP4_MR1), 2: ("MR2", LP4_MR2), 3: ("MR3", LP4_MR3), 11: ("MR11", LP4_MR11), 12: ("MR12", LP4_MR12),
                   13: ("MR13", LP4_MR13), 14: ("MR14", LP4_MR14)}),
    "LPDDR5": (8, {1: ("MR1", LP5_MR1), 2: ("MR2", LP5_MR2), 3: ("MR3", LP5_MR3), 11: ("MR11", LP5_MR11), 12: ("MR12", LP5_MR12),
                   14: ("MR14", LP5_MR14), 15: ("MR15", LP5_MR15), 18: ("MR18", LP5_MR18),
                   10: ("MR10", LP5_BYTE), 13: ("MR13", LP5_BYTE), 17: ("MR17", LP5_BYTE), 20: ("MR20", LP5_BYTE), 22: ("MR22", LP5_BYTE),
                   28: ("MR28", LP5_BYTE)}),
}
# number of bank-address bits that select the register (DDR4: BG0 BA1 BA0 ; BG1 must be 0 for MRS)
BA_BITS = {"SDR": 2, "DDR": 2, "LPDDR": 2, "DDR2": 3, "DDR3": 3, "DDR4": 3, "LPDDR4": 6, "LPDDR5": 7}
MEMTYPES = sorted(LAYOUTS)

# DDR4 RDIMM (JESD82-31): register control words are written with MRS to MR7.  4-bit control words RC00..RC0F: A7:A4 = word, A3:A0 = value;
# 8-bit control words RC1x..RCBx: A11:A8 = word, A7:A0 = value.  Inverted on the B side: A3..A9, A11, A13, BA0-1, BG0-1.
RCD_MR = 7
RDIMM_B_A_MASK = sum(1 << b for b in (3, 4, 5, 6, 7, 8, 9, 11, 13))
RDIMM_B_BA_MASK = 0b1111
RCD_COARSE_MTS = {0: 1600, 1: 1866, 2: 2133, 3: 2400, 4: 2666, 5: 2933, 6: 3200}     # RC0A DA[2:0]; 7 = PLL bypass
# clam-shell / mirrored-rank wiring (JESD21-C DDR4 module mirroring, x16: no BG1): the bottom device sees these pins swapped
MIRROR_A = [(3, 4), (5, 6), (7, 8), (11, 13)]
MIRROR_BA = [(0, 1)]


def mirror(value, pairs):
    out = value
    for x, y in pairs:
        bx, by = (value >> x) & 1, (value >> y) & 1
        out &= ~((1 << x) | (1 << y))
        out |= (by << x) | (bx << y)
    return out


def decode_rcd(a):
    """-> (word name, value) of a register control word write"""
    if a & 0xF00:
        return "RC%Xx" % ((a >> 8) & 0xF), a & 0xFF
    return "RC%02X" % ((a >> 4) & 0xF), a & 0xF


def decode_write(memtype, ba, a):
    """one mode-register write -> (register name or None, fields, codes, problems)"""
    width, regs = LAYOUTS[memtype]
    problems = []
    if ba < 0 or ba >> BA_BITS[memtype]:
        problems.append("bank/MR address %d outside the %d register-select bits" % (ba, BA_BITS[memtype]))
    if ba not in regs:
        problems.append("write to undefined mode register %d" % ba)
        return None, {}, {}, problems
    name, layout = regs[ba]
    fields, codes, p = decode_reg(layout, a, width)
    return name, fields, codes, problems + ["%s: %s" % (name, x) for x in p]


def decode_state(memtype, writes, wck_ck_ratio=None):
    """writes: ordered [(ba, a)].  Returns dict(regs={name: fields of the LAST write}, every=[(name, fields)], problems=[...],
    bl, cl, cwl, wr, al ... where the type defines them (None otherwise))."""
    regs, every, problems = {}, [], []
    for ba, a in writes:
        name, fields, codes, p = decode_write(memtype, ba, a)
        problems += p
        if name is not None:
            regs[name] = fields
            every.append((name, fields))
    st = dict(regs=regs, every=every, problems=problems, bl=None, cl=None, cwl=None, wr=None, al=0)
    g = lambda r, f: regs.get(r, {}).get(f)
    if memtype in ("SDR", "DDR", "LPDDR"):
        st["bl"], st["cl"] = g("MR", "BL"), g("MR", "CL")
        if memtype == "SDR" and g("MR", "WB") == "single":
            st["bl_write"] = 1
    elif memtype == "DDR2":
        st["bl"], st["cl"], st["wr"] = g("MR", "BL"), g("MR", "CL"), g("MR", "WR")
        st["al"] = g("EMR1", "AL") if "EMR1" in regs else 0
        if st["cl"] is not None and st["al"] is not None:
            st["cwl"] = st["cl"] + st["al"] - 1            # DDR2: WL = RL - 1 = AL + CL - 1 (derived, no register field)
    elif memtype in ("DDR3", "DDR4"):
        st["bl"], st["cl"], st["wr"] = g("MR0", "BL"), g("MR0", "CL"), g("MR0", "WR")
        st["cwl"] = g("MR2", "CWL")
        st["al"] = g("MR1", "AL") if "MR1" in regs else 0
    elif memtype == "LPDDR4":
        st["bl"], st["wr"] = g("MR1", "BL"), g("MR1", "NWR")
        dbi = bool(g("MR3", "DBI_RD")) if "MR3" in regs else False
        wls = g("MR2", "WLS") or 0
        if "MR2" in regs:
            st["cl"] = LP4_RL[dbi].get(g("MR2", "RL"))
            st["cwl"] = LP4_WL[wls].get(g("MR2", "WL"))
    elif memtype == "LPDDR5":
        ckr = g("MR18", "CKR")
        st["wck_ck_ratio"] = ckr
        ratio = ckr if ckr is not None else wck_ck_ratio
        org = g("MR3", "BK_ORG")
        st["bl"] = {"BG": 16, "16B": 16, "8B": 32}.get(org)
        if ratio in (2, 4) and "MR1" in regs and "MR2" in regs:
            wls = g("MR3", "WLS") or 0
            if g("MR3", "DBI_RD"):
                problems.append("MR3: read DBI enabled: RL set 0 table does not apply (decoder covers set 0 only)")
            st["cwl"] = (LP5_WL_B if wls else LP5_WL_A)[ratio].get(g("MR1", "WL"))
            st["cl"] = LP5_RL_0[ratio].get(g("MR2", "RL"))
            st["wr"] = LP5_NWR[ratio].get(g("MR2", "NWR"))
            for nm, v in (("WL", st["cwl"]), ("RL", st["cl"]), ("nWR", st["wr"])):
                if v is None:
                    problems.append("LPDDR5 %s code is reserved for WCK:CK = %d:1" % (nm, ratio))
    return st


def wr_table(memtype, wck_ck_ratio=None):
    """encodable write-recovery values of the type (sorted), [] if the type has no such field"""
    if memtype == "DDR2":
        return sorted(DDR2_MR[5].table.values())
    if memtype == "DDR3":
        return sorted(DDR3_WR.values())
    if memtype == "DDR4":
        return sorted(DDR4_WR.values())
    if memtype == "LPDDR4":
        return sorted(LP4_NWR.values())
    if memtype == "LPDDR5":
        return sorted(set(LP5_NWR[wck_ck_ratio or 2].values()))
    return []
