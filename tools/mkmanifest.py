#!/venv/bin/python
"""Regenerates MANIFEST.json from the table below (one place for level texts and not_applicable reasons)."""
import json, os
ROOT = os.path.dirname(os.path.dirname(os.path.abspath(__file__)))

CHECKS = {
 "C16": dict(
    category="exploration",
    text="Dense deterministic grid (every module class x speedgrade x rate x fine-refresh mode x controller clock) plus Hypothesis-drawn "
         "off-grid clocks built to land on rounding boundaries, each compared with exact rational datasheet arithmetic; SPD images and "
         "byte-mutated copies compared with an independent SPD decode. The domain is a pure function of five parameters, so a dense "
         "sweep plus boundary-seeking generation is the right depth; not exhaustive over real-valued clocks.",
    design_ref="DESIGN.md section 3, C16",
    note="Trusts the (ck, ns) tables of litedram/modules.py as the datasheet, Fraction arithmetic, and lib/spd.py's transcription of the JEDEC SPD byte map.",
    technique="property-based testing: grid + Hypothesis generated clocks against an exact-rational reference (differential oracle)"),
}

NOT_YET = {}

def main():
    props = [json.loads(l) for l in open(os.path.join(ROOT, "properties.jsonl"))]
    checks = []
    na = []
    for p in props:
        pid = p["id"]
        if pid in CHECKS:
            c = CHECKS[pid]
            checks.append(dict(
                property_id=pid,
                quick_cmd="/venv/bin/python run.py %s --tier quick" % pid,
                thorough_cmd="/venv/bin/python run.py %s --tier thorough" % pid,
                evidence_file="evidence/%s.json" % pid,
                replay_cmd_template="/venv/bin/python run.py %s --replay {path}" % pid,
                engine="runner",
                level_claimed=dict(category=c["category"], text=c["text"], design_ref=c["design_ref"]),
                level_note=c["note"],
                technique=c["technique"]))
        else:
            na.append(dict(property_id=pid, reason=NOT_YET.get(pid, "check not built yet in this round (planned in DESIGN.md section 3); not claimed until its check is registered")))
    man = dict(
        version=1,
        setup_cmd="/venv/bin/python -c 'import hypothesis' 2>/dev/null || /venv/bin/pip install --no-index --find-links /opt/veriftools/wheels hypothesis",
        hooks=dict(guard="LITEDRAM_VERIF", enable="no source hooks are needed: checks import litedram from /repo's working tree (PYTHONPATH) and observe public attributes; run.py sets LITEDRAM_VERIF=1 for completeness",
                   baseline_off_cmd="cd /repo && env -u LITEDRAM_VERIF /venv/bin/python -m pytest -ra -q -p no:cacheprovider --timeout=900 --continue-on-collection-errors",
                   source_commits=[], add_only=True),
        engines=[dict(name="runner", path="run.py", serves_properties=sorted(CHECKS), kind_free_text="Hypothesis-driven generated search sharded over 16 processes; compiled cycle simulator (lib/fastsim.py) with stock migen.sim as confirming backend; independent reference models as oracles")],
        checks=checks,
        notes="All checks: cwd=/verif, read VERIF_SEED, write evidence/<id>.json, exit 0/1/2 (2 = harness error, never a verdict). Known findings: known_findings.json.",
        not_applicable=na)
    with open(os.path.join(ROOT, "MANIFEST.json"), "w") as f:
        json.dump(man, f, indent=1)
    print("MANIFEST.json: %d checks, %d not claimed" % (len(checks), len(na)))

if __name__ == "__main__":
    main()
