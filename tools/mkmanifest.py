#!/venv/bin/python
"""Regenerates MANIFEST.json from the table below (one place for level texts and not_applicable reasons)."""
import json, os
ROOT = os.path.dirname(os.path.dirname(os.path.abspath(__file__)))

SIMNOTE = ("Trusts Migen's elaboration and migen.sim semantics (every violation is re-run on the stock simulator before it is reported; the compiled simulator "
           "lib/fastsim.py is differentially self-tested at the start of each run), Hypothesis, and the reference models named in DESIGN.md section 5.")
PBT = "property-based testing (Hypothesis generated configurations and traffic, 16 seeded shards) against "

CHECKS = {
 "C01": dict(category="exploration", design_ref="DESIGN.md section 3, C01",
    text="Whole core (controller + crossbar, 1-8 ports) against an independent reference DRAM at the DFI boundary: generated configurations (memory type/rate, latencies, phases, geometry, "
         "timings, buffer depth/buffered, auto-precharge, refresh, ranks, bank alignment) x generated multi-port traffic on colliding locations; every read beat and the final DRAM contents are "
         "compared with a byte reference memory updated in command-acceptance order. Bounded exploration of an unbounded schedule space is what this family can give; sizes are thousands of cases per run.",
    note=SIMNOTE + " Reference DRAM models the DFI boundary as PhySettings defines it; conforming master as in the property statement; rowbits >= 11 and > colbits when colbits > 10.",
    technique=PBT + "a reference memory / independent DRAM model (model-based oracle)"),
 "C02": dict(category="exploration", design_ref="DESIGN.md section 3, C02",
    text="Same whole-core campaign biased to two ranks, auto-precharge, refresh every 100-200 cycles and ZQCS; a JEDEC state-legality monitor decodes every DFI phase of every cycle (ACT only on precharged "
         "banks, RD/WR only on the open row, REF/ZQ only with all banks closed, data-enable strobes on the PHY phases, chip selects) and every RD/WR must be the oldest outstanding request of its bank under the independent address map.",
    note=SIMNOTE + " JEDEC truth table as transcribed in lib/refdram.py; lib/addrmap.py written from the mapping's documentation.",
    technique=PBT + "a DRAM bank-state monitor and an independent address map (invariant over the command history)"),
 "C03": dict(category="exploration", design_ref="DESIGN.md section 3, C03",
    text="Whole core configured from library module classes (and generated classes in the library's entry style) at generated clocks; a timing monitor measures every command pair on the DFI bus in DRAM clocks "
         "(phase positions included) against requirements computed with exact rational arithmetic from the (ck, ns) datasheet entries: tRCD, tRP, tRAS, tRC, tRRD, tFAW, tCCD, write recovery, write-to-read, tRFC, tZQCS, "
         "for explicit, automatic and refresh precharges.",
    note=SIMNOTE + " (ck, ns) tables of modules.py are the datasheet; tRTP is not in the property and not checked; RPC/LPDDR4 excluded from the dynamic campaign (C16 covers their conversion).",
    technique=PBT + "exact-rational datasheet requirements evaluated by a timing monitor over the DFI command history"),
 "C04": dict(category="exploration", design_ref="DESIGN.md section 3, C04",
    text="Whole core with refresh on under traffic from idle to saturating looped streams for >= 3.5 refresh sequences: k-th refresh no later than (k + postponing) datasheet intervals + a configuration-only latency L, "
         "sequences never earlier than / later than L after their free-running request instants, exact idle periodicity with period <= postponing x datasheet tREFI, precharge-all before each refresh, traffic resumes, ZQCS recurrence. "
         "Unbounded time is decided in bounded form (a drift or starvation accumulates and crosses the bound).",
    note=SIMNOTE + " L is a stated function of the configuration; runs are bounded (thousands of cycles).",
    technique=PBT + "a refresh-schedule monitor with exact-rational datasheet interval (invariant over the history)"),
 "C05": dict(category="exploration", design_ref="DESIGN.md section 3, C05",
    text="Whole core with a victim port and adversary ports generated from adversarial strategies looped for longer than the bound: every offered command must be accepted and every accepted command must get its data "
         "phase within B(configuration). Liveness is decided in bounded form. Two genuine defects are listed as known findings with exact signatures (arbiter grant / bank lock trace; chooser never selecting a continuously valid request) "
         "so that the search continues behind them.",
    note=SIMNOTE + " B is a stated function of the configuration only; read_time/write_time = 0 (anti-starvation disabled) are outside the domain.",
    technique=PBT + "a bounded-response monitor with a configuration-only bound; known findings matched by internal-signal signatures"),
 "C06": dict(category="exploration", design_ref="DESIGN.md section 3, C06",
    text="Static: for generated geometries every port address (exhaustive when the space is <= 2^17, else 20 000 structured addresses) is routed through the real crossbar's combinational logic and the real address slicer: "
         "injective, onto, equal to an independent documentation-derived map, A10 never a column bit, burst aligned. Dynamic: single commands through the whole core, ACT/RD/WR bank/row/column on DFI against the same map.",
    note=SIMNOTE + " bank_byte_alignment between one data word and one rank's row-column space.",
    technique="exhaustive enumeration per small geometry + " + PBT + "an independent address map (differential oracle)"),
 "C07": dict(category="exploration", design_ref="DESIGN.md section 3, C07",
    text="Up (1:2..1:32) and down (2:1..8:1) converters, all modes, reverse on/off, between a conforming user-side master (ascending/descending/repeated/random addresses inside a wide word, cmd.last, flush at end) and a realistic "
         "controller-side slave (one-cycle strobes regardless of valid/ready); byte reference memory in user command order, beat counts, final memory, no lost strobe, no invented command. In one case in four the memory side is a stream-style port instead (valid/ready queues that accept write data ahead of its command: what the user side of the repository's own converters and CDC port shows, the composition gen.py builds).",
    note=SIMNOTE + " The realistic slave only shows behaviour the real crossbar can show; a master that waits for read data marks that read with cmd.last as documented.",
    technique=PBT + "a byte-accurate reference memory (model-based oracle)"),
 "C08": dict(category="exploration", design_ref="DESIGN.md section 3, C08",
    text="LiteDRAMNativePortCDC under generated clock period pairs (equal, integer ratios, co-prime drifting) and phases, FIFO depths, back-pressure: stream equality of commands, write words and read words across the crossing plus "
         "the memory oracle. Two genuine defects (read-data FIFO overrun; write data lagging commands with shallow non-default FIFOs) are known findings with event-count signatures. In one case in four the memory side is a stream-style port instead (valid/ready queues that accept write data ahead of its command: what the user side of the repository's own converters and CDC port shows, the composition gen.py builds).",
    note=SIMNOTE + " Migen TimeManager clock semantics; even periods.",
    technique=PBT + "stream equality across the crossing and a reference memory, multi-clock simulation with generated clock pairs"),
 "C10": dict(category="exploration", design_ref="DESIGN.md section 3, C10",
    text="LiteDRAMWishbone2Native for bus:port ratios 1/8..8 and base addresses and LiteDRAMNative2Wishbone (word/byte addressing): classic cycles, incrementing bursts, any sel, back-to-back, aborts at generated cycles; "
         "one acknowledge per non-aborted access, none outside a cycle, byte reference memory with allowed sets (bytes selected by an aborted write are undefined, everything else untouched), no hang after aborts, final memory. In one case in four the memory side is a stream-style port instead (valid/ready queues that accept write data ahead of its command: what the user side of the repository's own converters and CDC port shows, the composition gen.py builds). (equal bus and port widths only, see DESIGN 8.2); the reverse bridge is driven over the whole native address range with bases up to 0x80000000.",
    note=SIMNOTE + " At a write strobe that finds no valid data the stub applies the data/enable wires like the real crossbar does.",
    technique=PBT + "a byte-accurate reference memory with per-byte allowed sets (model-based oracle)"),
 "C09": dict(category="exploration", design_ref="DESIGN.md section 3, C09 and 8",
    text="LiteDRAMAXI2Native (132 devices: data width, buffer depths 1-16, base addresses, id widths, with/without read-modify-write) between a conforming AXI4 master with independent stall schedules on all five channels "
         "(FIXED/INCR/WRAP, W leading or lagging AW, partial strobes, reads concurrent with writes) and the realistic native slave: one B per burst with the right ID and never before the data reached the memory, R beat counts/IDs/LAST, "
         "per-byte allowed sets for concurrent reads, final memory, RMW writes always full-enable, no lost strobe, no hang. In one case in four the memory side is a stream-style port instead (valid/ready queues that accept write data ahead of its command: what the user side of the repository's own converters and CDC port shows, the composition gen.py builds).",
    note=SIMNOTE + " Full-width transfer size only (the only size the bridge documents); AXI valid/payload stability is generated, not assumed of the bridge.",
    technique=PBT + "AXI protocol rules and a byte-accurate reference memory with allowed sets (model-based oracle)"),
 "C11": dict(category="exploration", design_ref="DESIGN.md section 3, C11 and 8",
    text="LiteDRAMAvalonMM2Native for 13 avalon:port width pairs (1/8..4, incl. the up- and down-converting builds), max_burst_length 2-64, base addresses, burst increments, between a conforming Avalon-MM master "
         "(single and burst accesses, any byte enables, write deasserted between beats, waitrequest honoured, address/burstcount don't-care after the first beat) and the realistic native slave: byte reference memory in command order, "
         "n readdatavalid beats per read burst in order, every accepted beat performed exactly once, final memory, no lost strobe, no hang. In one case in four the memory side is a stream-style port instead (valid/ready queues that accept write data ahead of its command: what the user side of the repository's own converters and CDC port shows, the composition gen.py builds). (equal widths only); accesses cover the bottom, middle and very top of the memory the native port declares, native address widths 9-30.",
    note=SIMNOTE + " What an Avalon master must hold during later beats of a burst is stated in the module's ASSUMPTIONS.",
    technique=PBT + "a byte-accurate reference memory (model-based oracle)"),
 "C12": dict(category="exploration", design_ref="DESIGN.md section 3, C12",
    text="LiteDRAMDMAReader / LiteDRAMDMAWriter on native ports (realistic slave with unconditional read strobes) and AXI ports (own AXI memory slave), FIFO depths 1-32, buffered or not, consumer stalled for hundreds of cycles with "
         "reads in flight: output stream = memory at the addresses in order with last marks, reads issued minus words delivered never exceeds the FIFO depth, no strobe ever lost, writer log = input pairs exactly once in order; plus writer->reader round trips on the whole core. In one case in four the memory side is a stream-style port instead (valid/ready queues that accept write data ahead of its command: what the user side of the repository's own converters and CDC port shows, the composition gen.py builds).",
    note=SIMNOTE + " CSR mode of the DMAs is out of scope.",
    technique=PBT + "stream equality with a reference memory and an outstanding-reads invariant"),
 "C13": dict(category="exploration", design_ref="DESIGN.md section 3, C13 and 8",
    text="LiteDRAMFIFO (bypass on: ratios 1-8; bypass off) and _LiteDRAMFIFO, depths 2-64 words, both ports on one acceptance-ordered realistic slave; streams 3-20x the depth with schedules that fill, drain and hover at the bypass threshold: "
         "output stream = input stream word by word, level <= depth, no write to an address holding an unread word, addresses inside the region, no lost strobe, no hang. Two genuine defects of the bypass FSM (ratio > 1) are known findings; a DRAM-mode exit with words still stored (own handshake count) is told apart from them. In one case in four the memory side is a stream-style port instead (valid/ready queues that accept write data ahead of its command: what the user side of the repository's own converters and CDC port shows, the composition gen.py builds).",
    note=SIMNOTE + " Known-finding signatures (FSM state at the first deviation) only qualify the key, never the verdict.",
    technique=PBT + "stream equality and occupancy tracking from port traffic (model-based oracle)"),
 "C17": dict(category="exploration", design_ref="DESIGN.md section 3, C17 and 8",
    text="Init sequences for PhySettings obtained by elaborating 35 real PHY variants over dense clock ranges x TimingSettings of every library module x electrical/RDIMM/clam-shell options: mode registers decoded with independent JEDEC decoders "
         "(burst length, CL, CWL equal the controller's, write recovery covers datasheet tWR and stays within the controller's write-to-precharge budget, no field overlap/overflow), C and Python headers parsed back and compared.",
    note="Pure functions, no simulation. Trusts lib/jedec_mr.py's transcription of the JEDEC mode-register tables and the (ck, ns) tables of modules.py. Clocks at which no encodable write recovery covers tWR (beyond the speed bins) are counted, not judged.",
    technique="property-based testing: grid + Hypothesis over PHY/module/clock/options against independent JEDEC mode-register decoders and exact-rational datasheet arithmetic"),
 "C19": dict(category="exploration", design_ref="DESIGN.md section 3, C19 and 8",
    text="SDRAMPHYModel (SDR..DDR4 settings, library column counts incl. 2048, data widths 8-64, byte/word write enable, init images in both mappings) against the reference DRAM in lock-step, cycle by cycle on every phase: "
         "legal traces from a constructive scheduler (bank state + generated timing set, masks, auto-precharge, back-to-back bursts) and from the real controller's command stream; final read-back sweep; init image layout.",
    note=SIMNOTE + " Rows reduced to 4-32 (one simulator signal per memory word); tRCD/tRP/tRRD >= nphases clocks so that one bank never gets two commands in one controller cycle; multi-rank is documented as unsupported by the model.",
    technique=PBT + "an independent DRAM model in lock-step (differential oracle)"),
 "C20": dict(category="exploration", design_ref="DESIGN.md section 3, C20 and 8",
    text="LPDDR4 DFIPhaseAdapter x8 + CommandsPipeline (basic/extended), LPDDR4PHY core, double-rate PHY, pad-level simulation PHYs, LPDDR5 adapter and PHY: random commands of every type on every phase with spacings from overlapping to far apart; "
         "the CS/CA stream is decoded slot by slot with independent JESD209-4/-5 decoders and must equal the non-overlapped DFI commands at slot latency + phase, operands bit for bit; every operand bit must toggle in every shard; MPC op codes exhaustively.",
    note=SIMNOTE + " lib/jedec_ca.py is a transcription of the JEDEC truth tables from memory of the standards; single rank; vendor SERDES PHYs are not simulated.",
    technique=PBT + "independent JEDEC command decoders (round trip: encode by the PHY, decode by the reference)"),
 "C14": dict(category="exploration", design_ref="DESIGN.md section 3, C14 and 8",
    text="_LiteDRAMBISTGenerator/_LiteDRAMBISTChecker and the pattern variants on native ports (width 8-256, realistic two-port slave) and AXI ports (own AXI memory slave), driven exactly like the upstream driver: base, power-of-two range, length, "
         "random data/address flags, memory pre-loaded by a generator run or by the model, 0-4 corrupted words: write log = own PRBS31/counter model's (address, data) sequence inside [base, end), checker terminates with errors = number of differing sequence positions, "
         "zero over a faithful memory without address repeats, k corruptions -> exactly k; in a third of the cases the same instances have already done an earlier run with other settings (the cores are reset before every run, so it must not matter). The range defect (byte mask on the word counter), pinned by an upstream test, is a known finding; error counts stay checked in affected cases against the byte-masked addresses. In one case in four the memory side is a stream-style port instead (valid/ready queues that accept write data ahead of its command: what the user side of the repository's own converters and CDC port shows, the composition gen.py builds).",
    note=SIMNOTE + " lib/lfsr.py is cross-checked against a bit-serial PRBS31 recurrence and the pinned memory images of test_bist.py. CSR/CDC wrappers are not covered.",
    technique=PBT + "an independent LFSR/counter model of the sequence and an error-count oracle over generated corruption sets"),
 "C15": dict(category="fault_enumeration", design_ref="DESIGN.md section 3, C15 and 8",
    text="LiteDRAMNativePortECC (lane data widths 8/16/32/64, burst_cycles 1-8) between a conforming master and a memory stub whose stored words are XOR-ed with a flip mask: EVERY lane x EVERY stored bit position as a single flip "
         "(original data returned, never uncorrectable, counted as corrected exactly once unless it is the overall parity bit) and position PAIRS (quick: all singles + a seeded ~10% sample of pairs; thorough: all pairs, 8 data words each: 1.85 M double flips) "
         "-> uncorrectable counted, never clean or corrected; sticky flags, clear; full writes raise no granularity error, every other enable pattern (lanes enabled partially or not at all) does; stored code words have distance >= 4.",
    note=SIMNOTE + " lib/secded.py (textbook extended Hamming) is used for the distance cross-check only. For lanes whose stored width is not a whole number of bytes, memory-side enables/read-back after PARTIAL writes are not judged (lanes share bytes; the property only asks that such writes are reported).",
    technique="fault enumeration (every single flip, pairs enumerated or sampled by Hypothesis) + property-based byte-enable patterns against the SECDED contract"),
 "C16": dict(
    category="exploration",
    text="Dense deterministic grid (every module class x speedgrade x rate x fine-refresh mode x controller clock) plus Hypothesis-drawn "
         "off-grid clocks built to land on rounding boundaries, each compared with exact rational datasheet arithmetic; SPD images and "
         "byte-mutated copies compared with an independent SPD decode. The domain is a pure function of five parameters, so a dense "
         "sweep plus boundary-seeking generation is the right depth; not exhaustive over real-valued clocks.",
    design_ref="DESIGN.md section 3, C16",
    note="Trusts the (ck, ns) tables of litedram/modules.py as the datasheet, Fraction arithmetic, and lib/spd.py's transcription of the JEDEC SPD byte map.",
    technique="property-based testing: grid + Hypothesis generated clocks against an exact-rational reference (differential oracle)"),
 "C18": dict(category="exploration", design_ref="DESIGN.md section 3, C18",
    text="DFIInjector (phases 1-8, ranks 1-2, clam shell) with new random values on every field every cycle and mode switches at generated cycles: hardware mode = same-cycle transparency both ways, software mode = metamorphic "
         "(controller-side values cannot influence the PHY side). DFIRateConverter (ratio 2/4, PHY phases 1-4, all write/read delays) against a reference written from the class docstring: every command exactly once in phase order at the documented latency, write/read bursts in the selected fast cycle.",
    note=SIMNOTE + " CSRs are attached like a LiteX CSR bank does; aligned clock pair as the repository's tests prescribe; in clam-shell/external mode only the documented half of cs/cke/odt is compared.",
    technique=PBT + "a reference converter model and a metamorphic relation (two runs differing only in controller-side values)"),
}

NOT_YET = {}

def main():
    props = [json.loads(l) for l in open(os.path.join(ROOT, "properties.jsonl"))]
    checks = []
    na = []
    for p in props:
        pid = p["id"]
        if pid in CHECKS:
            c = CHECKS[pid]
            checks.append(dict(
                property_id=pid,
                quick_cmd="/venv/bin/python run.py %s --tier quick" % pid,
                thorough_cmd="/venv/bin/python run.py %s --tier thorough" % pid,
                evidence_file="evidence/%s.json" % pid,
                replay_cmd_template="/venv/bin/python run.py %s --replay {path}" % pid,
                engine="runner",
                level_claimed=dict(category=c["category"], text=c["text"], design_ref=c["design_ref"]),
                level_note=c["note"],
                technique=c["technique"]))
        else:
            na.append(dict(property_id=pid, reason=NOT_YET.get(pid, "check not built yet in this round (planned in DESIGN.md section 3); not claimed until its check is registered")))
    man = dict(
        version=1,
        setup_cmd="/venv/bin/python -c 'import hypothesis' 2>/dev/null || /venv/bin/pip install --no-index --find-links /opt/veriftools/wheels hypothesis",
        hooks=dict(guard="LITEDRAM_VERIF", enable="no source hooks are needed: checks import litedram from /repo's working tree (PYTHONPATH) and observe public attributes; run.py sets LITEDRAM_VERIF=1 for completeness",
                   baseline_off_cmd="cd /repo && env -u LITEDRAM_VERIF /venv/bin/python -m pytest -ra -q -p no:cacheprovider --timeout=900 --continue-on-collection-errors",
                   source_commits=[], add_only=True),
        engines=[dict(name="runner", path="run.py", serves_properties=sorted(CHECKS), kind_free_text="Hypothesis-driven generated search sharded over 16 processes; compiled cycle simulator (lib/fastsim.py) with stock migen.sim as confirming backend; independent reference models as oracles")],
        checks=checks,
        notes="All checks: cwd=/verif, read VERIF_SEED, write evidence/<id>.json, exit 0/1/2 (2 = harness error, never a verdict). Known findings: known_findings.json. The first confirmed violation decides a run (remaining shards are not awaited; VERIF_ALL_SHARDS=1 collects all). Sensitivity: 120 seeded changes by independent sub-agents under seeded/ and 46 hand-written mutants (tools/selftest_mutants.py, results in mutants/results.json, tables in DESIGN.md 8.4/8.5).",
        not_applicable=na)
    with open(os.path.join(ROOT, "MANIFEST.json"), "w") as f:
        json.dump(man, f, indent=1)
    print("MANIFEST.json: %d checks, %d not claimed" % (len(checks), len(na)))

if __name__ == "__main__":
    main()
