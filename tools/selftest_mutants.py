#!/venv/bin/python
"""Sensitivity self-test: apply each hand-written mutant (mutants/mutants.py) or seeded change (seeded/<id>/patch.diff) to a scratch worktree
of /repo outside /repo and /verif, run the property's quick check with VERIF_REPO pointing at it, expect exit 1.
usage: selftest_mutants.py [--only PROP] [--name substr] [--seeded] [--seed N]    results -> mutants/results.json"""
import os, sys, json, subprocess, shutil, time
ROOT = os.path.dirname(os.path.dirname(os.path.abspath(__file__)))
sys.path.insert(0, ROOT)
WT = os.environ.get("VERIF_MUT_WT", "/tmp/verif_mut_wt")


def sh(cmd, **kw):
    return subprocess.run(cmd, shell=True, capture_output=True, text=True, **kw)


def fresh():
    sh("git -C /repo worktree remove --force %s" % WT)
    shutil.rmtree(WT, ignore_errors=True)
    r = sh("git -C /repo worktree add --detach %s HEAD" % WT)
    assert r.returncode == 0, r.stderr


def run_check(prop, seed):
    env = dict(os.environ, VERIF_REPO=WT, VERIF_SEED=str(seed), VERIF_EVIDENCE_DIR=WT + "_evidence", VERIF_REPLAY_DIR=WT + "_replays")
    t0 = time.time()
    r = subprocess.run(["/venv/bin/python", os.path.join(ROOT, "run.py"), prop, "--tier", "quick"], capture_output=True, text=True, env=env, cwd=ROOT)
    vio = [l for l in r.stdout.splitlines() if l.startswith("VIOLATION") or l.startswith("  finding")]
    return r.returncode, vio[:3], time.time() - t0, r.stderr[-400:] if r.returncode == 2 else ""


def save(resfile, name, entry):
    """read-modify-write under a lock so that several self-test processes can share results.json"""
    import fcntl
    with open(resfile + ".lock", "w") as lk:
        fcntl.flock(lk, fcntl.LOCK_EX)
        cur = json.load(open(resfile)) if os.path.exists(resfile) else {}
        cur[name] = entry
        tmp = resfile + ".tmp%d" % os.getpid()
        json.dump(cur, open(tmp, "w"), indent=1)
        os.replace(tmp, resfile)


def main():
    import argparse
    ap = argparse.ArgumentParser()
    ap.add_argument("--only")
    ap.add_argument("--name")
    ap.add_argument("--seeded", action="store_true")
    ap.add_argument("--seed", type=int, default=1)
    ap.add_argument("--missing", action="store_true", help="skip items that already have a result")
    ap.add_argument("--shard", default="0/1", help="i/n: take every n-th item starting at i")
    ap.add_argument("--no-also", action="store_true", help="run only the seeded change's own property")
    a = ap.parse_args()
    resfile = os.path.join(ROOT, "mutants", "results.json")
    results = json.load(open(resfile)) if os.path.exists(resfile) else {}
    items = []
    if a.seeded:
        sd = os.path.join(ROOT, "seeded")
        for d in sorted(os.listdir(sd)):
            meta = os.path.join(sd, d, "meta.json")
            if os.path.exists(meta):
                m = json.load(open(meta))
                items.append(("seeded/" + d, m["property"], os.path.join(sd, d, "patch.diff"), None, None, m.get("also_check", [])))
    else:
        from mutants.mutants import M
        for (name, prop, f, old, new) in M:
            items.append((name, prop, f, old, new, []))
    si, sn = [int(x) for x in a.shard.split("/")]
    todo = []
    for it in items:
        name, prop = it[0], it[1]
        if a.only and prop != a.only:
            continue
        if a.name and a.name not in name:
            continue
        if a.missing and name in results and "runs" in results[name]:
            continue
        todo.append(it)
    items = todo[si::sn]
    for (name, prop, f, old, new, also) in items:
        if a.no_also:
            also = []
        if a.only and prop != a.only:
            continue
        if a.name and a.name not in name:
            continue
        if a.missing and name in results and "runs" in results[name]:
            continue
        fresh()
        if old is None:
            r = sh("git -C %s apply %s" % (WT, f))
            if r.returncode:
                print(name, "PATCH DOES NOT APPLY", r.stderr[:200])
                save(resfile, name, dict(property=prop, status="patch does not apply"))
                continue
        else:
            p = os.path.join(WT, f)
            s = open(p).read()
            if old not in s:
                print(name, "ANCHOR NOT FOUND")
                save(resfile, name, dict(property=prop, status="anchor not found"))
                continue
            open(p, "w").write(s.replace(old, new, 1))
        out = {}
        for pr in [prop] + list(also):
            rc, vio, dt, err = run_check(pr, a.seed)
            out[pr] = dict(rc=rc, first=vio[:2], wall_s=round(dt, 1), err=err)
            print("%-34s %s rc=%d %.0fs %s" % (name, pr, rc, dt, (vio[0][:150] if vio else err[-150:])))
        save(resfile, name, dict(property=prop, caught=out[prop]["rc"] == 1, runs=out, seed=a.seed))
    sh("git -C /repo worktree remove --force %s" % WT)
    shutil.rmtree(WT, ignore_errors=True)


if __name__ == "__main__":
    main()
