#!/venv/bin/python
"""Confirm a seeded change produced by an independent sub-agent and store it under seeded/<name>/.
usage: accept_seed.py <src dir with patch.diff demo.py notes.md> <name> <property> [test files ...]
Confirms in a scratch worktree (removed afterwards): patch applies; demo passes on the unmodified tree and fails on the patched tree;
the given repository test files pass on the patched tree."""
import os, sys, json, subprocess, shutil
ROOT = os.path.dirname(os.path.dirname(os.path.abspath(__file__)))
src, name, prop = sys.argv[1:4]
tests = sys.argv[4:]
WT = "/tmp/verif_accept_wt_%s" % name


def sh(cmd, **kw):
    return subprocess.run(cmd, shell=True, capture_output=True, text=True, **kw)


sh("git -C /repo worktree remove --force %s" % WT)
shutil.rmtree(WT, ignore_errors=True)
assert sh("git -C /repo worktree add --detach %s HEAD" % WT).returncode == 0
ran = []
env = dict(os.environ, REPO_DIR=WT, PYTHONPATH=WT)
r0 = subprocess.run(["/venv/bin/python", os.path.join(src, "demo.py")], capture_output=True, text=True, env=env, cwd=WT, timeout=1800)
ran.append("demo on unmodified tree: rc=%d %s" % (r0.returncode, r0.stdout.strip().splitlines()[-1:] ))
import re
def pytest_run(tag):
    tr = subprocess.run(["/venv/bin/python", "-m", "pytest", "-q", "-p", "no:cacheprovider", "-n", "4", "--timeout=1800", "-rf"] + tests, capture_output=True, text=True, env=env, cwd=WT)
    failed = sorted(set(re.findall(r"^(?:FAILED|ERROR) (\S+)", tr.stdout, re.M)))
    ran.append("pytest %s on %s tree: rc=%d %s failed=%s" % (" ".join(tests), tag, tr.returncode, tr.stdout.strip().splitlines()[-1:], failed))
    return tr.returncode, failed
base_rc, base_failed = pytest_run("unmodified") if tests else (0, [])
ap = sh("git -C %s apply %s" % (WT, os.path.join(src, "patch.diff")))
ran.append("git apply: rc=%d %s" % (ap.returncode, ap.stderr.strip()[:200]))
r1 = subprocess.run(["/venv/bin/python", os.path.join(src, "demo.py")], capture_output=True, text=True, env=env, cwd=WT, timeout=1800)
ran.append("demo on patched tree: rc=%d %s" % (r1.returncode, r1.stdout.strip().splitlines()[-1:]))
tests_ok = True
if tests:
    p_rc, p_failed = pytest_run("patched")
    # tests that fail on the unmodified tree too (this environment's always-fail list) do not count
    tests_ok = set(p_failed) <= set(base_failed) and (p_rc == 0 or (base_rc != 0 and p_failed == base_failed))
ok = r0.returncode == 0 and ap.returncode == 0 and r1.returncode != 0 and tests_ok
for l in ran:
    print(l)
sh("git -C /repo worktree remove --force %s" % WT)
shutil.rmtree(WT, ignore_errors=True)
if not ok:
    print("NOT ACCEPTED")
    sys.exit(1)
dst = os.path.join(ROOT, "seeded", name)
os.makedirs(dst, exist_ok=True)
for f in ("patch.diff", "demo.py", "notes.md"):
    if os.path.exists(os.path.join(src, f)):
        shutil.copy(os.path.join(src, f), os.path.join(dst, f))
notes = open(os.path.join(src, "notes.md")).read() if os.path.exists(os.path.join(src, "notes.md")) else ""
meta = dict(property=prop, name=name, origin="independent sub-agent given only the property text and a scratch worktree",
            needs_to_manifest=notes[:1500], confirmed=ran)
json.dump(meta, open(os.path.join(dst, "meta.json"), "w"), indent=1)
print("ACCEPTED ->", dst)
