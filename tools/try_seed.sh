#!/bin/bash
# usage: tools/try_seed.sh <seed name> <property> [VERIF_SEED]   - run one quick check against a seeded change in a private scratch worktree
name=$1; prop=$2; seed=${3:-1}
wt=/tmp/tryseed_${name}_$$
git -C /repo worktree add --detach $wt HEAD >/dev/null 2>&1
git -C $wt apply /verif/seeded/$name/patch.diff || { echo "patch does not apply"; git -C /repo worktree remove --force $wt; exit 3; }
cd /verif
VERIF_SEED=$seed VERIF_REPO=$wt VERIF_EVIDENCE_DIR=${wt}_ev VERIF_REPLAY_DIR=${wt}_rp /venv/bin/python run.py $prop --tier quick 2>&1 | grep -v "^KNOWN" | tail -4
rc=${PIPESTATUS[0]}
git -C /repo worktree remove --force $wt; rm -rf ${wt}_ev ${wt}_rp
echo "try_seed $name $prop rc=$rc"
