#!/venv/bin/python
"""Prints the markdown table 'seeded change -> caught by' from seeded/*/meta.json and mutants/results.json (for DESIGN.md section 8.4)."""
import os, json
ROOT = os.path.dirname(os.path.dirname(os.path.abspath(__file__)))
res = json.load(open(os.path.join(ROOT, "mutants", "results.json")))
rows = []
for d in sorted(os.listdir(os.path.join(ROOT, "seeded"))):
    mp = os.path.join(ROOT, "seeded", d, "meta.json")
    if not os.path.exists(mp):
        continue
    m = json.load(open(mp))
    title = open(os.path.join(ROOT, "seeded", d, "notes.md")).readline().strip().lstrip("# ").strip()
    for pre in ("Seeded defect", "Change", "Seed", "C%s seeded change" % d[1:3], d):
        pass
    r = res.get("seeded/" + d, {})
    caught = []
    for p, x in sorted(r.get("runs", {}).items()):
        if x["rc"] == 1:
            cl = ""
            if x.get("first"):
                try:
                    cl = json.loads(x["first"][0].split("finding: ", 1)[1])["clause"]
                except Exception:
                    cl = ""
            caught.append("%s%s" % (p, " (%s)" % cl if cl else ""))
        elif x["rc"] == 0:
            caught.append("%s: not caught" % p)
        else:
            caught.append("%s: harness error" % p)
    rows.append("| %s | %s | %s |" % (d, title[:150].replace("|", "/"), "; ".join(caught) or "not run"))
print("| seeded change | what it does | quick check result (VERIF_SEED=1) |\n|---|---|---|")
print("\n".join(rows))
n = sum(1 for d in res if d.startswith("seeded/") and res[d].get("caught"))
print("\n%d of %d seeded changes caught by their own property's quick check." % (n, sum(1 for d in res if d.startswith("seeded/") and "runs" in res[d])))
