#!/bin/bash
# usage: tools/run_all.sh "<seeds>" [props...]   - every quick check on /repo at each seed; evidence/replays of seeds != 1 go to scratch dirs
seeds=${1:-1}; shift
props=${@:-C01 C02 C03 C04 C05 C06 C07 C08 C09 C10 C11 C12 C13 C14 C15 C16 C17 C18 C19 C20}
cd /verif
for s in $seeds; do
  for p in $props; do
    t0=$(date +%s)
    if [ "$s" = "1" ]; then out=$(VERIF_SEED=$s /venv/bin/python run.py $p --tier quick 2>&1); rc=$?
    else out=$(VERIF_SEED=$s VERIF_EVIDENCE_DIR=/tmp/runall_ev VERIF_REPLAY_DIR=/verif/replays/_scratch_seed$s /venv/bin/python run.py $p --tier quick 2>&1); rc=$?; fi
    t1=$(date +%s)
    echo "seed=$s $p rc=$rc $((t1-t0))s $(echo "$out" | grep -v '^KNOWN' | grep -E 'VIOLATION|HARNESS|finding:' | head -2 | cut -c1-300)"
  done
done
