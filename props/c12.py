"""C12 DMA reader and writer stream exactly once, in order, without overrun."""
import lib.compat  # noqa
from lib.runner import Collector, hyp_search
from lib import dmacase as dc
from lib import dmacore12 as dk
from lib.fastsim import HarnessError

ID = "C12"
LEVEL = "exploration"
RULE = ("case = (device: LiteDRAMDMAReader or LiteDRAMDMAWriter, fifo_depth 1..32 incl. non powers of two, buffered or not, data width 8..128, native port on the realistic "
        "slave or AXI port on a conforming AXI memory slave) x (address / (address, data) stream: sequential, small pool with repeats, full range; random `last` marks; producer "
        "gaps) x (reader: consumer ready schedule = always / short cyclic / 1-2 cycles in up to 47 / irregular, plus one stall window of 20..400 (thorough 700) cycles starting "
        "in the first 90 cycles; in 1/4 of the cases 1-3 windows with enable = 0) x (memory side: command stall schedule, strobe / response latencies up to 60, outstanding "
        "limit Q in {1,2,3,8,10,depth-1,depth,depth+1,depth+4,40}).  Non-trivial (measured in the run, not intended): reader = some cycle with the consumer not ready while "
        "(reads issued - words out) >= fifo_depth, or fifo_depth 1 with >= 2 addresses, or enable falling while reads are in flight; writer = fifo_depth 1 with >= 2 pairs, or "
        "the producer refused only because the data FIFO is full.  Plus, with fewer cases, writer + reader on two ports of the REAL core (3 controller configurations with "
        "refresh x 6 FIFO shapes, reference DRAM at the DFI boundary): write pairs through the writer, read them back through the reader with the same consumer / enable "
        "schedules.  distinct = distinct (device, stimulus) digests")
ASSUMPTIONS = ["the realistic native slave (lib/native.py) only shows behaviour the real crossbar can show: one-cycle wdata.ready / rdata.valid strobes regardless of valid/ready, "
               ">= 3 / 5 cycles after acceptance, in acceptance order; Q up to 40 stands for a port spreading commands over several bank machines",
               "the AXI memory slave (lib/aximem12.py) is protocol conforming: R and B are held until ready, the k-th W beat belongs to the k-th AW; AXI addresses given to the DMA "
               "are word aligned byte addresses",
               "the stream producer holds valid and payload until ready; the consumer may change ready freely",
               "enable = 0 (reader): the code documents 'flush FIFO / reservation counter when disabled', so a word that leaves the output FIFO while enable = 0 counts as output "
               "(visible as source.valid with enable = 0); the delivered + flushed words together must be the expected stream; no other effect of enable is checked",
               "real-core round trip: the core returns the last data written to an address (C01, checked separately); lib/refdram.py is the DRAM",
               "violations are confirmed on stock migen.sim before being reported; the first case of every shard is compared cycle by cycle on both simulators"]

NONTRIVIAL = {"consumer_stalled_with_full_reservation", "minimal_fifo_depth", "enable_dropped_with_reads_in_flight", "producer_refused_by_full_fifo"}
# classes that must occur in every run (else harness error: vacuous generator)
REQUIRED_CLASSES = ["consumer_stalled_with_full_reservation", "stalled_100_cycles_with_full_reservation", "minimal_fifo_depth", "enable_dropped_with_reads_in_flight",
                    "producer_refused_by_full_fifo", "real_core_roundtrip"]
DEPTHS = [1, 2, 3, 4, 5, 7, 8, 9, 15, 16, 17, 31, 32]
WIDTHS = [32, 8, 64, 128, 16]
# shards per (kind, port): the native reader is where the property's risk is (unconditional read strobes)
SPLIT = [("reader", "native", 6), ("writer", "native", 4), ("reader", "axi", 3), ("writer", "axi", 3)]


def devices(kind, port):
    out = []
    k = 0
    for depth in DEPTHS:
        for buffered in (0, 1):
            out.append(dict(kind=kind, port=port, depth=depth, buffered=buffered, dw=WIDTHS[k % len(WIDTHS)], aw=32 if port == "axi" else 26))
            k += 1
    return out


def shards(tier, seed):
    out = []
    idx = 0
    for kind, port, ns in SPLIT:
        devs = devices(kind, port)
        for j in range(ns):
            mine = devs[j::ns]
            if tier == "quick":
                k = (seed + idx) % len(mine)
                mine = (mine[k:] + mine[:k])[:4]
            out.append(dict(tier=tier, seed=seed * 1000 + idx, idx=idx, devs=mine, ncases=(160 if tier == "quick" else 1200),
                            max_items=(48 if tier == "quick" else 100), long_stall=(400 if tier == "quick" else 700), core=[], core_ncases=0))
            idx += 1
    # real-core round trips ride on the three lightest shards (AXI writer: no long consumer stalls)
    cores = dk.configs()
    light = [sh for sh in out if sh["devs"][0]["kind"] == "writer" and sh["devs"][0]["port"] == "axi"]
    for j, sh in enumerate(light):
        mine = cores[j::len(light)]
        if tier == "quick":
            k = (seed + j) % len(mine)
            mine = (mine[k:] + mine[:k])[:2]
        sh["core"] = mine
        sh["core_ncases"] = 12 if tier == "quick" else 150
    return out


def evaluate(cfg, stim, backend=None):
    if "core" in cfg:
        run = dk.run_case(cfg, stim, backend or dc.default_backend())
        fs, classes = dk.oracle(run)
        return run, fs, classes
    run = dc.run_case(cfg, stim, backend)
    fs, classes = dc.oracle(run)
    return run, fs, classes


def core_selftest(cfg, stim, col, ncycles=300):
    ta, tb = [], []
    dk.run_case(cfg, stim, backend="fast", max_cycles=ncycles, trace=ta)
    dk.run_case(cfg, stim, backend="migen", max_cycles=ncycles, trace=tb)
    if ta != tb:
        bad = [i for i in range(min(len(ta), len(tb))) if ta[i] != tb[i]]
        raise HarnessError("fastsim differs from migen.sim on %s at cycle %s" % (dk.tag(cfg), bad[:1]))
    col.diff_cycles += len(ta)


def _sample(cfg, stim, run):
    its = []
    for it in stim["items"][:6]:
        its.append({k: (hex(v) if k in ("address", "data") else v) for k, v in it.items()})
    return dict(device=dc.tag(cfg), n_items=len(stim["items"]), items_head=its, consumer=stim.get("consumer"), enable=stim.get("enable"), slave=stim["slave"],
                cycles=run.cycles, max_outstanding=run.max_out, stalled_with_full_reservation_cycles=run.stall_full)


def run_shard(sh):
    col = Collector(ID)
    violation = None
    for di, cfg in enumerate(sh["devs"]):
        state = dict(n=0, big=False)

        def t(stim, cfg=cfg, state=state, di=di):
            # differential self-test: the first two cases of the shard's first device (every device in the thorough tier) and the
            # first case with >= 10 items (Hypothesis starts with tiny examples)
            if di == 0 or sh["tier"] != "quick":
                big = len(stim["items"]) >= 10 and not state["big"]
                if state["n"] < 2 or big:
                    dc.diff_selftest(cfg, stim, col)
                    state["big"] = state["big"] or big
            state["n"] += 1
            run, fs, classes = evaluate(cfg, stim)
            col.case(dict(cfg=cfg, stim=stim), classes=sorted(classes) + [dc.tag(cfg).split(" w")[0]], nontrivial=bool(classes & NONTRIVIAL), sample=_sample(cfg, stim, run))
            st_ = col.stats
            st_["simulated_cycles"] = st_.get("simulated_cycles", 0) + run.cycles
            if cfg["kind"] == "reader":
                col.stat_max("max_outstanding_minus_depth", run.max_out - cfg["depth"])
                col.stat_max("max_consecutive_stalled_cycles_with_full_reservation", run.stall_full_run)
                st_["words_flushed_while_disabled"] = st_.get("words_flushed_while_disabled", 0) + run.flushed
                st_["words_delivered"] = st_.get("words_delivered", 0) + len(run.consumed) - run.flushed
            else:
                st_["writes_performed"] = st_.get("writes_performed", 0) + sum(1 for x in run.slave.log if x[0] == "W")
            if cfg["port"] == "axi":
                for k, v in sorted(run.slave.notes.items()):
                    st_["axi_note_" + k] = st_.get("axi_note_" + k, 0) + v
            return col.filter(fs)
        found = hyp_search(t, dc.stims(cfg, sh["max_items"], sh["long_stall"]), sh["seed"] * 100 + di, sh["ncases"], shrink=True)
        if found:
            stim, fs = found
            _, fm, _ = evaluate(cfg, stim, backend="migen")
            fm = col.filter(fm)
            if not any(f["clause"] == fs[0]["clause"] for f in fm):
                raise HarnessError("C12 finding %s on %s does not reproduce on migen.sim" % (fs[0]["clause"], dc.tag(cfg)))
            violation = dict(case=dict(cfg=cfg, stim=stim), findings=fm, confirmed_on="migen.sim")
            break
    for ci, cfg in enumerate(sh.get("core") or []):
        if violation:
            break
        state = dict(n=0)

        def tc(stim, cfg=cfg, state=state):
            if state["n"] == 1:          # the second case (the first one Hypothesis draws is the minimal example)
                core_selftest(cfg, stim, col)
            state["n"] += 1
            run, fs, classes = evaluate(cfg, stim)
            col.case(dict(cfg=cfg, stim=stim), classes=sorted(classes) + ["real_core_roundtrip", dk.tag(cfg)], nontrivial=bool(classes & NONTRIVIAL),
                     sample=dict(device=dk.tag(cfg), n_writes=len(stim["writes"]), n_reads=len(stim["reads"]), consumer=stim.get("consumer"), enable=stim.get("enable"),
                                 cycles=run.cycles, max_outstanding=run.max_out, stalled_with_full_reservation_cycles=run.stall_full))
            st_ = col.stats
            st_["real_core_simulated_cycles"] = st_.get("real_core_simulated_cycles", 0) + run.cycles
            st_["real_core_words_out"] = st_.get("real_core_words_out", 0) + len(run.consumed)
            col.stat_max("max_outstanding_minus_depth", run.max_out - cfg["depth"])
            return col.filter(fs)
        found = hyp_search(tc, dk.stims(cfg, 24 if sh["tier"] == "quick" else 40, 300), sh["seed"] * 100 + 50 + ci, sh["core_ncases"], shrink=True)
        if found:
            stim, fs = found
            _, fm, _ = evaluate(cfg, stim, backend="migen")
            fm = col.filter(fm)
            if not any(f["clause"] == fs[0]["clause"] for f in fm):
                raise HarnessError("C12 finding %s on %s does not reproduce on migen.sim" % (fs[0]["clause"], dk.tag(cfg)))
            violation = dict(case=dict(cfg=cfg, stim=stim), findings=fm, confirmed_on="migen.sim")
    return col.result(violation)


def replay(case):
    col = Collector(ID)
    _, fm, _ = evaluate(case["cfg"], case["stim"], backend="migen")
    return col.filter(fm)
