"""C09 AXI port: protocol-correct responses and memory semantics of LiteDRAMAXI2Native on the realistic native slave."""
import lib.compat  # noqa
from hypothesis import strategies as st
from lib.runner import Collector, hyp_search
from lib import axi as ax
from lib.fastsim import HarnessError
from lib.native import slave_style

ID = "C09"
LEVEL = "exploration"
RULE = ("case = (bridge: data width 32/64/128, write/read buffer depths 2..16, base address 0 / 0x10000 / 0x40000000, with/without read-modify-write, id width 1..4) x "
        "(program-ordered list of legal AXI4 bursts: FIXED 1-16 / INCR 1-256 not crossing 4 KiB / WRAP 2,4,8,16, full-width size, any id, addresses concentrated around one or two "
        "hot spots so that bursts overlap, per-beat strobes, W leading or lagging AW, idle gaps, optional wait for an earlier burst's response) x (ready schedules on B and R, "
        "per-beat gaps on W) x (native slave: cmd.ready schedule, strobe latencies, outstanding limit); non-trivial = a WRAP or FIXED burst, or a read of a just-acknowledged "
        "address (AR raised <= 16 cycles after the B of an overlapping write), or a partial-strobe beat in read-modify-write mode, or a stalled B/R channel with >= 2 bursts pending; "
        "distinct = distinct (device, stimulus) digests")
ASSUMPTIONS = ["the realistic slave (lib/native.py) only shows behaviour the real crossbar can show: one-cycle wdata.ready / rdata.valid strobes regardless of valid/ready, >= 3 / 5 cycles after acceptance, acceptance order",
               "the bridge documents 'No reordering': the reference applies write bursts in AW order (also across IDs) and expects B in AW order, R in AR order",
               "a write is 'in flight' from the first cycle its AWVALID or its first WVALID is high until its B handshake; 'read issued after the response' = ARVALID raised after the B handshake",
               "AXI4 legality of the master (lib/axi.py): valid held with stable payload until ready, W in AW order, no dependency of a valid on a ready, full-width size only (the only size the bridge documents)",
               "write buffer depths 2..16 and read buffer depths 1..16 are drawn; write buffer depth 1 (accepted by the constructor, used by no caller in the tree) is probed by one extra device at the end of the last shard",
               "violations are confirmed on stock migen.sim before being reported; hang = work outstanding when the cycle cap (proportional to the number of beats) is reached, or when no handshake on any "
               "AXI channel and no native-port event happened for longer than twice the longest stall/gap/latency the testbench itself uses plus 100 cycles",
               "the text after the second '/' of a finding key only names interface-observable conditions seen in the failing run (labels to keep different deviations apart); the verdict never depends on it"]

NONTRIVIAL = {"write_WRAP", "write_FIXED", "read_WRAP", "read_FIXED", "read_just_after_b_same_address", "partial_strobe_rmw", "b_stalled_2_pending", "r_stalled_2_pending"}

REQUIRED_CLASSES = sorted(NONTRIVIAL) + ["read_concurrent_with_write", "partial_strobe_plain", "long_burst"]

DEPTHS = [(16, 16), (2, 2), (4, 8), (8, 1), (3, 5), (16, 2), (2, 16), (7, 3), (5, 15), (15, 7), (4, 4)]
BASES = [0, 0x40000000, 0x10000]


def devices():
    out = []
    for i in range(132):
        wd, rd = DEPTHS[i % len(DEPTHS)]
        out.append(dict(dw=(32, 64, 128)[i % 3], aw=(16, 12, 20)[(i // 3) % 3], idw=1 + (i % 4), wdepth=wd, rdepth=rd, base=BASES[(i // 6) % 3], rmw=(i // 3) % 2))
    return out


SCHED = [None, None, None, [1, 1], [2, 5], [1, 9], [4, 1, 1, 6], [0, 40, 1000, 0], [0, 150, 1000, 0], 1, 3, 12]


@st.composite
def slave_sched(draw):
    d = dict(ready=draw(st.sampled_from([None, None, [1, 1], [3, 2], [1, 5], [8, 1, 1, 3], [0, 6, 4, 1]])),
             wlat=draw(st.lists(st.integers(3, 14), min_size=1, max_size=4)),
             rlat=draw(st.lists(st.integers(5, 20), min_size=1, max_size=4)),
             qmax=draw(st.integers(1, 10)))
    d.update(slave_style(draw, st))
    return d


@st.composite
def stims(draw, cfg, max_ops, max_beats, long_ok=True):
    nb = cfg["dw"] // 8
    full = (1 << nb) - 1
    wpp = 4096 // nb                                   # words per 4 KiB page
    npages = ((1 << cfg["aw"]) * nb) // 4096
    spots = []
    for _ in range(draw(st.integers(1, 2))):
        page = draw(st.integers(0, npages - 1))
        spots.append((page, draw(st.sampled_from([0, 0, wpp - 20, wpp // 2, 5]))))
    n = draw(st.integers(1, max_ops))
    # "responses pile up" shape: many short write bursts while the master does not take B for a long time, so that the bridge's
    # response / ID bookkeeping runs full (the reservation logic of the write path exists for exactly this)
    pile = draw(st.integers(0, 5)) == 0
    if pile:
        n = min(max_ops, cfg["wdepth"] + draw(st.integers(1, 4)))
    ops = []
    beats = 0
    for i in range(n):
        kind = "w" if (pile or draw(st.integers(0, 8)) < 5) else "r"
        burst = draw(st.sampled_from([ax.INCR, ax.INCR, ax.INCR, ax.WRAP, ax.FIXED]))
        if pile:
            burst = ax.INCR
            nbeat = draw(st.sampled_from([1, 1, 2, 3]))
        elif burst == ax.INCR:
            nbeat = draw(st.sampled_from([1, 1, 2, 2, 3, 4, 4, 5, 8, 8, 16, 17, 32]))
            if long_ok and draw(st.integers(0, 15)) == 15:
                nbeat = draw(st.sampled_from([64, 100, 255, 256]))
            nbeat = min(nbeat, wpp)
        elif burst == ax.WRAP:
            nbeat = draw(st.sampled_from([2, 4, 4, 8, 16]))
        else:
            nbeat = draw(st.sampled_from([1, 2, 2, 3, 5, 16]))
        if beats + nbeat > max_beats and ops:
            break
        beats += nbeat
        page, hot = spots[draw(st.integers(0, len(spots) - 1))]
        word = min(wpp - 1, max(0, hot + draw(st.integers(0, 15))))
        if burst == ax.INCR and word + nbeat > wpp:
            word = wpp - nbeat
        op = dict(kind=kind, addr=page * 4096 + word * nb, burst=burst, len=nbeat - 1, id=draw(st.integers(0, (1 << cfg["idw"]) - 1)),
                  gap=draw(st.sampled_from([0, 0, 0, 1, 2, 6, 20])), dep=None)
        earlier_w = [j for j, o in enumerate(ops) if o["kind"] == "w"]
        if kind == "r" and earlier_w and draw(st.booleans()):
            j = earlier_w[-1] if draw(st.integers(0, 2)) else earlier_w[draw(st.integers(0, len(earlier_w) - 1))]
            op["dep"] = j
            if draw(st.integers(0, 2)):
                o = ops[j]
                if o["burst"] != ax.FIXED or o["len"] < 16:
                    op["addr"], op["burst"], op["len"] = o["addr"], o["burst"], o["len"]
                    beats += o["len"] + 1 - nbeat
        elif ops and draw(st.integers(0, 7)) == 0:
            op["dep"] = draw(st.integers(0, len(ops) - 1))
        if kind == "w":
            op["dseed"] = draw(st.integers(0, 0xffff))
            op["strb"] = [full if draw(st.integers(0, 2)) else draw(st.integers(0, full)) for _ in range(draw(st.integers(1, 3)))]
            op["wgap"] = draw(st.sampled_from([[0], [0], [0], [1], [0, 0, 3], [2, 0], [5]]))
            op["wrel"] = draw(st.sampled_from([0, 0, 0, -1, -2, -6, -20, 1, 2, 5, 15]))
        if not ax.legal_burst(cfg, op):
            raise HarnessError("generator produced an illegal burst %s for %s" % (op, cfg))
        ops.append(op)
    b_ready = draw(st.sampled_from(SCHED))
    if pile:
        b_ready = draw(st.sampled_from([[0, 150, 1000, 0], [0, 400, 1000, 0], [0, 80, 1, 60, 1000, 0]]))
        for op in ops:
            op["gap"] = min(op["gap"], 2)
    return dict(ops=ops, b_ready=b_ready, r_ready=draw(st.sampled_from(SCHED)), slave=draw(slave_sched()))


def evaluate(cfg, stim, backend="fast"):
    for op in stim["ops"]:
        if not ax.legal_burst(cfg, op):
            raise HarnessError("illegal burst %s for %s" % (op, cfg))
    run = ax.run_axi(cfg, stim, backend)
    fs, classes = ax.oracle_axi(run, ID)
    return run, fs, classes


def devtag(cfg):
    return "dw%d w%d r%d base0x%x %s id%d" % (cfg["dw"], cfg["wdepth"], cfg["rdepth"], cfg["base"], "rmw" if cfg["rmw"] else "plain", cfg["idw"])


def sample_of(cfg, stim, classes, run):
    def short(op):
        o = dict(op)
        o["addr"] = hex(o["addr"])
        o["burst"] = ax.BNAME[o["burst"]]
        if "strb" in o:
            o["strb"] = [hex(x) for x in o["strb"]]
        return o
    return dict(device=devtag(cfg), classes=sorted(classes), cycles=run.cycles, ops=[short(op) for op in stim["ops"][:6]], nops=len(stim["ops"]),
                b_ready=stim["b_ready"], r_ready=stim["r_ready"], slave=stim["slave"])


def shards(tier, seed):
    devs = devices()
    ns = 16
    out = []
    for i in range(ns):
        mine = devs[i::ns]
        k = (seed * 3 + i) % len(mine)
        mine = mine[k:] + mine[:k]
        if tier == "quick":
            out.append(dict(tier=tier, seed=seed * 1000 + i, idx=i, devs=mine[:4], ncases=140, max_ops=10, max_beats=90, long_every=4))
        else:
            out.append(dict(tier=tier, seed=seed * 1000 + i, idx=i, devs=mine[:6], ncases=900, max_ops=16, max_beats=400, long_every=1))
    # write buffer depth 1 is accepted by the constructor; probed by the last device of the last shard with a few cases
    out[-1]["devs"] = out[-1]["devs"] + [dict(dw=32, aw=16, idw=2, wdepth=1, rdepth=1, base=0, rmw=0)]
    return out


def run_shard(sh):
    col = Collector(ID)
    violation = None
    for di, cfg in enumerate(sh["devs"]):
        state = dict(n=0, diffs=(1 if sh["tier"] == "quick" else 3) if di == 0 else 0, target=None)

        def t(stim, cfg=cfg, state=state, di=di):
            # differential self-test on the first case(s) of the shard that have some substance (Hypothesis starts with the empty-ish case)
            state["n"] += 1
            if state["diffs"] and (len(stim["ops"]) >= 3 or state["n"] >= 12):
                state["diffs"] -= 1
                col.diff_cycles += ax.diff_selftest(cfg, stim, 300 if sh["tier"] == "quick" else 600)
            run, fs, classes = evaluate(cfg, stim)
            nt = classes & NONTRIVIAL
            col.case(dict(cfg=cfg, stim=stim), classes=sorted(classes) + [devtag(cfg)], nontrivial=bool(nt), sample=sample_of(cfg, stim, classes, run))
            col.stats["simulated_cycles"] = col.stats.get("simulated_cycles", 0) + run.cycles
            col.stats["axi_beats"] = col.stats.get("axi_beats", 0) + ax.nbeats_of(stim)
            col.stat_max("max_cycles_per_case", run.cycles)
            fs = col.filter(fs)
            if fs and state["target"] is None:
                state["target"] = (fs[0]["clause"], fs[0]["key"])
            if state["target"] is not None:      # minimise towards the first deviation seen, keep others distinguishable
                fs = [f for f in fs if (f["clause"], f["key"]) == state["target"]]
            return fs
        long_ok = (di % sh["long_every"] == 0)
        ncases = sh["ncases"] if cfg["wdepth"] > 1 else 6
        found = hyp_search(t, stims(cfg, sh["max_ops"], sh["max_beats"] if not long_ok else max(sh["max_beats"], 300), long_ok), sh["seed"] * 100 + di, ncases, shrink=True)
        if found:
            stim, fs = found
            _, fm, _ = evaluate(cfg, stim, backend="migen")
            fm = col.filter(fm)
            if not any(f["clause"] == fs[0]["clause"] and f["key"] == fs[0]["key"] for f in fm):
                raise HarnessError("C09 finding %s/%s does not reproduce on migen.sim (cfg %s)" % (fs[0]["clause"], fs[0]["key"], cfg))
            fm = [f for f in fm if (f["clause"], f["key"]) == (fs[0]["clause"], fs[0]["key"])] + [f for f in fm if (f["clause"], f["key"]) != (fs[0]["clause"], fs[0]["key"])]
            violation = dict(case=dict(cfg=cfg, stim=stim), findings=fm, confirmed_on="migen.sim")
            break
    return col.result(violation)


def replay(case):
    col = Collector(ID)
    _, fm, _ = evaluate(case["cfg"], case["stim"], backend="migen")
    return col.filter(fm)
