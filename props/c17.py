"""C17 Generated initialisation programs the DRAM consistently with the controller.

Generator: PhySettings obtained by ELABORATING the real PHY classes with dummy pads (GENSDRPHY, HalfRateGENSDRPHY, S6 half/quarter
rate, A7/K7 DDR2/DDR3/DDR4, DFI-rate-converter wrapped A7, Ultrascale(+) DDR3/DDR4 incl. RDIMM and clam-shell, ECP5, GW2, GW5,
LPDDR4 sim/double-rate/S7, LPDDR5 sim/S7 at WCK:CK 2:1 and 4:1 and behind the DFI rate converter) and from
litedram.phy.model.get_sdram_phy_settings, over a dense grid of controller clocks (plus Hypothesis clocks: anywhere in the range and
one ulp around every speed-bin threshold); TimingSettings/GeomSettings of every litedram.modules class of the memory type (every
speedgrade, DDR4 fine-refresh modes) at that clock; electrical options through PhySettings.add_electrical_settings and through the
attributes init.py reads; RDIMM through the PHYs' is_rdimm and through PhySettings.set_rdimm with drawn drive strengths / PLL bypass;
clam-shell through the Ultrascale PHYs; JEDEC-legal user CL/CWL overrides of the PHY constructors.

Oracle: lib/jedec_mr.py (independent decoders).  The C header and the Python header are parsed back into command lists, the
clam-shell top/bottom duplication and the RDIMM A/B-side duplication are folded with the oracle's own mirror / inversion masks, both
must equal each other and the sequence returned by get_sdram_phy_init_sequence; the mode-register writes of the folded sequence are
decoded: BL == controller burst length, CL == phy.cl, CWL == phy.cwl, WR*tck >= datasheet tWR and WR <= controller budget, AL == 0,
DDR4 fine-granularity-refresh == the mode the timings were computed for, every other field at its quiet / requested value, no reserved
code, no bit outside a defined field."""
import os, math, copy, re, ast
from fractions import Fraction
import lib.compat  # noqa
from lib import datasheet as ds
from lib import jedec_mr as J
from lib.runner import Collector, hyp_search, digest

ID = "C17"
LEVEL = "exploration"
RULE = ("case = (PHY variant, controller clock, module class, speedgrade, fine-refresh mode, electrical options, RDIMM, clam-shell, "
        "user CL/CWL); grid over clock x variant (modules rotating in the quick tier, all modules in the thorough tier) plus Hypothesis "
        "cases; non-trivial = the write-recovery decision is at a table boundary (required clocks equal an encodable value or fall in a "
        "gap of the table, or the programmed WR equals the requirement / the controller budget / an end of the table), or RDIMM / "
        "clam-shell, or the CL/CWL pair comes from a PHY-specific table (S6 fixed pairs, A7 CL+1, LPDDR4/LPDDR5 tables, user override); "
        "distinct = distinct case tuple")
ASSUMPTIONS = ["the (ck, ns) tWR entries of litedram/modules.py are the datasheet", "tolerance 1e-6 ns for binary representation of decimal values",
               "lib/jedec_mr.py register layouts (written from the JEDEC standards, cross-checked against test/reference/*_init.*)",
               "DRAM clock period = 1/(nphases * controller clock) for every PHY of the repository",
               "controller write-to-precharge budget in DRAM clocks = (ceil(cwl/n) + tWR + tCCD)*n - (cwl + burst clocks) (bankmachine.py precharge_time)",
               "DDR2 has no CWL register field: derived WL = AL + CL - 1 must equal phy.cwl (the PHY places the write data with it); only for the Spartan-6 half-rate PHY, which declares no cwl for DDR2, a larger value is accepted (it then only lengthens the controller's write-to-precharge wait)",
               "RPC DRAM excluded (no JEDEC reference)", "the RCD control words / electrical settings are checked for field integrity only"]

REQUIRED_CLASSES = ["RDIMM", "clam-shell", "WR at a table boundary", "CL/CWL from PHY-specific table or user",
                    "DDR3 PHY-selected cl=6 cwl=5", "DDR4 PHY-selected cl=9 cwl=9", "LPDDR4 PHY-selected cl=6 cwl=4", "LPDDR5 PHY-selected cl=6 cwl=4"]      # classes that must occur in every run (else harness error: vacuous generator)
REPO = os.environ.get("VERIF_REPO", "/repo")
HAS_WR = ("DDR2", "DDR3", "DDR4", "LPDDR4", "LPDDR5")
HAS_CWL_FIELD = ("DDR3", "DDR4", "LPDDR4", "LPDDR5")
REJECT = (ValueError, KeyError, AssertionError)


class HarnessError(Exception):
    pass


# ------------------------------------------------------------------------------------------------------------------
# dummy pads
class _Pads:
    def __init__(self, **kw):
        from migen import Signal
        for k, w in kw.items():
            setattr(self, k, Signal(w))


def _sdr_pads():
    return _Pads(a=13, ba=2, ras_n=1, cas_n=1, we_n=1, cs_n=1, cke=1, dq=16, dm=2, clk=1)


def _ddr_pads(ddr4=False, nranks=1, databits=16):
    d = dict(a=15 if not ddr4 else 14, ba=3 if not ddr4 else 2, ras_n=1, cas_n=1, we_n=1, cs_n=nranks, cke=nranks, odt=nranks, clk_p=1, clk_n=1,
             dq=databits, dm=databits // 8, dqs_p=databits // 8, dqs_n=databits // 8, dqs=databits // 8, reset_n=1)
    if ddr4:
        d.update(act_n=1, bg=2)
    return _Pads(**d)


def _lp4_pads():
    return _Pads(clk_p=1, clk_n=1, cke=1, odt=1, reset_n=1, cs=1, ca=6, dq=16, dqs_p=2, dqs_n=2, dmi=2)


def _lp5_pads():
    return _Pads(ck_p=1, ck_n=1, reset_n=1, cs=1, ca=7, dq=16, wck_p=2, wck_n=2, rdqs_p=2, rdqs_n=2, dmi=2)


# ------------------------------------------------------------------------------------------------------------------
# PHY variants.  build(clk, cl, cwl, rdimm, clam) -> PHY object with .settings (or PhySettings)
def _kw(cl, cwl):
    kw = {}
    if cl is not None:
        kw["cl"] = cl
    if cwl is not None:
        kw["cwl"] = cwl
    return kw


def _b_gensdr(clk, cl, cwl, rdimm, clam):
    from litedram.phy.gensdrphy import GENSDRPHY
    return GENSDRPHY(_sdr_pads(), sys_clk_freq=clk, cl=cl).settings


def _b_hrgensdr(clk, cl, cwl, rdimm, clam):
    from litedram.phy.gensdrphy import HalfRateGENSDRPHY
    return HalfRateGENSDRPHY(_sdr_pads(), sys_clk_freq=clk, cl=cl).settings


def _b_s6half(memtype):
    def b(clk, cl, cwl, rdimm, clam):
        from litedram.phy.s6ddrphy import S6HalfRateDDRPHY
        return S6HalfRateDDRPHY(_ddr_pads(), memtype=memtype, rd_bitslip=0, wr_bitslip=4, dqs_ddr_alignment="C0").settings
    return b


def _b_s6quarter(clk, cl, cwl, rdimm, clam):
    from litedram.phy.s6ddrphy import S6QuarterRateDDRPHY
    return S6QuarterRateDDRPHY(_ddr_pads(), rd_bitslip=0, wr_bitslip=4, dqs_ddr_alignment="C0").settings


def _b_s7(clsname, memtype, nphases):
    def b(clk, cl, cwl, rdimm, clam):
        import litedram.phy.s7ddrphy as s7
        return getattr(s7, clsname)(_ddr_pads(ddr4=memtype == "DDR4"), memtype=memtype, nphases=nphases, sys_clk_freq=clk, is_rdimm=bool(rdimm),
                                    **_kw(cl, cwl)).settings
    return b


def _b_s7ratio(ratio):
    def b(clk, cl, cwl, rdimm, clam):
        import litedram.phy.s7ddrphy as s7
        return s7.s7ddrphy_with_ratio(ratio)(_ddr_pads(), memtype="DDR3", nphases=4, sys_clk_freq=clk, **_kw(cl, cwl)).settings
    return b


def _b_us(clsname, memtype):
    def b(clk, cl, cwl, rdimm, clam):
        import litedram.phy.usddrphy as us
        return getattr(us, clsname)(_ddr_pads(ddr4=memtype == "DDR4", nranks=2 if clam else 1), memtype=memtype, sys_clk_freq=clk,
                                    iodelay_clk_freq=300e6, is_rdimm=bool(rdimm), is_clam_shell=bool(clam), **_kw(cl, cwl)).settings
    return b


def _b_simple(modname, clsname):
    def b(clk, cl, cwl, rdimm, clam):
        import importlib
        return getattr(importlib.import_module(modname), clsname)(_ddr_pads(), sys_clk_freq=clk, **_kw(cl, cwl)).settings
    return b


def _b_model(memtype):
    def b(clk, cl, cwl, rdimm, clam):
        from litedram.phy.model import get_sdram_phy_settings
        return get_sdram_phy_settings(memtype, 16, clk)
    return b


def _b_lp4(kind):
    def b(clk, cl, cwl, rdimm, clam):
        if kind == "sim":
            from litedram.phy.lpddr4.simphy import LPDDR4SimPHY
            return LPDDR4SimPHY(sys_clk_freq=clk).settings
        if kind == "simdr":
            from litedram.phy.lpddr4.simphy import DoubleRateLPDDR4SimPHY
            return DoubleRateLPDDR4SimPHY(sys_clk_freq=clk).settings
        import litedram.phy.lpddr4.s7phy as p
        return getattr(p, kind)(_lp4_pads(), sys_clk_freq=clk, iodelay_clk_freq=400e6).settings
    return b


def _b_lp5(kind, ratio, conv=1):
    def b(clk, cl, cwl, rdimm, clam):
        if kind == "sim" and conv == 1:
            from litedram.phy.lpddr5.simphy import LPDDR5SimPHY
            return LPDDR5SimPHY(sys_clk_freq=clk, wck_ck_ratio=ratio).settings
        if kind == "sim":
            from litedram.phy.lpddr5.simphy import LPDDR5SimPHY
            from litedram.phy.dfi import DFIRateConverter
            mapping = {"sys": "sys%dx" % conv}
            for r in [2, 2 * ratio]:
                mapping["sys%dx" % r] = "sys%dx" % (conv * r)
                mapping["sys%dx_180" % r] = "sys%dx_180" % (conv * r)
            cls = DFIRateConverter.phy_wrapper(phy_cls=LPDDR5SimPHY, ratio=conv, phy_attrs=["pads", "memtype", "nranks", "databits", "nphases", "twck"],
                                               clock_mapping=mapping, serdes_reset_cnt=0)
            return cls(wck_ck_ratio=ratio, sys_clk_freq=conv * clk).settings
        import litedram.phy.lpddr5.s7phy as p
        return getattr(p, kind)(_lp5_pads(), ck_freq=clk, iodelay_clk_freq=400e6, wck_ck_ratio=ratio).settings
    return b


# DRAM clock range explored per type (MHz); deliberately a little wider than the speed-bin tables so that rejections occur
DRAM_MHZ = {"SDR": (20, 180), "DDR": (66, 210), "LPDDR": (50, 210), "DDR2": (100, 560), "DDR3": (300, 1000), "DDR4": (600, 1400),
            "LPDDR4": (40, 2200), "LPDDR5": (10, 830)}


def _V(memtype, n, build, table="default", overrides=False, rdimm=False, clam=False, ratio=None, known_good_mhz=None):
    return dict(memtype=memtype, n=n, build=build, table=table, overrides=overrides, rdimm=rdimm, clam=clam, ratio=ratio, good=known_good_mhz)


VARIANTS = {
    "GENSDRPHY":          _V("SDR", 1, _b_gensdr, overrides=True, known_good_mhz=100),
    "HalfRateGENSDRPHY":  _V("SDR", 2, _b_hrgensdr, overrides=True, known_good_mhz=50),
    "Model/SDR":          _V("SDR", 1, _b_model("SDR"), table="phy", known_good_mhz=100),
    "S6Half/DDR":         _V("DDR", 2, _b_s6half("DDR"), table="phy", known_good_mhz=66),
    "Model/DDR":          _V("DDR", 2, _b_model("DDR"), table="phy", known_good_mhz=66),
    "S6Half/LPDDR":       _V("LPDDR", 2, _b_s6half("LPDDR"), table="phy", known_good_mhz=66),
    "Model/LPDDR":        _V("LPDDR", 2, _b_model("LPDDR"), table="phy", known_good_mhz=66),
    "S6Half/DDR2":        _V("DDR2", 2, _b_s6half("DDR2"), table="phy", known_good_mhz=100),
    "A7/DDR2/1:2":        _V("DDR2", 2, _b_s7("A7DDRPHY", "DDR2", 2), overrides=True, known_good_mhz=100),
    "K7/DDR2/1:4":        _V("DDR2", 4, _b_s7("K7DDRPHY", "DDR2", 4), overrides=True, known_good_mhz=50),
    "Model/DDR2":         _V("DDR2", 2, _b_model("DDR2"), known_good_mhz=100),
    "S6Half/DDR3":        _V("DDR3", 2, _b_s6half("DDR3"), table="phy", known_good_mhz=160),
    "S6Quarter/DDR3":     _V("DDR3", 4, _b_s6quarter, table="phy", known_good_mhz=80),
    "A7/DDR3/1:4":        _V("DDR3", 4, _b_s7("A7DDRPHY", "DDR3", 4), table="phy", overrides=True, known_good_mhz=100),
    "K7/DDR3/1:4":        _V("DDR3", 4, _b_s7("K7DDRPHY", "DDR3", 4), overrides=True, known_good_mhz=100),
    "V7/DDR3/1:4":        _V("DDR3", 4, _b_s7("V7DDRPHY", "DDR3", 4), overrides=True, known_good_mhz=100),
    "A7x2/DDR3/1:8":      _V("DDR3", 8, _b_s7ratio(2), table="phy", overrides=True, known_good_mhz=50),
    "US/DDR3":            _V("DDR3", 4, _b_us("USDDRPHY", "DDR3"), overrides=True, known_good_mhz=125),
    "ECP5/DDR3":          _V("DDR3", 2, _b_simple("litedram.phy.ecp5ddrphy", "ECP5DDRPHY"), overrides=True, known_good_mhz=200),
    "GW2/DDR3":           _V("DDR3", 2, _b_simple("litedram.phy.gw2ddrphy", "GW2DDRPHY"), overrides=True, known_good_mhz=200),
    "GW5/DDR3":           _V("DDR3", 2, _b_simple("litedram.phy.gw5ddrphy", "GW5DDRPHY"), overrides=True, known_good_mhz=200),
    "Model/DDR3":         _V("DDR3", 4, _b_model("DDR3"), known_good_mhz=100),
    "K7/DDR4/1:4":        _V("DDR4", 4, _b_s7("K7DDRPHY", "DDR4", 4), overrides=True, rdimm=True, known_good_mhz=200),
    "A7/DDR4/1:4":        _V("DDR4", 4, _b_s7("A7DDRPHY", "DDR4", 4), overrides=True, rdimm=True, known_good_mhz=200),
    "US/DDR4":            _V("DDR4", 4, _b_us("USDDRPHY", "DDR4"), overrides=True, rdimm=True, clam=True, known_good_mhz=200),
    "USP/DDR4":           _V("DDR4", 4, _b_us("USPDDRPHY", "DDR4"), overrides=True, rdimm=True, clam=True, known_good_mhz=300),
    "Model/DDR4":         _V("DDR4", 4, _b_model("DDR4"), known_good_mhz=200),
    "LPDDR4Sim":          _V("LPDDR4", 8, _b_lp4("sim"), table="phy", known_good_mhz=100),
    "LPDDR4SimDR":        _V("LPDDR4", 8, _b_lp4("simdr"), table="phy", known_good_mhz=100),
    "A7LPDDR4":           _V("LPDDR4", 8, _b_lp4("A7LPDDR4PHY"), table="phy", known_good_mhz=100),
    "K7LPDDR4":           _V("LPDDR4", 8, _b_lp4("K7LPDDR4PHY"), table="phy", known_good_mhz=100),
    "LPDDR5Sim/2":        _V("LPDDR5", 1, _b_lp5("sim", 2), table="phy", ratio=2, known_good_mhz=200),
    "LPDDR5Sim/4":        _V("LPDDR5", 1, _b_lp5("sim", 4), table="phy", ratio=4, known_good_mhz=200),
    "LPDDR5Sim/2/conv2":  _V("LPDDR5", 2, _b_lp5("sim", 2, 2), table="phy", ratio=2, known_good_mhz=100),
    "LPDDR5Sim/4/conv4":  _V("LPDDR5", 4, _b_lp5("sim", 4, 4), table="phy", ratio=4, known_good_mhz=50),
    # S7LPDDR5PHY (A7/K7/V7LPDDR5PHY) does not elaborate on this tree (NameError cmd_4bit_i in lpddr5/s7phy.py) and S7DDRPHY with DDR4 at
    # nphases=2 fails in DDR4DFIMux (IndexError): neither can be a source of PhySettings; their formulas are those of LPDDR5PHY / S7DDRPHY above.
}
VNAMES = sorted(VARIANTS)

# JEDEC-legal user latencies per type (the domain of the PHY constructors' cl / cwl arguments)
LEGAL_CL = {"SDR": [2, 3], "DDR2": [3, 4, 5, 6, 7], "DDR3": list(range(5, 17)), "DDR4": sorted(J.DDR4_CL.values())}
LEGAL_CWL = {"DDR2": [2, 3, 4, 5, 6], "DDR3": list(range(5, 13)), "DDR4": [9, 10, 11, 12, 14, 16, 18, 20]}
# data-rate thresholds (Mbit/s per pin) of the speed-bin tables: clocks one ulp around them are generated explicitly
BIN_MBPS = [100, 133, 200, 266, 333, 400, 532, 533, 667, 677, 800, 1066, 1067, 1333, 1600, 1866, 2132, 2133, 2400, 2666, 2750, 2933, 3200, 3732, 3733,
            4266, 4267, 4800, 5500, 6000, 6400]

EL_VALUES = {
    "DDR3": dict(rtt_nom=sorted(J.DDR3_MR1[2].table.values()), rtt_wr=sorted(J.DDR3_MR2[4].table.values()), ron=sorted(J.DDR3_MR1[1].table.values()), tdqs=[0, 1]),
    "DDR4": dict(rtt_nom=sorted(J.DDR4_MR1[4].table.values()), rtt_wr=sorted(J.DDR4_MR2[2].table.values()), ron=sorted(J.DDR4_MR1[1].table.values()), tdqs=[0, 1]),
}
# what init.py documents as the point-to-point defaults when an option is not given
EL_DEFAULT = {"DDR3": dict(rtt_nom="60ohm", rtt_wr="60ohm", ron="34ohm", tdqs=0), "DDR4": dict(rtt_nom="40ohm", rtt_wr="120ohm", ron="34ohm", tdqs=0)}


def el_grid(memtype):
    """deterministic list of electrical-option dicts: none, every single value through the API, every single value through the attribute"""
    out = [None]
    if memtype not in EL_VALUES:
        return out
    for via in ("api", "attr"):
        for k in ("rtt_nom", "rtt_wr", "ron", "tdqs"):
            for v in EL_VALUES[memtype][k]:
                out.append({"via": via, k: v})
    return out


# ------------------------------------------------------------------------------------------------------------------
_modcache = {}


def module_table():
    """{memtype: [(name, class)]} of the library modules (+ the LPDDR5 example module defined in phy/lpddr5/simsoc.py)"""
    if _modcache:
        return _modcache
    import litedram.modules as M
    out = {}
    for name in sorted(dir(M)):
        c = getattr(M, name)
        if isinstance(c, type) and issubclass(c, M.SDRAMModule) and hasattr(c, "nbanks") and hasattr(c, "memtype") and (hasattr(c, "technology_timings") or hasattr(c, "tREFI")):
            out.setdefault(c.memtype, []).append((name, c))
    # the only LPDDR5 module of the repository lives in a file that does not import on this LiteX: take the class definition itself
    fn = os.path.join(os.path.dirname(M.__file__), "phy", "lpddr5", "simsoc.py")
    try:
        tree = ast.parse(open(fn).read())
        for node in tree.body:
            if isinstance(node, ast.ClassDef) and node.name == "LPDDR5ExampleModule":
                ns = dict(SDRAMModule=M.SDRAMModule, _TechnologyTimings=M._TechnologyTimings, _SpeedgradeTimings=M._SpeedgradeTimings)
                exec(compile(ast.Module(body=[node], type_ignores=[]), fn, "exec"), ns)
                out.setdefault("LPDDR5", []).append(("LPDDR5ExampleModule", ns["LPDDR5ExampleModule"]))
    except (OSError, SyntaxError):
        pass
    _modcache.update(out)
    return _modcache


def module_points(memtype):
    """[(name, speedgrade, fine)]"""
    pts = []
    for name, cls in module_table().get(memtype, []):
        for sg in ds.speedgrades(cls):
            for fine in ds.fine_modes(cls):
                pts.append((name, sg, fine))
    return pts


def get_module(memtype, name):
    return dict(module_table()[memtype])[name]


_phycache = {}


def phy_settings(vname, clk, cl=None, cwl=None, rdimm=False, clam=False):
    """elaborate the PHY (cached per process); returns a private copy of its settings or raises REJECT"""
    key = (vname, clk, cl, cwl, bool(rdimm), bool(clam))
    if key not in _phycache:
        if len(_phycache) > 256:
            _phycache.clear()
        import migen.fhdl.tracer as tracer
        saved = tracer.trace_back
        # Migen walks the Python stack for every Signal to derive a display name (most of the elaboration time); names are irrelevant here
        tracer.trace_back = lambda varname=None: [(varname or "sig", 0)]
        try:
            s = VARIANTS[vname]["build"](clk, cl, cwl, rdimm, clam)
        except REJECT as e:
            s = e
        finally:
            tracer.trace_back = saved
        _phycache[key] = s
    s = _phycache[key]
    if isinstance(s, Exception):
        raise s
    return copy.copy(s)


def selfcheck_variants(names):
    """every variant must elaborate at a clock known to be inside its range: a pads/constructor mistake of this harness must not hide as 'rejected'"""
    for v in names:
        try:
            s = phy_settings(v, VARIANTS[v]["good"] * 1e6)
        except REJECT as e:
            raise HarnessError("variant %s does not elaborate at %s MHz: %r" % (v, VARIANTS[v]["good"], e))
        if s.memtype != VARIANTS[v]["memtype"] or s.nphases != VARIANTS[v]["n"]:
            raise HarnessError("variant %s: memtype/nphases %s/%s differ from the table" % (v, s.memtype, s.nphases))


# ------------------------------------------------------------------------------------------------------------------
# header parsers
_C_DEF = re.compile(r"^#define\s+(\w+)\s+(\S+)\s*$")
_C_STMT = re.compile(r"^(\w+)\((.*)\);$")


def _c_int(tok, defs):
    tok = tok.strip()
    if tok in defs:
        return defs[tok]
    try:
        return int(tok, 0)
    except ValueError:
        raise SyntaxError("not an integer: %r" % tok)


def _c_or(expr, defs):
    v = 0
    names = []
    for t in expr.split("|"):
        v |= _c_int(t, defs)
        names.append(t.strip())
    return v, names


def parse_c_header(text):
    """-> (defs, entries) ; entry = dict(a, ba, kind 'control'|'command', cmd int, names [..], delay)"""
    defs = {}
    lines = text.split("\n")
    for ln in lines:
        m = _C_DEF.match(ln.strip())
        if m:
            try:
                defs[m.group(1)] = int(m.group(2).rstrip("UL"), 0)
            except ValueError:
                pass
    try:
        start = next(i for i, ln in enumerate(lines) if ln.strip().startswith("static inline void init_sequence(void)"))
    except StopIteration:
        raise SyntaxError("no init_sequence function")
    entries = []
    a = ba = None
    depth = 0
    for ln in lines[start + 1:]:
        s = ln.strip()
        if s == "{":
            depth += 1
            continue
        if s == "}":
            depth -= 1
            if depth == 0:
                break
            continue
        if not s or (s.startswith("/*") and s.endswith("*/")):
            continue
        m = _C_STMT.match(s)
        if not m:
            raise SyntaxError("unparsed statement %r" % s)
        fn, arg = m.group(1), m.group(2)
        if fn == "sdram_dfii_pi0_address_write":
            a = _c_int(arg, defs)
        elif fn == "sdram_dfii_pi0_baddress_write":
            ba = _c_int(arg, defs)
        elif fn in ("sdram_dfii_control_write", "command_p0"):
            if a is None or ba is None:
                raise SyntaxError("command before address/bank were written")
            v, names = _c_or(arg, defs)
            entries.append(dict(a=a, ba=ba, kind="control" if fn == "sdram_dfii_control_write" else "command", cmd=v, names=names, delay=0))
        elif fn == "cdelay":
            if not entries:
                raise SyntaxError("delay before any command")
            entries[-1]["delay"] += _c_int(arg, defs)
        else:
            raise SyntaxError("unknown call %s" % fn)
    return defs, entries


def _py_eval(node, env):
    if isinstance(node, ast.Constant) and isinstance(node.value, (int, str)):
        return node.value
    if isinstance(node, ast.Name):
        return env[node.id]
    if isinstance(node, ast.BinOp) and isinstance(node.op, ast.BitOr):
        return _py_eval(node.left, env) | _py_eval(node.right, env)
    raise SyntaxError("unsupported expression in python header")


def _py_names(node):
    return sorted(n.id for n in ast.walk(node) if isinstance(n, ast.Name))


def parse_py_header(text):
    env = {}
    entries = None
    for node in ast.parse(text).body:
        if not (isinstance(node, ast.Assign) and len(node.targets) == 1 and isinstance(node.targets[0], ast.Name)):
            raise SyntaxError("unexpected statement in python header")
        name = node.targets[0].id
        if name == "init_sequence":
            entries = []
            for t in node.value.elts:
                c, a, ba, cmd, delay = t.elts
                names = _py_names(cmd)
                kinds = set(n.split("_")[1] for n in names)
                entries.append(dict(comment=_py_eval(c, env), a=_py_eval(a, env), ba=_py_eval(ba, env), cmd=_py_eval(cmd, env), names=names,
                                    kind="control" if kinds == {"control"} else "command" if kinds == {"command"} else "mixed", delay=_py_eval(delay, env)))
        else:
            env[name] = _py_eval(node.value, env)
    if entries is None:
        raise SyntaxError("no init_sequence in python header")
    return env, entries


def fold(entries, memtype, rdimm, clam_flags, side):
    """undo the clam-shell top/bottom duplication (C only) and the RDIMM A/B duplication -> (logical entries, problems)"""
    problems = []
    out = list(entries)
    if clam_flags:
        top, bottom = clam_flags
        res, i = [], 0
        while i < len(out):
            e = out[i]
            if e["kind"] == "command" and e["cmd"] & top:
                if i + 1 >= len(out) or not (out[i + 1]["cmd"] & bottom):
                    problems.append("%s: top-side mode register write #%d is not followed by a bottom-side write" % (side, i))
                    res.append(dict(e, cmd=e["cmd"] & ~(top | bottom)))
                    i += 1
                    continue
                b = out[i + 1]
                if b["a"] != J.mirror(e["a"], J.MIRROR_A) or b["ba"] != J.mirror(e["ba"], J.MIRROR_BA):
                    problems.append("%s: bottom-side write #%d (a=0x%x ba=%d) is not the pin-mirrored image of the top-side write (a=0x%x ba=%d)" % (side, i + 1, b["a"], b["ba"], e["a"], e["ba"]))
                if (b["cmd"] & ~(top | bottom)) != (e["cmd"] & ~(top | bottom)) or b["delay"] != e["delay"] or (e["cmd"] & bottom) or (b["cmd"] & top):
                    problems.append("%s: top/bottom writes #%d differ in command or delay" % (side, i))
                res.append(dict(e, cmd=e["cmd"] & ~(top | bottom)))
                i += 2
            else:
                if e["kind"] == "command" and (e["cmd"] & bottom):
                    problems.append("%s: bottom-side write #%d without a top-side write" % (side, i))
                elif e["kind"] == "command" and (e["cmd"] & 0x0F) == 0x0F:
                    problems.append("%s: mode register write #%d addresses neither the top nor the bottom device of the clam-shell" % (side, i))
                res.append(e)
                i += 1
        out = res
    if rdimm:
        res, i = [], 0
        while i < len(out):
            e = out[i]
            if e["ba"] == J.RCD_MR and e["cmd"] == 0x0F and e["kind"] == "command":
                res.append(e)           # register control word: consumed by the RCD, not duplicated
                i += 1
                continue
            if i + 1 < len(out) and out[i + 1]["a"] == e["a"] ^ J.RDIMM_B_A_MASK and out[i + 1]["ba"] == e["ba"] ^ J.RDIMM_B_BA_MASK \
                    and out[i + 1]["cmd"] == e["cmd"] and out[i + 1]["delay"] == e["delay"] and out[i + 1]["kind"] == e["kind"]:
                res.append(e)
                i += 2
                continue
            if e["kind"] == "command" and e["cmd"] == 0x0F:
                problems.append("%s: A-side mode register write #%d (a=0x%x ba=%d) is not followed by its B-side image (A3-A9,A11,A13,BA,BG inverted)" % (side, i, e["a"], e["ba"]))
            res.append(e)
            i += 1
        out = res
    return out, problems


# ------------------------------------------------------------------------------------------------------------------
def apply_options(phy, case, tck_s):
    el = case.get("el")
    if el:
        opts = dict((k, v) for k, v in el.items() if k != "via")
        if el.get("via") == "attr":
            for k, v in opts.items():
                setattr(phy, k, v)
        else:
            phy.add_electrical_settings(**opts)
    rd = case.get("rdimm")
    if isinstance(rd, dict):
        phy.set_rdimm(tck=tck_s, rcd_pll_bypass=bool(rd["pll_bypass"]), rcd_ca_cs_drive=rd["ca_cs"], rcd_odt_cke_drive=rd["odt_cke"], rcd_clk_drive=rd["clk"])


def evaluate(case):
    """-> (findings, classes, nontrivial, sample)"""
    from litedram.common import burst_lengths
    import litedram.init as init
    V = VARIANTS[case["phy"]]
    memtype, n = V["memtype"], V["n"]
    clk = case["clk"]
    classes = ["%s %s" % (memtype, case["phy"])]
    findings = []
    user = case.get("cl") is not None or case.get("cwl") is not None or bool(case.get("el")) or isinstance(case.get("rdimm"), dict)
    sample = dict(case)

    def F(clause, key, what):
        findings.append(dict(clause=clause, key=key, what=what))

    # --- PHY
    try:
        phy = phy_settings(case["phy"], clk, case.get("cl"), case.get("cwl"), rdimm=case.get("rdimm") is True, clam=case.get("clam"))
    except REJECT as e:
        return [], classes + ["rejected by PHY constructor (%s)" % type(e).__name__], False, sample
    if phy.nphases != n or phy.memtype != memtype:
        raise HarnessError("variant table out of date for %s" % case["phy"])
    # --- module
    cls = get_module(memtype, case["module"])
    kw = {}
    sg = case.get("sg")
    if sg is not None and sg != "default":
        kw["speedgrade"] = sg
    if case.get("fine") is not None:
        kw["fine_refresh_mode"] = case["fine"]
    mod = cls(clk, "1:%d" % n, **kw)
    timing, geom = mod.timing_settings, mod.geom_settings
    T = ds.period_ns(clk)
    tck = T / n
    apply_options(phy, case, float(tck) * 1e-9)
    rdimm = bool(phy.is_rdimm)
    clam = bool(phy.is_clam_shell)
    if rdimm:
        classes.append("RDIMM")
    if clam:
        classes.append("clam-shell")
    keyp = "%s/%s" % (memtype, case["phy"])

    # --- generated artefacts
    try:
        seq, mr = init.get_sdram_phy_init_sequence(phy, timing)
        c_text = init.get_sdram_phy_c_header(phy, timing, geom)
        py_text = init.get_sdram_phy_py_header(phy, timing)
    except REJECT as e:
        classes.append("rejected by init.py (%s)" % type(e).__name__)
        if not user:
            F("C17.init_rejects_phy_selection", keyp, "init.py raises %s(%s) for the configuration the PHY itself selects: cl=%s cwl=%s nphases=%d, %s at %.6f MHz (tWR=%s tWTR=%s cycles)"
              % (type(e).__name__, e, phy.cl, phy.cwl, n, case["module"], clk / 1e6, timing.tWR, timing.tWTR))
        return findings, classes, False, sample

    # --- C == Python == sequence
    try:
        defs, c_entries = parse_c_header(c_text)
    except SyntaxError as e:
        F("C17.header_parse", keyp, "C header cannot be parsed back: %s" % e)
        return findings, classes, False, sample
    try:
        env, py_entries = parse_py_header(py_text)
    except SyntaxError as e:
        F("C17.header_parse", keyp, "Python header cannot be parsed back: %s" % e)
        return findings, classes, False, sample
    clam_flags = None
    if clam:
        if "DFII_COMMAND_CS_TOP" not in defs or "DFII_COMMAND_CS_BOTTOM" not in defs:
            F("C17.headers_differ", keyp, "clam-shell PHY but the C header defines no top/bottom chip-select flags")
        else:
            clam_flags = (defs["DFII_COMMAND_CS_TOP"], defs["DFII_COMMAND_CS_BOTTOM"])
    c_log, p1 = fold(c_entries, memtype, rdimm, clam_flags, "C")
    py_log, p2 = fold(py_entries, memtype, rdimm, None, "Python")
    for p in p1 + p2:
        F("C17.duplication", keyp, p)
    tup = lambda e: (e["a"], e["ba"], e["kind"], e["cmd"], e["delay"])
    # names in the two headers carry the same numeric values?
    for k, v in env.items():
        if k.startswith("dfii_") and defs.get(k.upper()) != v:
            F("C17.headers_differ", keyp, "constant %s = %s in the Python header, %s in the C header" % (k, v, defs.get(k.upper())))
    if [tup(e) for e in c_log] != [tup(e) for e in py_log]:
        i = next((i for i, (x, y) in enumerate(zip(c_log, py_log)) if tup(x) != tup(y)), min(len(c_log), len(py_log)))
        F("C17.headers_differ", keyp, "C and Python headers describe different sequences (C %d entries, Python %d); first difference at entry %d: C %s, Python %s"
          % (len(c_log), len(py_log), i, tup(c_log[i]) if i < len(c_log) else None, tup(py_log[i]) if i < len(py_log) else None))
    ref = []
    for comment, a, ba, cmd, delay in seq:
        v, names = _c_or(cmd, defs)
        ref.append((a, ba, "control" if all(x.startswith("DFII_CONTROL") for x in names) else "command", v, delay))
    if [tup(e) for e in c_log] != ref:
        i = next((i for i, (x, y) in enumerate(zip(c_log, ref)) if tup(x) != y), min(len(c_log), len(ref)))
        F("C17.headers_differ", keyp, "C header differs from get_sdram_phy_init_sequence at entry %d: C %s, sequence %s"
          % (i, tup(c_log[i]) if i < len(c_log) else None, ref[i] if i < len(ref) else None))

    # --- decode the mode register writes of the (C) logical sequence
    writes = [(e["ba"], e["a"]) for e in c_log if e["kind"] == "command" and e["cmd"] == 0x0F]
    rcd = []
    if memtype == "DDR4":
        rcd = [a for ba, a in writes if ba == J.RCD_MR]
        writes = [(ba, a) for ba, a in writes if ba != J.RCD_MR]
        if rcd and not rdimm:
            F("C17.field_overflow", keyp, "write to MR7 (RCD control word) without RDIMM")
    if memtype in ("SDR", "LPDDR"):
        # init.py sends the DDR-style "reset DLL" write (A8 = 1) to these types too although they have no DLL and A8 belongs to the reserved
        # operating-mode bits.  The property is about the state the DRAM ends up in: the bit is tolerated in every write but the last one to MR.
        idx = [i for i, (ba, a) in enumerate(writes) if ba == 0]
        for i in idx[:-1]:
            if writes[i][1] & 0x100:
                writes[i] = (0, writes[i][1] & ~0x100)
                if "intermediate MR write with A8 set (DLL reset on a type without DLL)" not in classes:
                    classes.append("intermediate MR write with A8 set (DLL reset on a type without DLL)")
    st = J.decode_state(memtype, writes, wck_ck_ratio=V["ratio"])
    for p in st["problems"]:
        F("C17.field_overflow", keyp, p + " [cl=%s cwl=%s]" % (phy.cl, phy.cwl))
    if not writes:
        F("C17.field_overflow", keyp, "no mode register write in the sequence")
    # write-levelling reset value of the headers
    if "DDRX_MR_WRLVL_ADDRESS" in defs:
        adr = defs["DDRX_MR_WRLVL_ADDRESS"]
        last = [a for ba, a in writes if ba == adr]
        if not last or last[-1] != defs.get("DDRX_MR_WRLVL_RESET"):
            F("C17.headers_differ", keyp, "DDRX_MR_WRLVL_RESET=%s is not the value written to MR%d (%s)" % (defs.get("DDRX_MR_WRLVL_RESET"), adr, last[-1:] or None))
        if adr == 1 and env.get("ddrx_mr1") != defs.get("DDRX_MR_WRLVL_RESET"):
            F("C17.headers_differ", keyp, "ddrx_mr1=%s in the Python header, DDRX_MR_WRLVL_RESET=%s in the C header" % (env.get("ddrx_mr1"), defs.get("DDRX_MR_WRLVL_RESET")))

    # burst length / latencies : every write to the register must carry them, not only the last one
    bl_exp = n if memtype == "SDR" else burst_lengths[memtype]
    main = {"SDR": "MR", "DDR": "MR", "LPDDR": "MR", "DDR2": "MR", "DDR3": "MR0", "DDR4": "MR0"}.get(memtype)
    for name, fields in st["every"]:
        if name == main:
            if fields.get("BL") != bl_exp:
                F("C17.bl", keyp, "%s programs burst length %s, the controller operates with %s" % (name, fields.get("BL"), bl_exp))
            if fields.get("CL") != phy.cl:
                F("C17.cl", keyp, "%s programs CAS latency %s, the PHY operates with cl=%s" % (name, fields.get("CL"), phy.cl))
    if st["bl"] != bl_exp:
        F("C17.bl", keyp, "programmed burst length %s, the controller operates with %s" % (st["bl"], bl_exp))
    if st["cl"] != phy.cl:
        F("C17.cl", keyp, "programmed read latency %s, the PHY operates with cl=%s" % (st["cl"], phy.cl))
    if memtype in HAS_CWL_FIELD:
        if st["cwl"] != phy.cwl:
            F("C17.cwl", keyp, "programmed write latency %s, the PHY operates with cwl=%s" % (st["cwl"], phy.cwl))
    elif memtype == "DDR2" and st["cwl"] is not None:
        if phy.cwl < st["cwl"]:
            F("C17.cwl", keyp, "DDR2 write latency AL+CL-1 = %s exceeds the cwl=%s the controller operates with" % (st["cwl"], phy.cwl))
        elif phy.cwl > st["cwl"]:
            if case["phy"].startswith("S6Half"):
                # this PHY declares no cwl for DDR2 (PhySettings falls back to cl; its data timing is hard-wired): only the controller's
                # write-to-precharge wait uses the value, and a larger one is on the safe side
                classes.append("DDR2: phy.cwl above the DRAM's CL-1 (conservative)")
            else:
                # the PHY places the write data with its cwl: later than the DRAM's AL+CL-1 means the DRAM samples before the data is there
                F("C17.cwl", keyp, "DDR2 write latency AL+CL-1 = %s is below the cwl=%s the PHY drives the write data with" % (st["cwl"], phy.cwl))
    if st["al"] not in (0, None):
        F("C17.al", keyp, "additive latency %s programmed, the controller assumes AL=0" % st["al"])
    if memtype == "LPDDR5" and st.get("wck_ck_ratio") != V["ratio"]:
        F("C17.cl", keyp, "MR18 programs WCK:CK %s:1, the PHY operates with %s:1" % (st.get("wck_ck_ratio"), V["ratio"]))
    if memtype == "LPDDR4" and st["cl"] is not None and st["cwl"] is not None and st["wr"] is not None:
        if (st["cl"], st["cwl"], st["wr"]) not in [r[:3] for r in J.LP4_ROWS]:
            F("C17.lp_sets", keyp, "RL=%s WL=%s nWR=%s are not one row of the JEDEC frequency-range table" % (st["cl"], st["cwl"], st["wr"]))
    if memtype == "LPDDR5":
        codes = (J.Field("x", [4, 5, 6, 7]).code(dict(writes).get(1, 0)), J.Field("x", [0, 1, 2, 3]).code(dict(writes).get(2, 0)), J.Field("x", [4, 5, 6, 7]).code(dict(writes).get(2, 0)))
        if len(set(codes)) != 1:
            F("C17.lp_sets", keyp, "WL / RL / nWR codes %s do not select the same frequency range" % (codes,))
    if memtype == "DDR4":
        fgr = st["regs"].get("MR3", {}).get("FGR")
        if fgr != getattr(timing, "fine_refresh_mode", None):
            F("C17.fgr", keyp, "MR3 programs fine granularity refresh %s, tRFC/tREFI were computed for %s" % (fgr, getattr(timing, "fine_refresh_mode", None)))

    # quiet / requested values of every other field
    exp_el = dict(EL_DEFAULT.get(memtype, {}))
    for k in exp_el:
        if hasattr(phy, k):
            exp_el[k] = getattr(phy, k)
    el = case.get("el") or {}
    if el.get("via") == "api" and "rtt_nom" in el and el["rtt_nom"] != exp_el.get("rtt_nom"):
        classes.append("rtt_nom given to add_electrical_settings is not the value init.py programs (stored as .rtt, read as .rtt_nom)")
    quiet = QUIET[memtype](exp_el)
    for name, fields in st["every"]:
        for fname, allowed in quiet.get(name, {}).items():
            if fname in fields and fields[fname] not in allowed:
                F("C17.field_overlap", keyp, "%s field %s decodes to %r, expected %s (a neighbouring field spilled into it?) [cl=%s cwl=%s el=%s]"
                  % (name, fname, fields[fname], "/".join(map(str, allowed)), phy.cl, phy.cwl, case.get("el")))

    # RCD control words
    if rdimm:
        words = [J.decode_rcd(a) for a in rcd]
        names = [w for w, _ in words]
        if len(set(names)) != len(names):
            F("C17.field_overflow", keyp, "RCD control words written twice: %s (a value spilled into the word-select bits?)" % names)
        exp = {"RC03": phy.rcd_ca_cs_drive, "RC04": phy.rcd_odt_cke_drive, "RC05": phy.rcd_clk_drive}
        got = dict(words)
        for w, v in exp.items():
            if got.get(w) != v:
                F("C17.field_overflow", keyp, "RCD %s holds %s, requested drive strength %s" % (w, got.get(w), v))
        mts = 2e-6 / float(phy.tck)
        co = got.get("RC0A")
        if co is None or (co & 8):
            F("C17.field_overflow", keyp, "RCD RC0A (speed) missing or reserved: %s" % co)
        elif phy.rcd_pll_bypass:
            if co != 7:
                F("C17.rcd_speed", "DDR4", "PLL bypass requested, RC0A = %d" % co)
        elif co == 7:
            F("C17.rcd_speed", "DDR4", "RC0A selects PLL bypass, not requested")
        elif mts > J.RCD_COARSE_MTS[co] * (1 + 1e-9) or (co > 0 and mts <= J.RCD_COARSE_MTS[co - 1] * (1 - 1e-9)):
            F("C17.rcd_speed", "DDR4", "RC0A = %d (up to %d MT/s) at %.3f MT/s" % (co, J.RCD_COARSE_MTS[co], mts))

    # --- write recovery
    nontrivial = rdimm or clam or V["table"] == "phy" or case.get("cl") is not None or case.get("cwl") is not None
    if V["table"] == "phy" or case.get("cl") is not None or case.get("cwl") is not None:
        classes.append("CL/CWL from PHY-specific table or user")
    if case.get("cl") is None and case.get("cwl") is None:
        classes.append("%s PHY-selected cl=%s cwl=%s" % (memtype, phy.cl, phy.cwl if memtype in HAS_CWL_FIELD or memtype == "DDR2" else "-"))
    else:
        classes.append("%s user cl/cwl override" % memtype)
    if memtype in HAS_WR and st["wr"] is not None:
        wr = st["wr"]
        sgk = None if sg == "default" and not hasattr(cls, "speedgrade_timings") else sg
        e = ds.entry(cls, sgk, "tWR")
        if e is None:
            raise HarnessError("no datasheet tWR for %s" % case["module"])
        need = ds.need_clocks(e, tck)
        need_ck = math.ceil(need - ds.TOL_NS / tck)
        table = J.wr_table(memtype, V["ratio"])
        burst_ck = burst_lengths[memtype] // 2 if memtype != "LPDDR5" else burst_lengths[memtype] // (2 * V["ratio"])
        budget = None
        if timing.tCCD is not None:
            budget = (math.ceil(phy.cwl / n) + timing.tWR + timing.tCCD) * n - (phy.cwl + burst_ck)
        classes.append("%s WR=%d" % (memtype, wr))
        if need_ck > table[-1]:
            # no encodable write-recovery value covers tWR at this clock: the clock is beyond the speed bins of the memory type, no correct
            # programming exists and the property has nothing to say (counted, not judged)
            classes.append("%s tWR not encodable at this clock (beyond speed bins)" % memtype)
        elif wr * tck < e[1] - ds.TOL_NS or wr < e[0]:
            F("C17.wr_too_short", memtype, "write recovery programmed WR=%d clocks = %.3f ns < datasheet tWR %s ns / %s ck (needs %d clocks) : %s %s %s at %.6f MHz, tck %.4f ns, tWR=%d tWTR=%d controller cycles"
              % (wr, float(wr * tck), float(e[1]), e[0], need_ck, case["phy"], case["module"], sg, clk / 1e6, float(tck), timing.tWR, timing.tWTR))
            classes.append("%s WR too short" % memtype)
        if budget is not None and wr > budget:
            F("C17.wr_exceeds_budget", memtype, "write recovery programmed WR=%d clocks > %d clocks the controller waits between end of write data and precharge "
              "((ceil(%d/%d)+%d+%d)*%d-(%d+%d)) : %s %s %s at %.6f MHz" % (wr, budget, phy.cwl, n, timing.tWR, timing.tCCD, n, phy.cwl, burst_ck, case["phy"], case["module"], sg, clk / 1e6))
            classes.append("%s WR above controller budget" % memtype)
        tight = (wr == need_ck or need_ck in table or (need_ck not in table and need_ck - 1 in table) or wr in (table[0], table[-1]) or wr == budget)
        if tight:
            classes.append("WR at a table boundary")
            nontrivial = True
    return findings, classes, nontrivial, sample


def _quiet_ddr3(el):
    return {"MR0": dict(RBT=["sequential"], TM=["normal"]),
            "MR1": dict(DLL=["enable"], WRLVL=[0], QOFF=["enabled"], RON=[el["ron"]], RTT_NOM=[el["rtt_nom"]], TDQS=[el["tdqs"]]),
            "MR2": dict(PASR=[0], ASR=[0], SRT=[0], RTT_WR=[el["rtt_wr"]]), "MR3": dict(MPR=[0], MPR_LOC=[0])}


def _quiet_ddr4(el):
    return {"MR0": dict(RBT=["sequential"], TM=["normal"]),
            "MR1": dict(DLL=["enable"], WRLVL=[0], QOFF=["enabled"], RON=[el["ron"]], RTT_NOM=[el["rtt_nom"]], TDQS=[el["tdqs"]]),
            "MR2": dict(LPASR=[0], WCRC=[0], RTT_WR=[el["rtt_wr"]]),
            "MR3": dict(MPR=[0], MPR_PAGE=[0], GEARDOWN=[0], PDA=[0], TSR=[0], WCL=[0], MPR_FMT=[0]),
            "MR4": dict((k, [0]) for k in ("MPDM", "TCRR", "TCRM", "IVREF", "CAL", "SRA", "RPT", "RPRE", "WPRE")),
            "MR5": dict(CAPL=[0], CRC_ERR=[0], CAP_ERR=[0], ODT_IBUF=[0], RTT_PARK=[0], CAP_PERSIST=[0], WDBI=[0], RDBI=[0]),
            "MR6": dict(VREFDQ=[0], VREFDQ_RANGE=[0], VREFDQ_TRAIN=[0])}


QUIET = {
    "SDR": lambda el: {"MR": dict(BT=["sequential"], WB=["burst"])},
    "DDR": lambda el: {"MR": dict(BT=["sequential"]), "EMR": dict(DLL=["enable"], QFC=["disable"])},
    "LPDDR": lambda el: {"MR": dict(BT=["sequential"]), "EMR": dict(PASR=["full"])},
    "DDR2": lambda el: {"MR": dict(BT=["sequential"], TM=["normal"]), "EMR1": dict(DLL=["enable"], QOFF=["enabled"], RDQS=["disable"]),
                        "EMR2": dict(PASR=[0], DCC=[0])},
    "DDR3": _quiet_ddr3,
    "DDR4": _quiet_ddr4,
    "LPDDR4": lambda el: {"MR1": dict(WPRE=["2tCK"]), "MR2": dict(WLS=[0], WRLEV=[0]), "MR3": dict(DBI_RD=[0], DBI_WR=[0], PPRP=[0]),
                          "MR13": dict(CBT=[0], RPT=[0], VRO=[0], FSP_WR=[0], FSP_OP=[0])},
    "LPDDR5": lambda el: {"MR1": dict(CK_MODE=["differential"]), "MR3": dict(WLS=[0], DBI_RD=[0], DBI_WR=[0], BK_ORG=["16B"]),
                          "MR18": dict(WCK2CK_LEV=[0], WCK_ON=[0], WCK_FM=[0])},
}


# ------------------------------------------------------------------------------------------------------------------
def clk_range(vname):
    V = VARIANTS[vname]
    lo, hi = DRAM_MHZ[V["memtype"]]
    return lo * 1e6 / V["n"], hi * 1e6 / V["n"]


def grid_cells(tier):
    """[(variant, clk, flags index)] ; flags rotate through plain / rdimm / clam / both where the PHY supports them"""
    npts = 220 if tier == "thorough" else 40
    cells = []
    for v in VNAMES:
        lo, hi = clk_range(v)
        V = VARIANTS[v]
        fixed = v.startswith("S6") or v in ("Model/SDR", "Model/DDR", "Model/LPDDR")      # settings do not depend on the clock
        k = max(8, npts // 3) if fixed else npts
        for i in range(k):
            clk = lo + (hi - lo) * i / (k - 1)
            clk = float(round(clk / 1e3) * 1e3)          # kHz grid: reproducible decimal clocks
            cells.append((v, clk, i))
    return cells


def cases_of_cell(cell, tier):
    v, clk, i = cell
    V = VARIANTS[v]
    memtype = V["memtype"]
    pts = module_points(memtype)
    flagsets = [(False, False)]
    if V["rdimm"]:
        flagsets.append((True, False))
    if V["clam"]:
        flagsets += [(False, True), (True, True)]
    rd, cm = flagsets[i % len(flagsets)]
    els = el_grid(memtype)
    if tier == "thorough":
        sel = list(range(len(pts)))
    else:
        sel = sorted(set((i * 6 + j) % len(pts) for j in range(6)))
    out = []
    for jj, j in enumerate(sel):
        name, sg, fine = pts[j]
        el = els[((i + j) // 3 + 5 * i) % len(els)] if (i + j) % 3 == 0 else None
        rdimm = rd
        if memtype == "DDR4" and not V["rdimm"] and (i + j) % 5 == 0:
            rdimm = dict(pll_bypass=(i + j) % 10 == 0, ca_cs=(i * 5 + j) % 16, odt_cke=(i * 3 + j) % 16, clk=(i + j * 7) % 16)
        out.append(dict(phy=v, clk=clk, module=name, sg=sg, fine=fine, el=el, rdimm=rdimm, clam=cm, cl=None, cwl=None))
    return out


def shards(tier, seed):
    cells = grid_cells(tier)
    nsh = 16
    out = [dict(kind="grid", tier=tier, seed=seed, idx=i, cells=cells[i::nsh]) for i in range(nsh)]
    for i in range(nsh):
        out.append(dict(kind="hyp", tier=tier, seed=seed * 1000 + i, n=(2500 if tier == "thorough" else 150)))
    return out


def run_case(case, col):
    fs, classes, nontrivial, sample = evaluate(case)
    col.case(case, classes=classes, nontrivial=nontrivial, sample=sample)
    return col.filter(fs)


def _finish(col, found):
    vio = None
    if found:
        case, fs = found
        vio = dict(case=case, findings=fs, confirmed_on="pure function")
    return col.result(vio)


def case_strategy():
    from hypothesis import strategies as st

    @st.composite
    def cases(draw):
        v = draw(st.sampled_from(VNAMES))
        V = VARIANTS[v]
        memtype, n = V["memtype"], V["n"]
        lo, hi = clk_range(v)
        mode = draw(st.integers(0, 2))
        if mode == 0:
            clk = draw(st.floats(lo, hi, allow_nan=False))
        elif mode == 1:
            clk = float(draw(st.integers(int(lo / 1e4), int(hi / 1e4))) * 1e4)
        else:
            mbps = draw(st.sampled_from(BIN_MBPS))
            per_clk = 2 * n if memtype not in ("SDR", "LPDDR5") else (n if memtype == "SDR" else 2 * V["ratio"] * n)
            clk = mbps * 1e6 / per_clk
            d = draw(st.sampled_from([-1, 0, 1]))
            if d:
                clk = math.nextafter(clk, clk + d * 1e9)
            clk = min(max(clk, lo), hi)
        name, sg, fine = draw(st.sampled_from(module_points(memtype)))
        el = None
        if memtype in EL_VALUES and draw(st.integers(0, 2)) == 0:
            el = {"via": draw(st.sampled_from(["api", "attr"]))}
            for k in ("rtt_nom", "rtt_wr", "ron", "tdqs"):
                if draw(st.booleans()):
                    el[k] = draw(st.sampled_from(EL_VALUES[memtype][k]))
            if len(el) == 1:
                el = None
        rdimm = False
        if memtype == "DDR4":
            r = draw(st.integers(0, 3))
            if r == 1 and V["rdimm"]:
                rdimm = True
            elif r == 2:
                rdimm = dict(pll_bypass=draw(st.booleans()), ca_cs=draw(st.integers(0, 15)), odt_cke=draw(st.integers(0, 15)), clk=draw(st.integers(0, 15)))
        clam = bool(V["clam"] and draw(st.integers(0, 2)) == 0)
        cl = cwl = None
        if V["overrides"] and draw(st.integers(0, 3)) == 0:
            if memtype == "DDR2":           # DDR2 write latency is CL-1 by construction: a user must pass the matching pair
                cl = draw(st.sampled_from(LEGAL_CL[memtype]))
                cwl = cl - 1
            else:
                if draw(st.booleans()):
                    cl = draw(st.sampled_from(LEGAL_CL[memtype]))
                if memtype in LEGAL_CWL and draw(st.booleans()):
                    cwl = draw(st.sampled_from(LEGAL_CWL[memtype]))
        return dict(phy=v, clk=clk, module=name, sg=sg, fine=fine, el=el, rdimm=rdimm, clam=clam, cl=cl, cwl=cwl)
    return cases()


def _same(fs, clause, key):
    return [f for f in fs if f["clause"] == clause and f["key"] == key]


def minimise(case, fs, col):
    """deterministic simplification of a failing case (Hypothesis shrinking would elaborate a PHY per attempt): drop options one at a
    time, then take the simplest module / a round clock, keeping every step that still shows the same (clause, key)"""
    clause, key = fs[0]["clause"], fs[0]["key"]
    memtype = VARIANTS[case["phy"]]["memtype"]
    best, best_fs = dict(case), _same(fs, clause, key)
    pts = module_points(memtype)
    steps = [dict(el=None), dict(rdimm=False), dict(clam=False), dict(cl=None, cwl=None), dict(cl=None), dict(cwl=None), dict(fine="1x" if memtype == "DDR4" else None),
             dict(module=pts[0][0], sg=pts[0][1]), dict(sg="default")]
    for k in ("rtt_nom", "rtt_wr", "ron", "tdqs"):
        if case.get("el") and k in case["el"]:
            steps.append(dict(el=dict((a, b) for a, b in case["el"].items() if a != k)))
    for unit in (50e6, 10e6, 5e6, 1e6, 1e5, 1e4, 1e3):
        steps.append(dict(clk=float(round(case["clk"] / unit) * unit)))
    clk_done = False
    for st_ in steps:
        cand = dict(best)
        cand.update(st_)
        if cand == best or (cand.get("el") is not None and len(cand["el"]) <= 1) or ("clk" in st_ and clk_done):
            continue
        if not cand.get("clk") or cand["clk"] <= 0:
            continue
        try:
            f2 = _same(col.filter(evaluate(cand)[0]), clause, key)
        except Exception:      # a reduction candidate outside the domain (or one the sources reject) is simply not a reduction
            continue
        if f2:
            best, best_fs = cand, f2
            clk_done = clk_done or "clk" in st_          # the coarsest round clock that still fails
    return best, best_fs


def run_shard(sh):
    col = Collector(ID)
    if sh["kind"] == "grid":
        selfcheck_variants(sorted(set(c[0] for c in sh["cells"])))
        first = {}                 # clause -> first failing case of this shard
        for cell in sh["cells"]:
            for case in cases_of_cell(cell, sh["tier"]):
                fs = run_case(case, col)
                for f in fs:
                    if f["clause"] not in first:
                        first[f["clause"]] = (case, [g for g in fs if g["clause"] == f["clause"]])
        found = None
        if first:
            # the runner keeps one violation per shard and one replay per clause: let the shards report different clauses
            clause = sorted(first)[sh["idx"] % len(first)]
            found = minimise(first[clause][0], first[clause][1], col)
        return _finish(col, found)
    found = hyp_search(lambda c: run_case(c, col), case_strategy(), sh["seed"], sh["n"], shrink=False)
    if found:
        found = minimise(found[0], found[1], col)
    return _finish(col, found)


def replay(case):
    col = Collector(ID)
    return run_case(case, col)
