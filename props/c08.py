"""C08 Clock-domain-crossing ports preserve commands, data and order."""
import math
import lib.compat  # noqa
from hypothesis import strategies as st
from lib.runner import Collector, hyp_search, digest
from lib import portcase as pc
from lib.fastsim import HarnessError

ID = "C08"
REQUIRED_CLASSES = ['coprime_periods', 'backpressure', 'core:cdc']      # classes that must occur in every run (else harness error: vacuous generator)
LEVEL = "exploration"
RULE = ("case = (LiteDRAMNativePortCDC with user/sys clock periods from 4..40 time units incl. co-prime 'drifting' pairs and any phase, FIFO depths 4-32, mode read/write/both) x "
        "(conforming user-domain master: op list with gaps and data lead) x (sys-domain realistic slave: stall schedule, strobe latencies, outstanding limit); "
        "non-trivial = periods differ with gcd(period_user/2, period_sys/2) = 1, or back-pressure reached the master, or >= 8 commands in one case; distinct = distinct digests")
ASSUMPTIONS = ["Migen's TimeManager semantics for the two clocks (half periods are integers: even periods are generated)",
               "the sys-domain realistic slave of lib/native.py (one-cycle strobes regardless of valid/ready, acceptance order)",
               "violations are confirmed on stock migen.sim before being reported"]


@st.composite
def devices(draw):
    pu = 2 * draw(st.integers(2, 20))
    ps = 2 * draw(st.integers(2, 20))
    kind = draw(st.integers(0, 3))
    if kind == 0:
        ps = pu
    elif kind == 1:
        ps = pu * draw(st.sampled_from([2, 4, 8])) if pu <= 10 else max(4, 2 * (pu // 2 // draw(st.sampled_from([2, 4, 8]))))
    clocks = {"user": [pu, draw(st.integers(0, pu - 1))], "sys": [ps, draw(st.integers(0, ps - 1))]}
    dw = draw(st.sampled_from([8, 32, 128]))
    return dict(kind="cdc", mode=draw(st.sampled_from(["both", "both", "write", "read"])), user_dw=dw, ctrl_dw=dw, aw=12, clocks=clocks,
                cmd_depth=draw(st.sampled_from([4, 8, 16])), wdata_depth=draw(st.sampled_from([16, 16, 32, 8, 4])), rdata_depth=draw(st.sampled_from([16, 16, 32, 32, 8, 4])))


@st.composite
def stims(draw, cfg, max_ops):
    dw = cfg["user_dw"]
    full = (1 << (dw // 8)) - 1
    mode = cfg["mode"]
    n = draw(st.integers(1, max_ops))
    pool = [draw(st.integers(0, 4095)) for _ in range(draw(st.integers(1, 5)))]
    ops = []
    for k in range(n):
        we = 1 if mode == "write" else 0 if mode == "read" else draw(st.integers(0, 1))
        op = dict(we=we, addr=pool[draw(st.integers(0, len(pool) - 1))], gap=draw(st.sampled_from([0, 0, 0, 0, 1, 2, 6, 20])))
        if we:
            op.update(data=draw(st.integers(0, (1 << dw) - 1)), be=full if draw(st.integers(0, 2)) else draw(st.integers(0, full)), lead=draw(st.sampled_from([0, 0, 1, 4])))
        ops.append(op)
    # "any back-pressure": the user may also stall the read data it gets from the crossing (an ordinary stream on that side)
    return dict(ops=ops, slave=draw(pc.slave_sched()), wait_reads=draw(st.integers(0, 5)) == 0,
                rready=draw(st.sampled_from([None, None, None, [1, 1], [2, 5], [1, 12], [0, 30, 100, 0], [3, 1]])))


def evaluate(cfg, stim, backend="fast"):
    run = pc.run_cdc(cfg, stim, backend)
    fs, _ = pc.oracle_adapter(run, "C08")
    # classify lost beats: read data FIFO overrun / write data lagging behind its command
    ev = run.ev
    for f in fs:
        if f["clause"] == "C08.lost_beat":
            lost = run.slave.lost[0]
            tl = lost[1]                                         # sys cycle of the strobe
            gt = next((g for g, t in ev["r_pulse" if lost[0].startswith("R") else "w_pulse"] if t == tl), None)
            if gt is not None and lost[0].startswith("R"):
                pulsed = sum(1 for g, t in ev["r_pulse"] if g < gt)
                deliv = sum(1 for g, t in ev["r_deliv"] if g < gt)
                # the listed finding is an overrun of a FIFO of the DECLARED depth; a word lost with fewer words inside is something else
                # (a 4-deep crossing - the smallest LiteX builds - cannot even cover its own pointer synchronisation under back-to-back strobes: deliveries
                #  of the last ~3 cycles are not visible to the writing side yet, so it overruns with hardly anything inside; same listed finding)
                need = cfg["rdata_depth"] - 3 if cfg["rdata_depth"] > 4 else 0
                f["key"] = "rdata_fifo_full" if pulsed - deliv >= need else "R-other"      # (-3: the read pointer crosses the domains with 2-3 cycles of delay)
                f["what"] += " [%d read words strobed, %d delivered to the user side, rdata FIFO depth %d]" % (pulsed, deliv, cfg["rdata_depth"])
            elif gt is not None:
                pushed = sum(1 for g, t in ev["w_push"] if g < gt)
                pulsed = sum(1 for g, t in ev["w_pulse"] if g < gt)
                # words the USER side still believes to be in the FIFO: the read pointer needs about three user clocks to become visible there, so
                # with a slow user clock strobes of the last 3 user periods have not freed their slots yet (the FIFO "looks full" while it is empty)
                pu_, ps_ = cfg["clocks"]["user"][0], cfg["clocks"]["sys"][0]
                hidden = -(-3 * pu_ // ps_)
                visible = sum(1 for g, t in ev["w_pulse"] if g < gt and t <= tl - hidden)
                shallow = cfg["wdata_depth"] < cfg["cmd_depth"] + stim["slave"].get("qmax", 8)
                f["key"] = "wdata_fifo_shallower_than_commands_in_flight" if shallow and ((pushed - pulsed) >= cfg["wdata_depth"] - 3 or (pushed - visible) >= cfg["wdata_depth"] - 1 or cfg["wdata_depth"] <= 4) else "W-other"      # (<= 4: the minimum depth cannot cover its own pointer synchronisation)
                f["what"] += " [%d write words entered, %d strobed, wdata FIFO depth %d, cmd FIFO depth %d]" % (pushed, pulsed, cfg["wdata_depth"], cfg["cmd_depth"])
    x = run.xlog
    for name, a, b in (("commands", "cmd_u", "cmd_s"), ("write words", "wd_u", "wd_s"), ("read words", "rd_s", "rd_u")):
        src, dst = x[a], x[b]
        if dst != src[:len(dst)] or (run.completed and len(dst) != len(src)):
            j = next((i for i in range(min(len(src), len(dst))) if src[i] != dst[i]), min(len(src), len(dst)))
            fs.append(dict(clause="C08.stream_" + name.split()[0], key=name, what="%s differ across the crossing at position %d: %d entered, %d left (entered %s..., left %s...)" % (
                name, j, len(src), len(dst), src[j:j + 2], dst[j:j + 2])))
    # a word lost to a FIFO overrun shifts/loses everything behind it in that case: report the cause only
    cause = [f for f in fs if f["clause"] == "C08.lost_beat" and f["key"] in ("rdata_fifo_full", "wdata_fifo_shallower_than_commands_in_flight")]
    if cause:
        fs = cause
    pu, ps = cfg["clocks"]["user"][0], cfg["clocks"]["sys"][0]
    classes = set()
    if pu != ps and math.gcd(pu // 2, ps // 2) == 1:
        classes.add("coprime_periods")
    if run.backpressure_cycles > 0:
        classes.add("backpressure")
    if stim.get("rready"):
        classes.add("user_stalls_read_data")
    if len(stim["ops"]) >= 8:
        classes.add(">=8_commands")
    classes.add("user faster" if pu < ps else "user slower" if pu > ps else "equal periods")
    return run, fs, classes


def shards(tier, seed):
    out = [dict(tier=tier, seed=seed * 1000 + i, idx=i, ndev=(3 if tier == "quick" else 10), ncases=(40 if tier == "quick" else 100)) for i in range(16)]
    for i in range(8 if tier == "quick" else 16):
        out.append(dict(kind="core", tier=tier, seed=seed * 1000 + 500 + i, idx=i, ncfg=(2 if tier == "quick" else 4), ncases=(12 if tier == "quick" else 20)))
    return out


def diff_selftest(cfg, stim, col):
    tr = {}
    for backend in ("fast", "migen"):
        dut, sim = pc.get_sim(cfg, backend)
        from lib.native import NativeMaster, NativeSlave
        sl = stim.get("slave", {})
        slave = NativeSlave([dut.ctrl], ready_pattern=sl.get("ready"), wlat=sl.get("wlat"), rlat=sl.get("rlat"), qmax=sl.get("qmax", 8))
        master = NativeMaster(dut.user, stim["ops"])
        u, c = dut.user, dut.ctrl
        obs = [u.cmd.ready, u.wdata.ready, u.rdata.valid, u.rdata.data, c.cmd.valid, c.cmd.addr, c.cmd.we, c.wdata.valid, c.wdata.data, c.wdata.we, c.rdata.ready]
        rows = []
        cnt = {"user": 0, "sys": 0}

        def on_rising(cd):
            t = cnt[cd]
            cnt[cd] += 1
            rows.append((cd, [sim.get(s) for s in obs]))
            return master.cycle(sim, t) if cd == "user" else slave.cycle(sim, t)
        while cnt["user"] < 120:
            sim.tick(on_rising)
        tr[backend] = rows
    if tr["fast"] != tr["migen"]:
        raise HarnessError("fastsim differs from migen.sim on CDC device %s" % cfg)
    col.diff_cycles += len(tr["fast"])


def run_core_shard(sh):
    """the same property through crossbar.get_port(...) on the whole core (controller + reference DRAM)"""
    from lib import coremc
    from lib.coreprop import draw_examples
    col = Collector(ID)
    violation = None
    want = "cdc" if sh["idx"] % 3 else "both"
    for ci, cfg in enumerate(draw_examples(coremc.core_cfg(want), sh["ncfg"], sh["seed"])):
        try:
            coremc.get_sim(cfg, "fast")
        except HarnessError:
            raise
        except Exception as e:
            # a configuration that the sources refuse to elaborate cannot be simulated; it is counted (evidence) and the shard goes on with its
            # other configurations (the generator only draws combinations get_port documents, so on the unchanged tree this stays 0)
            col.stats["configurations_that_do_not_elaborate"] = col.stats.get("configurations_that_do_not_elaborate", 0) + 1
            continue

        def t(stim, cfg=cfg):
            r = coremc.run(cfg, stim)
            fs = coremc.oracle(r, "C08")
            kinds = sorted(set(coremc._kind(pc, 0) for pc in cfg["ports"]))
            col.case(dict(cfg=cfg, stim=stim), classes=["core:" + k for k in kinds], nontrivial=True,
                     sample=dict(whole_core=True, memtype=cfg["memtype"], ports=cfg["ports"], clocks=cfg.get("clocks"), ops_per_port=[len(o) for o in stim["ports"]], sys_cycles=r.cycles))
            col.stats["simulated_core_cycles"] = col.stats.get("simulated_core_cycles", 0) + r.cycles
            return col.filter(fs)
        found = hyp_search(t, coremc.core_stim(cfg, 20 if sh["tier"] == "quick" else 40), sh["seed"] * 100 + ci, sh["ncases"], shrink=True)
        if found:
            stim, fs = found
            fm = col.filter(coremc.oracle(coremc.run(cfg, stim, backend="migen"), "C08"))
            if not any(f["clause"] == fs[0]["clause"] for f in fm):
                raise HarnessError("C08 whole-core finding %s does not reproduce on migen.sim" % fs[0]["clause"])
            violation = dict(case=dict(core=True, cfg=cfg, stim=stim), findings=fm, confirmed_on="migen.sim")
            break
    return col.result(violation)


def run_shard(sh):
    if sh.get("kind") == "core":
        return run_core_shard(sh)
    from lib.coreprop import draw_examples
    col = Collector(ID)
    violation = None
    devs = draw_examples(devices(), sh["ndev"], sh["seed"])
    for di, cfg in enumerate(devs):
        state = dict(first=True)

        def t(stim, cfg=cfg, state=state):
            if state["first"] and di == 0 and sh["idx"] < 4:
                diff_selftest(cfg, stim, col)
            state["first"] = False
            run, fs, classes = evaluate(cfg, stim)
            col.case(dict(cfg=cfg, stim=stim), classes=list(classes), nontrivial=bool(classes & {"coprime_periods", "backpressure", ">=8_commands"}),
                     sample=dict(clocks=cfg["clocks"], mode=cfg["mode"], depths=[cfg["cmd_depth"], cfg["wdata_depth"], cfg["rdata_depth"]], nops=len(stim["ops"]),
                                 first_ops=[{k: (hex(v) if k in ("data", "addr") else v) for k, v in op.items()} for op in stim["ops"][:4]], slave=stim["slave"], user_cycles=run.cycles))
            col.stats["simulated_user_cycles"] = col.stats.get("simulated_user_cycles", 0) + run.cycles
            return col.filter(fs)
        found = hyp_search(t, stims(cfg, 30 if sh["tier"] == "quick" else 60), sh["seed"] * 100 + di, sh["ncases"], shrink=True)
        if found:
            stim, fs = found
            _, fm, _ = evaluate(cfg, stim, backend="migen")
            fm = col.filter(fm)
            if not any(f["clause"] == fs[0]["clause"] for f in fm):
                raise HarnessError("C08 finding %s does not reproduce on migen.sim" % fs[0]["clause"])
            violation = dict(case=dict(cfg=cfg, stim=stim), findings=fm, confirmed_on="migen.sim")
            break
    return col.result(violation)


def replay(case):
    col = Collector(ID)
    if case.get("core"):
        from lib import coremc
        return col.filter(coremc.oracle(coremc.run(case["cfg"], case["stim"], backend="migen"), "C08"))
    _, fm, _ = evaluate(case["cfg"], case["stim"], backend="migen")
    return col.filter(fm)
