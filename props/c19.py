"""C19 Bundled DRAM simulation model (litedram.phy.model.SDRAMPHYModel) agrees with an independent DRAM model.

Two sources of legal DFI traces
  (i)  a constructive scheduler (lib/c19model.py: Sched) turning generated intents into commands that the bank state and a
       generated timing set allow - model alone, testbench drives the DFI;
  (ii) the command stream of the real controller: LiteDRAMController + crossbar with the model as its PHY, conforming
       native masters on the ports.
Oracle: lib.refdram.RefDRAM (with the model's background: zeros or the init image laid out by an independent statement of
the two mappings) reads the same DFI signals in lock-step; rddata/rddata_valid of every phase are compared every cycle;
every trace ends with a read-back sweep of the touched locations and their neighbours; image cases read boundary and
drawn words of the image.  See DESIGN.md section 3, C19.

Clauses (key = input class):
  C19.rddata_valid        rddata_valid differs                      keys: only_phase0_valid | <class>
  C19.rddata              read data differs, main part of a trace   keys: colbits_gt_10:a10_or_a11_in_column | controller_stream[...] | unexplained
  C19.final_contents      read data differs in the read-back sweep  (same keys)
  C19.init_image          a never-written location of an image case (same keys)
  C19.same_cycle_commands a mismatch explained by commands on different phases of one controller cycle that touch the same bank
                          (only the 'free' trace shape produces them)  keys: act_then_rd_same_cycle+pre_then_act_same_cycle+two_act_one_cycle ...
  C19.core_incomplete     controller + model did not finish
A shard does not stop at its first finding: it keeps the first case of each distinct (clause, key) and reports one of them
(chosen by shard index), listing the others in the violation record."""
import copy, time
import lib.compat  # noqa
from hypothesis import strategies as st
from lib.runner import Collector, hyp_search, digest, match_known
from lib.fastsim import HarnessError
from lib import c19model as cm
from lib.coreprop import draw_examples, ddmin_stim

ID = "C19"
LEVEL = "exploration"
RULE = ("case = (model configuration: memory type, clock -> cl/cwl, DQ width 8-64, banks/rows/columns, address bus width, write-enable granularity, verbosity, "
        "init image + mapping) x (timing set in DRAM clocks + list of intents act/pre/prea/ref/rd/wr/deselected slot with gaps, masks, auto-precharge, "
        "shape 'ctrl' = at most one row and one column command per cycle on different banks or 'free' = any phase the timing set allows) placed by a constructive scheduler, "
        "or x (per-port op lists for the real controller in front of the model), or x (image read list); every trace ends with a read-back sweep. "
        "non-trivial = the trace reads a location written <= tWTR + WL + BL/2 DRAM clocks earlier, contains a masked write, addresses a column >= 1024, or reads "
        "image contents from >= 2 banks of an image that spans >= 2 banks; distinct = distinct (configuration, case) digests")
ASSUMPTIONS = [
    "generated timing sets have tRCD, tRP, tRRD >= nphases DRAM clocks: row commands to one bank (or PRE->ACT, ACT->RD/WR) never share a controller cycle; the bundled model "
    "applies the commands of one controller cycle simultaneously, no library device and no litedram controller produces such pairs (outside the domain)",
    "reference DRAM (lib/refdram.py) is the definition of a DRAM at the DFI boundary: JEDEC command truth table, A10 = auto-precharge / all-banks and never a column bit, "
    "write data sampled write_latency cycles after the command on all phases, read data with rddata_valid on all phases read_latency cycles after it (PhySettings); its state and timing "
    "monitors must accept every generated trace (otherwise harness error)",
    "the never-written background of the reference is zeros or the init image placed by lib/c19model.py:Image (ROW_BANK_COL = linear address {row, bank, column}, "
    "BANK_ROW_COL = {bank, row, column}; image byte k = byte k of that space, little-endian 32-bit words)",
    "row count reduced to 4-32 (the model allocates one simulator signal per memory word) while the address bus keeps >= 11 bits (>= colbits + 1 when there are more than 1 Ki columns): "
    "the model indexes A10, which every real device has; banks, columns, data widths and timings classes come from litedram.modules",
    "whole-word write enable is we_granularity=0 (None is rejected by this Migen's Memory.get_port); masked writes are generated only with we_granularity=8",
    "single rank (multi-rank is documented as unsupported by the model); image no longer than the memory",
    "violations are confirmed on stock migen.sim before being reported; fastsim (lib/fastsim_mem.py) alone never produces a verdict",
]

PLAN = [  # per shard index: (kind, cfg strategy keyword arguments)
    ("trace", dict(memtype="SDR")),
    ("trace", dict(memtype="DDR")),
    ("trace", dict(memtype="LPDDR", base="MT46H128M16", libgeom=True)),      # the library's 2 Ki column device
    ("trace", dict(memtype="DDR2")),
    ("trace", dict(memtype="DDR3")),
    ("trace", dict(memtype="DDR4")),
    ("trace", dict(memtype="SDR", ncols=2048)),
    ("trace", dict(memtype="DDR3", ncols=2048)),
    ("trace", dict(weg=0)),
    ("image", dict(memtype="SDR", init=True)),
    ("image", dict(memtype="DDR3", init=True)),
    ("image", dict(init=True)),
    ("core", dict(memtype="SDR")),
    ("core", dict(memtype="DDR3")),
    ("core", dict(memtype="DDR2")),
    ("core", dict()),
]


def shards(tier, seed):
    out = []
    for i, (kind, kw) in enumerate(PLAN):
        if tier == "quick":
            ncfg, ncases = (2, 40) if kind == "trace" else (3, 14) if kind == "image" else (2, 8)
        else:
            ncfg, ncases = (6, 400) if kind == "trace" else (8, 120) if kind == "image" else (4, 60)
        out.append(dict(idx=i, tier=tier, seed=seed * 1000 + i, kind=kind, cfgkw=kw, ncfg=ncfg, ncases=ncases))
    return out


# ---------------------------------------------------------------------------------------------------
def render(run, limit=60):
    """human-readable command list of a scheduled trace"""
    out = []
    for c in run.sched.cmds[:limit]:
        out.append("c%dp%d %s%s b%d a=0x%x" % (c["cyc"], c["ph"], "desel:" if c["cs"] else "", c["kind"], c["bank"], c["addr"]))
    return out


def sample_of(cfg, case, classes, run):
    return dict(cfg={k: cfg[k] for k in ("memtype", "base", "clk_freq", "databits", "nbanks", "nrows", "ncols", "weg", "verbosity")}, init=cfg.get("init"),
                kind=case.get("kind"), shape=case.get("shape"), timing=case.get("timing"), nops=len(case["ops"]), classes=sorted(classes), cycles=run.cycles,
                commands=render(run, 12))


def eval_trace(cfg, case, backend="fast"):
    run = cm.run_trace(cfg, case, backend=backend)
    fs, classes, nontrivial = cm.trace_findings(run)
    return run, fs, classes, nontrivial


def eval_core(cfg, stim, backend="fast"):
    run = cm.run_coremodel(cfg, stim, backend=backend)
    fs, classes, nontrivial, in_domain = cm.core_findings(run)
    return run, fs, classes, nontrivial


def diff_trace(cfg, case):
    ta, tb = [], []
    cm.run_trace(cfg, case, "fast", trace=ta)
    cm.run_trace(cfg, case, "migen", trace=tb)
    if ta != tb:
        n = min(len(ta), len(tb))
        bad = [c for c in range(n) if ta[c] != tb[c]]
        raise HarnessError("fastsim differs from migen.sim at cycle %s (lengths %d/%d) cfg=%s" % (bad[:1], len(ta), len(tb), cm.cfg_key(cfg)))
    return len(ta)


def diff_core(cfg, stim, ncycles=220):
    ta, tb = [], []
    cm.run_coremodel(cfg, stim, "fast", trace=ta, max_cycles=ncycles, tail=10**9)
    cm.run_coremodel(cfg, stim, "migen", trace=tb, max_cycles=ncycles, tail=10**9)
    if ta != tb:
        n = min(len(ta), len(tb))
        bad = [c for c in range(n) if ta[c] != tb[c]]
        raise HarnessError("fastsim differs from migen.sim at cycle %s (lengths %d/%d) cfg=%s" % (bad[:1], len(ta), len(tb), cm.cfg_key(cfg)))
    return len(ta)


def draw_cfgs(strategy, n, seed):
    """n distinct configurations; Hypothesis always starts with the minimal example (smallest of everything), which is dropped"""
    xs = draw_examples(strategy, n + 1, seed)
    return xs[1:] if len(xs) > n else xs


def remember(seen, fs, cfg, case):
    """A shard does not stop at its first finding: it keeps the first case of every distinct (clause, key) it meets, so that a
    frequent divergence (e.g. one that every read shows) cannot hide a rarer one behind it."""
    for f in fs:
        k = (f["clause"], f["key"])
        if k not in seen:
            seen[k] = (cfg, copy.deepcopy(case))


def choose(seen, idx):
    """the runner takes one violation per shard: shards pick different ones of what they saw (by shard index)"""
    keys = sorted(seen)
    k = keys[idx % len(keys)]
    return k, seen[k][0], seen[k][1]


def unknown_of(col, fs):
    return [f for f in fs if match_known(col.known, f) is None]


def minimise_trace(cfg, case, target, col, budget_s=40):
    """greedy removal of intents, then field simplification; `target` = (clause, key)"""
    t0 = time.time()

    def fails(c):
        try:
            _, fs, _, _ = eval_trace(cfg, c)
        except Exception:      # a candidate that cannot be evaluated is not a reduction
            return False
        return any((f["clause"], f["key"]) == target for f in fs)
    cur = copy.deepcopy(case)
    chunk = max(1, len(cur["ops"]) // 2)
    while chunk >= 1 and time.time() - t0 < budget_s:
        i = 0
        while i < len(cur["ops"]) and time.time() - t0 < budget_s:
            trial = copy.deepcopy(cur)
            del trial["ops"][i:i + chunk]
            if trial["ops"] and fails(trial):
                cur = trial
            else:
                i += chunk
        chunk //= 2
    for fld, val in (("shape", "ctrl"), ("idle_cs", 0), ("junk", 0)):
        if cur.get(fld) != val:
            trial = copy.deepcopy(cur)
            trial[fld] = val
            if fails(trial):
                cur = trial
    for k in range(len(cur["ops"])):
        for fld, val in (("gap", 0), ("ap", 0), ("mask", 0), ("data", 1), ("row", 0), ("bank", 0)):
            if time.time() - t0 > budget_s:
                break
            if cur["ops"][k].get(fld, val) != val:
                trial = copy.deepcopy(cur)
                trial["ops"][k][fld] = val
                if fails(trial):
                    cur = trial
    return cur


def run_trace_shard(sh, col):
    tier = sh["tier"]
    kind = sh["kind"]
    kw = dict(sh["cfgkw"])
    cfgs = draw_cfgs(cm.model_cfg(**kw), sh["ncfg"], sh["seed"])
    ndiff = 1 if tier == "quick" else 2
    seen = {}
    for ci, cfg in enumerate(cfgs):
        plans = []
        if kind == "image":
            plans.append((cm.image_case(cfg), max(4, sh["ncases"] // 3)))
        plans.append((cm.trace_case(cfg, max_ops=36 if tier == "quick" else 60), sh["ncases"]))
        # elaborate/compile outside Hypothesis: Migen walks the whole Python stack for every Signal it creates
        cm.get_sim(cfg)
        if ci == 0:
            for case in draw_examples(plans[0][0], ndiff + 1, sh["seed"] + 7)[-ndiff:]:
                col.diff_cycles += diff_trace(cfg, case)
        for pi, (strategy, n) in enumerate(plans):
            def test(case, cfg=cfg):
                run, fs, classes, nontrivial = eval_trace(cfg, case)
                col.case(dict(cfg=cfg, case=case), classes=sorted(classes) + [cfg["memtype"], "src_generator", "shape_" + case.get("shape", "ctrl"), "weg_%s" % cfg["weg"],
                                                                             "dq%d" % cfg["databits"], "verbosity%d" % cfg.get("verbosity", 0)],
                         nontrivial=nontrivial, sample=sample_of(cfg, case, classes, run))
                col.stats["simulated_cycles"] = col.stats.get("simulated_cycles", 0) + run.cycles
                col.stats["dfi_commands"] = col.stats.get("dfi_commands", 0) + len(run.sched.cmds)
                col.stat_max("max_cycles_per_case", run.cycles)
                remember(seen, col.filter(fs), cfg, case)
                return []
            hyp_search(test, strategy, sh["seed"] * 100 + ci * 10 + pi, n, shrink=False)
    if not seen:
        return None
    target, cfg, case = choose(seen, sh["idx"])
    case = minimise_trace(cfg, case, target, col, 40 if tier == "quick" else 120)
    run, f_m, _, _ = eval_trace(cfg, case, backend="migen")
    f_m = unknown_of(col, f_m)
    if not any((f["clause"], f["key"]) == target for f in f_m):
        raise HarnessError("finding %s from fastsim does not reproduce on migen.sim (cfg %s)" % (target, cm.cfg_key(cfg)))
    f_m = [f for f in f_m if (f["clause"], f["key"]) == target] + [f for f in f_m if (f["clause"], f["key"]) != target]
    return dict(case=dict(cfg=cfg, case=case, commands=render(run)), findings=f_m, confirmed_on="migen.sim", other_findings_in_shard=sorted("%s / %s" % k for k in seen if k != target))


def run_core_shard(sh, col):
    from lib import corecase as cc
    tier = sh["tier"]
    kw = dict(sh["cfgkw"])
    cfgs = draw_cfgs(cm.model_cfg(core=True, **kw), sh["ncfg"], sh["seed"])
    seen = {}
    for ci, cfg in enumerate(cfgs):
        ccfg = cm.core_cfg_of(cfg)
        stim_strategy = cc.core_stim(ccfg, max_ops=16 if tier == "quick" else 40)
        if not cfg["weg"]:
            # whole-word write enable: the model has no byte lanes by configuration, only full writes are inside the domain
            full = (1 << (ccfg["dfi_databits"] * ccfg["nphases"] // 8)) - 1

            def all_bytes(stim, full=full):
                for ops in stim["ports"]:
                    for op in ops:
                        if op["we"]:
                            op["be"] = full
                return stim
            stim_strategy = stim_strategy.map(all_bytes)
        cm.get_sim(cfg)
        if ci == 0:
            col.diff_cycles += diff_core(cfg, draw_examples(stim_strategy, 2, sh["seed"] + 7)[-1])

        def test(stim, cfg=cfg):
            run, fs, classes, nontrivial = eval_core(cfg, stim)
            col.case(dict(cfg=cfg, stim=stim), classes=sorted(classes) + [cfg["memtype"], "src_controller", "weg_%s" % cfg["weg"], "dq%d" % cfg["databits"]], nontrivial=nontrivial,
                     sample=dict(cfg={k: cfg[k] for k in ("memtype", "base", "clk_freq", "databits", "nbanks", "nrows", "ncols", "weg")}, init=cfg.get("init"), core=cfg["core"],
                                 classes=sorted(classes), cycles=run.cycles, dfi_commands=len(run.dram.cmds), ops_per_port=[len(o) for o in stim["ports"]]))
            col.stats["simulated_cycles"] = col.stats.get("simulated_cycles", 0) + run.cycles
            col.stats["dfi_commands"] = col.stats.get("dfi_commands", 0) + len(run.dram.cmds)
            if "controller_trace_illegal" in classes:
                col.stats["controller_traces_outside_domain"] = col.stats.get("controller_traces_outside_domain", 0) + 1
            remember(seen, col.filter(fs), cfg, stim)
            return []
        hyp_search(test, stim_strategy, sh["seed"] * 100 + ci, sh["ncases"], shrink=False)
    if not seen:
        return None
    target, cfg, stim = choose(seen, sh["idx"])

    def fails(s_):
        try:
            _, f2, _, _ = eval_core(cfg, s_)
        except Exception:      # a candidate that cannot be evaluated is not a reduction
            return False
        return any((f["clause"], f["key"]) == target for f in f2)
    stim = ddmin_stim(stim, fails, 40 if tier == "quick" else 120)
    _, f_m, _, _ = eval_core(cfg, stim, backend="migen")
    f_m = unknown_of(col, f_m)
    if not any((f["clause"], f["key"]) == target for f in f_m):
        raise HarnessError("finding %s from fastsim does not reproduce on migen.sim (cfg %s)" % (target, cm.cfg_key(cfg)))
    f_m = [f for f in f_m if (f["clause"], f["key"]) == target] + [f for f in f_m if (f["clause"], f["key"]) != target]
    return dict(case=dict(cfg=cfg, stim=stim), findings=f_m, confirmed_on="migen.sim", other_findings_in_shard=sorted("%s / %s" % k for k in seen if k != target))


def run_shard(sh):
    col = Collector(ID)
    if sh["kind"] == "core":
        v = run_core_shard(sh, col)
    else:
        v = run_trace_shard(sh, col)
    return col.result(v)


def replay(case):
    col = Collector(ID)
    if "stim" in case:
        _, fs, _, _ = eval_core(case["cfg"], case["stim"], backend="migen")
    else:
        _, fs, _, _ = eval_trace(case["cfg"], case["case"], backend="migen")
    return unknown_of(col, fs)
