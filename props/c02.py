"""C02 DRAM command stream obeys the bank state machine (whole core, state-legality monitor of the reference DRAM +
every RD/WR on DFI explained by the oldest outstanding request of its bank through the independent address map)."""
import lib.compat  # noqa
from hypothesis import strategies as st
from lib import corecase as cc
from lib.coreprop import core_shards, run_core_shard, replay_core

ID = "C02"
REQUIRED_CLASSES = ['prea_with_2_open', 'both_ranks', 'act_after_autoprecharge', 'refresh']      # classes that must occur in every run (else harness error: vacuous generator)
LEVEL = "exploration"
RULE = ("case = (controller configuration biased to 2 ranks / auto-precharge / refresh every 100-200 cycles / ZQCS, multi-port traffic on colliding "
        "locations); non-trivial = a precharge-all found >= 2 banks open, or an auto-precharged bank was re-activated, or both ranks carried traffic; "
        "distinct = distinct (configuration, stimulus) digests")
ASSUMPTIONS = ["JEDEC command truth table as transcribed in lib/refdram.py", "independent address map lib/addrmap.py written from the mapping's documentation",
               "violations are confirmed on stock migen.sim before being reported", "rowbits >= 11 and rowbits > colbits when colbits > 10 (address bus can carry A10 and the high column bits)"]


def oracle(run):
    fs, classes = cc.oracle_c02(run)
    # re-activation after auto-precharge
    ap_closed = set()
    for (t, kind, ranks, bank, addr) in run.dram.cmds:
        if kind in ("RD", "WR") and (addr >> 10) & 1:
            ap_closed.add((ranks, bank))
        elif kind == "ACT" and (ranks, bank) in ap_closed:
            classes.add("act_after_autoprecharge")
    nt = bool(classes & {"prea_with_2_open", "act_after_autoprecharge", "both_ranks"})
    return fs, classes, nt


@st.composite
def _cfg(draw):
    mode = draw(st.integers(0, 9))
    ranks = 2 if mode < 4 else None
    ap = True if 2 <= mode < 7 else None
    cfg = draw(cc.core_cfg(ranks=ranks, auto_precharge=ap, refresh=True if mode < 8 else None))
    if mode < 8:
        cfg["timing"]["tREFI"] = draw(st.integers(100, 200))
        if cfg["timing"]["tZQCS"] is None and draw(st.booleans()):
            cfg["timing"]["tZQCS"] = draw(st.integers(4, 12))
    return cfg


def cfg_strategy(tier):
    return _cfg()


def stim_strategy(cfg, tier):
    return cc.core_stim(cfg, max_ops=40 if tier == "quick" else 60)


def shards(tier, seed):
    return core_shards(ID, tier, seed, ncfg=(3 if tier == "quick" else 8), ncases=(20 if tier == "quick" else 30))


def run_shard(sh):
    return run_core_shard(sh, __import__(__name__, fromlist=["x"]))


def replay(case):
    return replay_core(case, __import__(__name__, fromlist=["x"]))
