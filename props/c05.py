"""C05 No deadlock, no starved port, no starved direction (whole core, bounded-response monitor with a configuration-only bound)."""
import math
import lib.compat  # noqa
from hypothesis import strategies as st
from lib import corecase as cc
from lib.coreprop import core_shards, run_core_shard, replay_core

ID = "C05"
REQUIRED_CLASSES = ['same_bank_contention', 'direction_wait']      # classes that must occur in every run (else harness error: vacuous generator)
LEVEL = "exploration"
RULE = ("case = (configuration with 2-8 ports) x (a victim port issuing a few commands + adversary ports generated from adversarial strategies: same bank continuous, same bank "
        "in bounded bursts with drain gaps, other banks continuous in one direction, all banks round-robin; adversary streams looped for > 2x the bound); non-trivial = a victim "
        "command and an adversary command address the same bank while both are pending, or reads are pending while writes stream (or vice versa) for >= the configured "
        "write_time/read_time; distinct = distinct (configuration, stimulus) digests")
ASSUMPTIONS = ["bound B(config) = 2 x [ nports (cmd_buffer_depth+3)(tRC+tRCD+tRP+tWTP+read_latency+8) + 4 (read_time+write_time+2 read_latency+tWTR+8) + refresh service ]: depends on the configuration only",
               "read_time = 0 / write_time = 0 (anti-starvation disabled by configuration) are outside the domain: unbounded direction wait is then configured behaviour",
               "liveness is decided in bounded form: a starvation shows up as a latency crossing B because adversary streams last > 2 B cycles",
               "violations are confirmed on stock migen.sim before being reported"]


def bound(cfg):
    t = cfg["timing"]
    n = cfg["nphases"]
    c = cfg["ctrl"]
    cwl = cfg.get("cwl") if cfg.get("cwl") is not None else cfg["cl"]
    twtp = math.ceil(cwl / n) + t["tWR"] + t["tCCD"]
    trc = t.get("tRC") or ((t.get("tRAS") or 0) + t["tRP"])
    per = trc + t["tRCD"] + t["tRP"] + twtp + cfg["read_latency"] + (t.get("tFAW") or 0) + 8
    ref = 0
    if c.get("with_refresh", True):
        ref = c.get("refresh_postponing", 1) * (t["tRP"] + t["tRFC"] + 4) + t["tRP"] + (t.get("tZQCS") or 0) + twtp + (t.get("tRAS") or 0) + 16
    B = len(cfg["ports"]) * (c.get("cmd_buffer_depth", 8) + 3) * per + 4 * (c.get("read_time", 32) + c.get("write_time", 16) + 2 * cfg["read_latency"] + t["tWTR"] + 8) + 2 * ref
    return 2 * B


def _crossbar_arbiters(dut):
    from migen.genlib.roundrobin import RoundRobin
    return [m for _, m in dut.crossbar._submodules if isinstance(m, RoundRobin)]


def classify_wait(cfg, stim, pi, k, bank_index, t0, t1, backend="fast"):
    """re-run with a probe on the victim's bank: was the bank held (valid | lock) by one other port throughout [t0, t1] ?"""
    rec = []

    def probe(dut, sim, t):
        if t0 + 2 + (t1 - t0) // 4 <= t <= t1:      # the bank may still be handed from one port to the holder early in the wait: the signature is about the last three quarters
            arb = _crossbar_arbiters(dut)[bank_index]
            bank = getattr(dut.interface, "bank%d" % bank_index)
            rec.append((sim.get(arb.grant), sim.get(bank.valid), sim.get(bank.lock)))
    cc.run_core(cfg, stim, backend=backend, max_cycles=t1 + 2, tail=10**9, probe=probe)
    if not rec:
        return "other"
    grants = set(g for g, v, l in rec)
    held = all(v or l for g, v, l in rec)
    if held and len(grants) == 1 and pi not in grants:
        return "bank_held_by_other_port"
    if held and grants == {pi}:
        return "own_queue_full"      # the port's own earlier commands to this bank have not completed: derivative of their data latency
    return "other"


def classify_data_wait(cfg, stim, bank_index, we, t0, t1, backend="fast"):
    """re-run with a probe on every bank machine's request and the multiplexer: is this the listed round-robin defect?
    Signature: while the victim bank machine presented its request of that direction WITHOUT INTERRUPTION (valid, right direction, not
    accepted), some other bank machine had a request of the same direction accepted TWICE.  A fair round-robin chooser cannot serve a
    bank a second time while another requester has been waiting since before its first service.  (Refresh sequences withdraw the
    victim's request and so simply restart the observation.)"""
    rec = []

    def probe(dut, sim, t):
        if t0 <= t <= t1:
            bm = dut.bank_machines[bank_index]
            others = []
            for i, b in enumerate(dut.bank_machines):
                if i != bank_index and sim.get(b.cmd.valid) and sim.get(b.cmd.ready) and sim.get(b.cmd.is_write if we else b.cmd.is_read):
                    others.append(i)
            rec.append((sim.get(bm.cmd.valid) and sim.get(bm.cmd.is_write if we else bm.cmd.is_read), sim.get(bm.cmd.ready), others))
    cc.run_core(cfg, stim, backend=backend, max_cycles=t1 + 2, tail=10**9, probe=probe)
    since = None          # index from which the victim's request has been continuously present and not accepted
    last = {}             # other bank -> index of its last accepted request of that direction
    twice = 0
    for j, (present, ready, others) in enumerate(rec):
        if present and not ready:
            if since is None:
                since = j
        else:
            since = None
        for x in others:
            if since is not None and x in last and last[x] >= since:
                twice += 1
            last[x] = j
    if twice >= 2:
        return "request_valid_never_chosen_while_direction_served_%s" % ("8+_times")
    return "data"


def oracle(run):
    cfg = run.cfg
    B = bound(cfg)
    fs = []
    classes = set()
    am = run.am
    lat = cc.latency_stats(run)
    worst_acc = worst_dat = 0
    end = run.cycles
    nb = 1 << cfg["bankbits"]
    for (pi, k, to, ta, td) in lat:
        if to is None:
            continue
        a_end = ta if ta is not None else end
        wa = a_end - to
        worst_acc = max(worst_acc, wa)
        if wa > B and not any(f["clause"] == "C05.accept_latency" for f in fs):
            op = run.masters[pi].ops[k]
            rk, bk, rw, col = am.decode(op["addr"])
            key = classify_wait(cfg, run.stim, pi, k, rk * nb + bk, to, min(a_end, to + B + 50), backend="fast")
            if key == "other":
                # the crossbar does not let a port request a second bank while commands it has in another bank's queue are still waiting for
                # their data phase (that is how data phases stay in command order): if earlier commands of this port were outstanding during
                # the whole wait, the wait is a consequence of THEIR data latency, which is judged on its own below
                w_end = min(a_end, to + B + 50)
                if any(p2 == pi and k2 < k and ta2 is not None and ta2 <= to + 2 and (td2 is None or td2 >= w_end) for (p2, k2, to2, ta2, td2) in lat):
                    key = "own_queue_full"
            fs.append(dict(clause="C05.accept_latency", key=key, t_decide=to + B + 60,
                           what="port %d op %d (%s rank %d bank %d) offered at cycle %d, %s after %d cycles > bound %d [%s]" % (
                               pi, k, "WR" if op["we"] else "RD", rk, bk, to, "accepted" if ta is not None else "still not accepted", wa, B, key)))
        if ta is not None:
            d_end = td if td is not None else end
            wd = d_end - ta
            worst_dat = max(worst_dat, wd)
            if wd > B and not any(f["clause"] == "C05.data_latency" for f in fs):
                op = run.masters[pi].ops[k]
                rk, bk, rw, col = am.decode(op["addr"])
                key = classify_data_wait(cfg, run.stim, rk * nb + bk, op["we"], ta, min(d_end, ta + B + 50), backend="fast")
                fs.append(dict(clause="C05.data_latency", key=key, t_decide=ta + B + 60, what="[" + key + "] " + "port %d op %d (%s addr 0x%x) accepted at cycle %d, data phase %s after %d cycles > bound %d" % (
                    pi, k, "WR" if op["we"] else "RD", op["addr"], ta, "done" if td is not None else "still missing", wd, B)))
    if any(f["clause"] == "C05.data_latency" for f in fs):
        fs = [f for f in fs if not (f["clause"] == "C05.accept_latency" and f["key"] == "own_queue_full")]
    if not run.completed and not fs:
        fs.append(dict(clause="C05.deadlock", key="cap", what="commands outstanding at the end of the run (%d cycles)" % run.cycles))
    run.c05 = (worst_acc, worst_dat, B)
    # classes
    pend = {}
    same_bank = False
    for (pi, k, to, ta, td) in lat:
        if to is None:
            continue
        op = run.masters[pi].ops[k]
        rk, bk, _, _ = am.decode(op["addr"])
        pend.setdefault((rk, bk), []).append((to, td if td is not None else end, pi))
    for key, lst in pend.items():
        lst.sort()
        for i in range(len(lst) - 1):
            a, b = lst[i], lst[i + 1]
            if a[2] != b[2] and b[0] <= a[1]:
                same_bank = True
                break
        if same_bank:
            break
    if same_bank:
        classes.add("same_bank_contention")
    # reads pending while writes stream (or vice versa)
    rt, wt = cfg["ctrl"].get("read_time", 32), cfg["ctrl"].get("write_time", 16)
    for (pi, k, to, ta, td) in lat:
        if ta is None:
            continue
        op = run.masters[pi].ops[k]
        wd = (td if td is not None else end) - ta
        if wd >= (wt if not op["we"] else rt) and wd > 0:
            classes.add("direction_wait")
            break
    return fs, classes, bool(classes & {"same_bank_contention", "direction_wait"})


@st.composite
def _cfg(draw, limit):
    cfg = draw(cc.core_cfg(nports=draw(st.sampled_from([2, 2, 3, 3, 4, 8]))))
    c = cfg["ctrl"]
    if c["read_time"] == 0:
        c["read_time"] = 32
    if c["write_time"] == 0:
        c["write_time"] = 16
    # keep the bound (hence the run length needed to cross it) within the tier's budget: shrink queue depth, then ports
    for d in (8, 4, 2):
        if bound(cfg) > limit and c["cmd_buffer_depth"] > d:
            c["cmd_buffer_depth"] = d
    while bound(cfg) > limit and len(cfg["ports"]) > 2:
        cfg["ports"].pop()
    if bound(cfg) > limit:
        c["refresh_postponing"] = 1
    return cfg


def cfg_strategy(tier):
    return _cfg(2600 if tier == "quick" else 12000)


@st.composite
def _stim(draw, cfg, tier):
    B = bound(cfg)
    span = min(int(1.6 * B) + 300, 5000 if tier == "quick" else 30000)
    am = cc.addrmap_of(cfg)
    align = am.align
    nb = 1 << cfg["bankbits"]
    nr = cfg.get("nranks", 1)
    W = cc.word_width(cfg)
    full = (1 << (W // 8)) - 1
    vb = (draw(st.integers(0, nr - 1)), draw(st.integers(0, nb - 1)))
    depth = cfg["ctrl"].get("cmd_buffer_depth", 8)

    # the small row / column indices used below are mapped onto rows and columns spread over the whole device (low, high, middle):
    # liveness must not depend on which address bits are set
    nrows, ncolw = 1 << cfg["rowbits"], 1 << (cfg["colbits"] - align)
    rowmap = draw(st.sampled_from([[0, 1, 2, 3], [nrows - 1, nrows >> 1, 0, (nrows >> 1) - 1], [nrows - 1, nrows - 2, nrows >> 1, 1],
                                   [5, nrows - 1, (nrows >> 1) + 1, nrows >> 2]]))
    colmap = draw(st.sampled_from([[0, 1, 2, 3], [ncolw - 1, ncolw >> 1, 0, 1], [ncolw - 1, ncolw - 2, (ncolw >> 1) + 1, ncolw >> 2]]))

    def mkop(we, rk, bk, row, cw, gap=0):
        op = dict(we=we, addr=am.encode(rk, bk, rowmap[row % 4], colmap[cw % 4] << align), gap=gap)
        if we:
            op.update(data=draw(st.integers(0, (1 << W) - 1)), be=full, lead=0)
        return op
    ports = []
    loops = []
    # victim
    nv = draw(st.integers(1, 4))
    vops = [mkop(draw(st.integers(0, 1)), vb[0], vb[1], draw(st.integers(0, 3)), draw(st.integers(0, 3)), gap=draw(st.sampled_from([40, 60, 90, 150, 5]))) for _ in range(nv)]
    ports.append(vops)
    loops.append(0)
    kinds = []
    for _ in cfg["ports"][1:]:
        kind = draw(st.sampled_from(["same_bank_cont", "same_bank_bursts", "same_bank_bursts", "other_banks_dir", "other_banks_dir", "round_robin", "alt_rows_burst", "idle"]))
        kinds.append(kind)
        ops = []
        if kind == "same_bank_cont":
            rows = draw(st.sampled_from([[0], [0, 1]]))
            we = draw(st.integers(0, 2))
            for i in range(draw(st.integers(2, 6))):
                ops.append(mkop(we if we < 2 else i & 1, vb[0], vb[1], rows[i % len(rows)], i % 4))
            loops.append(span)
        elif kind in ("same_bank_bursts", "alt_rows_burst"):
            bl = draw(st.integers(1, min(depth + 2, 8)))
            we = draw(st.integers(0, 1))
            for i in range(bl):
                ops.append(mkop(we, vb[0], vb[1], (i & 1) if kind == "alt_rows_burst" else 0, i % 4))
            # drain gap: long enough for the bank queue to empty completely
            ops[0]["gap"] = bl * 12 + cfg["read_latency"] * 2 + 4 * (cfg["timing"]["tRP"] + cfg["timing"]["tRCD"] + cfg["timing"]["tWR"] + (cfg["timing"].get("tRAS") or 0)) + 40
            loops.append(span)
        elif kind == "other_banks_dir":
            we = draw(st.integers(0, 1))
            others = [(r, b) for r in range(nr) for b in range(nb) if (r, b) != vb] or [vb]
            ob = others[draw(st.integers(0, len(others) - 1))]
            if ob == vb:
                ops.append(mkop(we, ob[0], ob[1], 0, 0, gap=200))
            else:
                for i in range(draw(st.integers(2, 6))):
                    ops.append(mkop(we, ob[0], ob[1], 0, i % 4))
            loops.append(span)
        elif kind == "round_robin":
            we = draw(st.integers(0, 2))
            others = [(r, b) for r in range(nr) for b in range(nb) if (r, b) != vb]
            if not others:
                ops.append(mkop(1, vb[0], vb[1], 0, 0, gap=300))
            for i, (r, b) in enumerate(others):
                ops.append(mkop(we if we < 2 else i & 1, r, b, draw(st.integers(0, 1)), i % 4))
            loops.append(span)
        else:
            loops.append(0)
        ports.append(ops)
    return dict(pool=[], ports=ports, loop_until=loops, span=span, kinds=kinds)


def stim_strategy(cfg, tier):
    return _stim(cfg, tier)


def run_kwargs(cfg, stim):
    return dict(max_cycles=stim["span"] + 2 * bound(cfg) + 1500)


def confirm_kwargs(cfg, stim, fs):
    """the stock simulator only has to run until the reported latency has crossed the bound (it is 50-100 x slower than the compiled one);
    the signature labels of the listed findings are always computed on the compiled simulator (differentially self-tested)"""
    td = [f["t_decide"] for f in fs if f.get("t_decide")]
    if td and all(f.get("t_decide") for f in fs):
        return dict(max_cycles=max(td) + 20, tail=10**9)
    return {}


def stats(run, col):
    wa, wd, B = run.c05
    col.stat_max("max_accept_latency_over_bound", round(wa / B, 4))
    col.stat_max("max_data_latency_over_bound", round(wd / B, 4))
    col.stat_max("max_bound_cycles", B)


def shards(tier, seed):
    return core_shards(ID, tier, seed, ncfg=(2 if tier == "quick" else 5), ncases=(8 if tier == "quick" else 12))


def run_shard(sh):
    return run_core_shard(sh, __import__(__name__, fromlist=["x"]))


def replay(case):
    return replay_core(case, __import__(__name__, fromlist=["x"]))
