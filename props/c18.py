"""C18 DFI plumbing is transparent: injector mux and rate converter.

Devices: litedram.dfii.DFIInjector (phases 1-8 x ranks 1-2 x clam-shell on/off = 32 configurations, widths drawn) and
litedram.phy.dfi.DFIRateConverter (ratio 2/4 x PHY phases 1-4 x write_delay x read_delay = 80 configurations, widths
drawn), every configuration in both tiers, spread over 16 shards.

Injector oracle (every cycle, every phase, every field): hardware control (control register bit 0 = 1) with the
controller selected: PHY side == controller side in the same cycle (cs_n replicated for clam shell), rddata/rddata_valid
back unchanged; with the external DFI selected the same for the external interface; software control: the PHY side is
identical in two runs that share CSR traffic, PHY inputs and the sel schedule and differ in every controller-side and
external value (nothing from the controller reaches the PHY).
Converter oracle (every fast cycle, every phase, every field): lib.dfiplumb.RefConverter, a model written from the
class docstrings (phases first then clock cycles, Serializer latency 1 clkdiv cycle, data burst in the clk cycle
selected by write_delay, read burst of the clk cycle selected by read_delay back after Deserializer latency 2, valid
replicated, zeros/idle everywhere else).  Equality on every slot is "exactly once, in order, nothing else".
"""
import os
import lib.compat  # noqa
from hypothesis import strategies as st
from lib.runner import Collector, hyp_search, digest, match_known
from lib.fastsim import HarnessError
from lib import dfiplumb as dp

ID = "C18"
LEVEL = "exploration"
RULE = ("case = (device configuration, stimulus descriptor); stimulus descriptor = Hypothesis-drawn length, value seed, idle/command "
        "density, raw-bits switch, CSR write density, cycles at which sel / ext_dfi_sel toggle (injector) or forced command slots, "
        "read-valid density (converter); values on every field of every phase change every cycle (SHAKE-128 of the descriptor). "
        "non-trivial: injector = a mode switch (hardware/external/software) in a cycle adjacent to one with a controller command; "
        "converter = a slow cycle with commands on >= 2 phases; distinct = distinct (configuration, descriptor) digests")
ASSUMPTIONS = ["the injector's CSRs are finalised and attached the way litex CSRBank does it and written through their bus-side strobes; "
               "LiteX's CSRStorage (register, field extraction) is trusted",
               "mode of a cycle = bit 0 of the control register (documented field order sel, cke, odt, reset_n) and ext_dfi_sel",
               "clam shell: the PHY-side cke/odt are twice as wide as the controller's; only the low half is compared, cs_n must be replicated",
               "converter clocks as in test/test_dfi.py: phase aligned, both rising at the first edge; Serializer latency 1 and "
               "Deserializer latency 2 clkdiv cycles are taken from the class documentation",
               "fast DFI databits = ratio x 8k so that every slow phase has whole mask bits",
               "violations are confirmed on stock migen.sim before being reported; fastsim alone never produces a verdict"]

NSHARDS = 16


def all_configs():
    out = []
    for nph in range(1, 9):
        for ranks in (1, 2):
            for clam in (0, 1):
                out.append(dict(kind="inj", nphases=nph, nranks=ranks, clam=clam))
    for r in (2, 4):
        for nph in range(1, 5):
            for wd in range(r):
                for rd in range(r):
                    out.append(dict(kind="conv", ratio=r, nph=nph, wd=wd, rd=rd))
    return out


def shards(tier, seed):
    cfgs = all_configs()
    # interleave so that every shard gets injector and converter devices of different sizes; the seed rotates the assignment
    out = []
    for i in range(NSHARDS):
        mine = [c for k, c in enumerate(cfgs) if (k + seed) % NSHARDS == i]
        out.append(dict(tier=tier, seed=seed * 1000 + i, idx=i, cfgs=mine))
    return out


def width_strategy():
    return st.fixed_dictionaries(dict(addressbits=st.integers(12, 17), bankbits=st.integers(2, 4), ranks=st.integers(1, 2),
                                      dw=st.sampled_from([8, 16, 32]), idw=st.sampled_from([8, 16, 32, 64, 128])))


def draw_examples(strategy, n, seed):
    out = []

    def t(c):
        if len(out) < n:
            out.append(c)
        return []
    hyp_search(t, strategy, seed, n, shrink=False)
    while len(out) < n:
        out.append(out[len(out) % max(1, len(out))])
    return out[:n]


def full_cfg(c, w):
    c = dict(c)
    c["addressbits"] = w["addressbits"]
    c["bankbits"] = w["bankbits"]
    if c["kind"] == "inj":
        c["databits"] = w["idw"]
    else:
        c["nranks"] = w["ranks"]
        c["databits"] = w["dw"] * c["ratio"]
    return c


def case_strategy(cfg, tier):
    big = tier == "thorough"
    if cfg["kind"] == "inj":
        nmax = 300 if big else 100
        tog = st.lists(st.integers(1, nmax - 1), max_size=16, unique=True).map(sorted)
        return st.fixed_dictionaries(dict(
            n=st.integers(6, nmax), vseed=st.integers(0, 2**32 - 1), idle=st.sampled_from([0, 30, 60, 90, 100]), raw=st.booleans(),
            csr_wr=st.sampled_from([5, 50, 100]), sel=tog, ext=tog))
    nmax = 75 if big else 30
    nsp = cfg["ratio"] * cfg["nph"]
    return st.fixed_dictionaries(dict(
        n=st.integers(4, nmax), vseed=st.integers(0, 2**32 - 1), dens=st.sampled_from([0, 10, 40, 80, 100]), raw=st.booleans(),
        data=st.integers(0, 1), rdv=st.sampled_from([0, 30, 70, 100]),
        ev=st.lists(st.tuples(st.integers(0, nmax - 1), st.integers(0, nsp - 1)), max_size=8).map(lambda l: [list(x) for x in l])))


def dense_case(cfg, seed):
    if cfg["kind"] == "inj":
        return dict(n=40, vseed=seed, idle=30, raw=False, csr_wr=50, sel=[3, 4, 9, 15, 22, 30], ext=[6, 12, 13, 25])
    nsp = cfg["ratio"] * cfg["nph"]
    return dict(n=12, vseed=seed, dens=40, raw=False, data=1, rdv=70, ev=[[2, 0], [2, nsp - 1], [5, nsp // 2]])


def classes_of(cfg, info):
    cl = []
    if cfg["kind"] == "inj":
        cl.append("injector nphases=%d" % cfg["nphases"])
        cl.append("injector ranks=%d clam=%d" % (cfg["nranks"], cfg["clam"]))
        for m in ("hw", "sw", "ext"):
            if info[m]:
                cl.append("injector run with %s cycles" % {"hw": "hardware-mode", "sw": "software-mode", "ext": "external-DFI"}[m])
        if info["switch_adjacent_cmd"]:
            cl.append("injector mode switch adjacent to a command")
        if info["multi_cmd_cycles"]:
            cl.append("injector >=2 phases carry commands in one hardware-mode cycle")
        return cl, info["switch_adjacent_cmd"] > 0
    cl.append("converter ratio=%d nph=%d" % (cfg["ratio"], cfg["nph"]))
    cl.append("converter ratio=%d write_delay=%d" % (cfg["ratio"], cfg["wd"]))
    cl.append("converter ratio=%d read_delay=%d" % (cfg["ratio"], cfg["rd"]))
    if info["multi_phase_cycles"]:
        cl.append("converter >=2 phases carry commands in one slow cycle")
    if info["multi_fastcycle_cycles"]:
        cl.append("converter commands of one slow cycle land in >=2 fast cycles")
    if info["rd_valid_bursts"]:
        cl.append("converter read burst with rddata_valid")
    return cl, info["multi_phase_cycles"] > 0


def unknown(col, fs):
    return [f for f in fs if match_known(col.known, f) is None]


def run_shard(sh):
    col = Collector(ID)
    tier = sh["tier"]
    backend = "migen" if os.environ.get("VERIF_SIM") == "migen" else "fast"
    ncases = (40 if tier == "quick" else 500)
    widths = draw_examples(width_strategy(), len(sh["cfgs"]), sh["seed"])
    diffed = set()
    violation = None
    for ci, (c0, w) in enumerate(zip(sh["cfgs"], widths)):
        cfg = full_cfg(c0, w)
        state = dict(first=True)

        def test(case, cfg=cfg, state=state):
            if state["first"]:
                state["first"] = False
                if tier == "thorough" or cfg["kind"] not in diffed:
                    # differential self-test: the first generated case and one dense case on both simulators
                    diffed.add(cfg["kind"])
                    lim = 40 if cfg["kind"] == "inj" else 12
                    col.diff_cycles += dp.diff_selftest(cfg, case, lim)
                    col.diff_cycles += dp.diff_selftest(cfg, dense_case(cfg, sh["seed"]), lim)
            fs, info, _ = dp.evaluate(cfg, case, backend)
            cl, nontrivial = classes_of(cfg, info)
            col.case(dict(cfg=cfg, stim=case), classes=cl, nontrivial=nontrivial,
                     sample=dict(cfg=cfg, stim=case, seen={k: v for k, v in info.items() if v}))
            if cfg["kind"] == "inj":
                col.stats["injector_cycles"] = col.stats.get("injector_cycles", 0) + case["n"]
                for m in ("hw", "sw", "ext"):
                    col.stats["injector_%s_cycles" % m] = col.stats.get("injector_%s_cycles" % m, 0) + info[m]
                col.stats["injector_mode_switches_adjacent_to_command"] = col.stats.get("injector_mode_switches_adjacent_to_command", 0) + info["switch_adjacent_cmd"]
            else:
                col.stats["converter_fast_cycles"] = col.stats.get("converter_fast_cycles", 0) + info["fast_cycles"]
                col.stats["converter_commands"] = col.stats.get("converter_commands", 0) + info["cmds"]
                col.stats["converter_multi_phase_slow_cycles"] = col.stats.get("converter_multi_phase_slow_cycles", 0) + info["multi_phase_cycles"]
                col.stats["converter_write_bursts"] = col.stats.get("converter_write_bursts", 0) + info["wr_bursts"]
                col.stats["converter_valid_read_bursts"] = col.stats.get("converter_valid_read_bursts", 0) + info["rd_valid_bursts"]
            return col.filter(fs)

        found = hyp_search(test, case_strategy(cfg, tier), sh["seed"] * 100 + ci, ncases, shrink=True)
        if found:
            case, fs = found
            clause = fs[0]["clause"]
            f_m, _, _ = dp.evaluate(cfg, case, "migen")
            f_m = unknown(col, f_m)
            if not any(f["clause"] == clause for f in f_m):
                raise HarnessError("finding %s from fastsim does not reproduce on migen.sim (%s)" % (clause, dp.cfg_id(cfg)))
            violation = dict(case=dict(cfg=cfg, stim=case), findings=[f for f in f_m if f["clause"] == clause][:5] + [f for f in f_m if f["clause"] != clause][:5],
                             confirmed_on="migen.sim")
            break
    return col.result(violation)


def replay(case):
    col = Collector(ID)
    fs, _, _ = dp.evaluate(case["cfg"], case["stim"], "migen")
    return unknown(col, fs)
