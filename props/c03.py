"""C03 Datasheet timing minimums are respected on the DRAM bus (whole core; timing monitor of the reference DRAM in DRAM clocks,
requirements computed from the module class's (ck, ns) entries with exact rational arithmetic)."""
import lib.compat  # noqa
from hypothesis import strategies as st
from lib import corecase as cc
from lib import modcfg
from lib.coreprop import core_shards, run_core_shard, replay_core

ID = "C03"
REQUIRED_CLASSES = ['close:tRAS/PREA', 'close:tRP/REF', 'close:tWR', 'close:tRCD', 'close:tRC', 'close:tWTR']      # classes that must occur in every run (else harness error: vacuous generator)
LEVEL = "exploration"
RULE = ("case = (library or generated module class, speedgrade, rate, controller clock, PHY settings, controller settings incl. refresh every 100-300 cycles in half the "
        "configurations; multi-port traffic biased to bank conflicts and direction changes); non-trivial = pairs within 2x their minimum were seen for >= 4 different "
        "rules, one of them tRAS before a precharge-all, write recovery before precharge, or tRP before refresh; distinct = distinct (configuration, stimulus) digests")
ASSUMPTIONS = ["(ck, ns) entries of the module class are the datasheet; requirement in DRAM clocks = max(ck, ns/tck), exact rationals, 1e-6 ns tolerance",
               "DRAM time = controller cycle * nphases + phase; write burst: WL = 0 (SDR), 1 (DDR/LPDDR), CWL otherwise; burst = BL/2 clocks (BL for SDR)",
               "tRTP is not part of the property and is not checked; an auto-precharge is taken to start no earlier than the command, after write recovery and not before tRAS",
               "RPC and LPDDR4 modules are excluded from the dynamic campaign (their DFI command set differs); they are covered by C16",
               "violations are confirmed on stock migen.sim before being reported"]


def req(cfg):
    return modcfg.requirements(cfg)


def oracle(run):
    fs = cc.oracle_c03(run)
    # legality problems would make the timing bookkeeping meaningless: surface them as harness-visible findings too
    classes = set("close:" + c for c in run.dram.close)
    nt = len(run.dram.close) >= 4 and bool(run.dram.close & {"tRAS/PREA", "tWR", "tWR/PREA", "tRP/REF"})
    return fs, classes, nt


def cfg_strategy(tier):
    return modcfg.module_cfg()


def stim_strategy(cfg, tier):
    return cc.core_stim(cfg, max_ops=40 if tier == "quick" else 60)


def shards(tier, seed):
    return core_shards(ID, tier, seed, ncfg=(3 if tier == "quick" else 12), ncases=(20 if tier == "quick" else 30))


def stats(run, col):
    for k, v in run.dram.slack.items():
        col.stat_min("min_slack_" + k, float(v))


def run_shard(sh):
    return run_core_shard(sh, __import__(__name__, fromlist=["x"]))


def replay(case):
    return replay_core(case, __import__(__name__, fromlist=["x"]))
