"""C01 Every read returns the last bytes written to that address (whole core).
Core campaign: generated configurations x generated multi-port traffic; oracle = byte reference memory updated in
command-acceptance order + final DRAM contents; see DESIGN.md section 3."""
import lib.compat  # noqa
from hypothesis import strategies as st
from lib.runner import Collector, hyp_search, digest
from lib import corecase as cc
from lib.coreprop import core_shards, run_core_shard, replay_core

ID = "C01"
REQUIRED_CLASSES = ['raw', 'raw_cross_port', 'raw_partial_be']      # classes that must occur in every run (else harness error: vacuous generator)
LEVEL = "exploration"
RULE = ("case = (controller configuration, per-port op lists with gaps/data lead) on controller+crossbar+reference DRAM; "
        "non-trivial = contains a read of an address written earlier (read-after-write), classes recorded: by another port, "
        "after a partial byte-enable write, across a refresh; distinct = distinct (configuration, stimulus) digests")
ASSUMPTIONS = ["reference DRAM (lib/refdram.py) models the DFI boundary as PhySettings defines it (wrdata write_latency cycles after the command, rddata read_latency after)",
               "conforming master of lib/native.py is the master model of the property statement",
               "violations are confirmed on stock migen.sim before being reported; fastsim alone never produces a verdict",
               "rowbits >= 11 (A10 exists on the address bus, as in every real device)"]


def oracle(run):
    fs, classes = cc.oracle_c01(run)
    return fs, classes, ("raw" in classes)


def cfg_strategy(tier):
    return cc.core_cfg()


def stim_strategy(cfg, tier):
    return cc.core_stim(cfg, max_ops=40 if tier == "quick" else 60)


def shards(tier, seed):
    return core_shards(ID, tier, seed, ncfg=(3 if tier == "quick" else 8), ncases=(20 if tier == "quick" else 30))


def run_shard(sh):
    return run_core_shard(sh, __import__(__name__, fromlist=["x"]))


def replay(case):
    return replay_core(case, __import__(__name__, fromlist=["x"]))
