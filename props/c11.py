"""C11 Avalon-MM port: bursts and single accesses keep memory semantics."""
import lib.compat  # noqa
from hypothesis import strategies as st
import copy
from lib.runner import Collector, hyp_search, match_known
from lib import avalon as av
from lib.fastsim import HarnessError

ID = "C11"
LEVEL = "exploration"
RULE = ("case = (LiteDRAMAvalonMM2Native with avalon:port width 1/8..4 incl. the native up/down converters the bridge inserts, base address, max_burst_length 2-64, "
        "burst_increment 1 or 2) x (legal Avalon-MM master: single and burst reads/writes, burstcount 1..max_burst_length, any byte enables, `write` low for 0-24 cycles "
        "between beats of a write burst, every beat held unchanged under waitrequest, next command presented 0-12 cycles after the previous one was accepted with or "
        "without waiting for outstanding read data, address/burstcount on later write beats held / burstcount 0 / unrelated) x (native-side realistic slave: stall "
        "schedule, strobe latencies, outstanding limit); non-trivial = a write burst with an idle gap, or a burst longer than the FIFO depth, or a native-side stall "
        "(cmd.valid & ~cmd.ready) while the bridge is in a burst state; distinct = distinct (device, stimulus) digests")
ASSUMPTIONS = [
    "Avalon-MM master rules taken from the Avalon Interface Specifications: all master outputs are held while read/write is asserted and waitrequest is high; address and "
    "burstcount are presented (and held under waitrequest) on the FIRST beat of a burst and are don't-care on later write beats (the master drives the same values, or "
    "burstcount 0 as LiteX's own AvalonMMInterface.bus_write does, or unrelated values); writedata and byteenable are per beat; `write` low between beats only delays the "
    "burst; a write burst is not interleaved with other commands; a read is complete for the master once accepted and the next command may be presented while read data "
    "is outstanding (pipelined reads, throttled by waitrequest)",
    "addresses are Avalon word addresses >= base_address/word_bytes (as test_avalon.py uses them); beat k of a burst addresses word address + k*burst_increment; "
    "bytes are laid out little-endian across native words (the layout of the native port converters with reverse=False)",
    "burstcount <= max_burst_length except in the cases classed burst_longer_than_fifo (burstcount <= 255 fits the 8-bit bus field; the bridge throttles these with "
    "waitrequest when its FIFOs are full)",
    "the realistic slave (lib/native.py) only shows behaviour the real crossbar can show: one-cycle wdata.ready / rdata.valid strobes regardless of valid/ready, >= 3 / 5 "
    "cycles after acceptance, acceptance order",
    "a run with work outstanding in which nothing happens on either interface (no beat accepted, no readdatavalid, no native command or data strobe, no master gap "
    "counting down) for 250 + 4x(largest generated latency + stall + queue limit) cycles, or that exceeds 3x the sum of all generated gaps, stalls and latencies, is a hang",
    "bridge-internal state (FSM state, FIFO levels) is read only to NAME the cause of a failure the black-box oracle has already established",
    "violations are confirmed on stock migen.sim before being reported"]

PAIRS = [(32, 32), (8, 8), (64, 64), (64, 32), (32, 16), (32, 8), (128, 32), (16, 32), (32, 64), (8, 32), (32, 128), (32, 256), (8, 64)]
MAXB = [2, 4, 5, 8, 16, 33, 64]
BASES = [0, 0x10000000, 0x1000]


def devices():
    out = []
    for i, (a, p) in enumerate(PAIRS):
        for j, mb in enumerate(MAXB):
            out.append(dict(avl_dw=a, port_dw=p, port_aw=(30, 12, 24, 9, 16)[(i + 3 * j) % 5], base=BASES[(i + j) % 3], max_burst=mb, inc=2 if (i + 2 * j) % 7 == 0 else 1))
    return out


def tag(cfg):
    return "avl%d:port%d maxburst%d base0x%x%s" % (cfg["avl_dw"], cfg["port_dw"], cfg["max_burst"], cfg["base"], " inc%d" % cfg["inc"] if cfg["inc"] != 1 else "")


@st.composite
def stims(draw, cfg, max_ops):
    over = cfg["max_burst"] <= 16 and draw(st.integers(0, 3)) == 0
    align = cfg["port_dw"] > cfg["avl_dw"] and draw(st.booleans())
    sl = draw(av.slave_sched())
    if cfg["avl_dw"] != cfg["port_dw"]:
        # stream-style native ports only where the repository composes the bridge with one: equal widths on the user side of a converter / CDC
        # port (gen.py); the bridge's own converters always face a "sys" crossbar-style port (DESIGN 8.2)
        for k in ("style", "wdepth", "rdepth", "wready"):
            sl.pop(k, None)
    return dict(ops=draw(av.avalon_ops(cfg, max_ops, over_max=over, align=align)), slave=sl, idle_clear=draw(st.booleans()), aligned=align)


def diagnose(run, fs):
    """Name the cause when its signature is present (a cause finding replaces the symptoms it explains)."""
    if not fs:
        return fs
    cfg, m = run.cfg, run.master
    sym = "; ".join(sorted(set(f["clause"].split(".")[1] for f in fs)))
    first = fs[0]["what"]
    if run.early_exit:
        t, i, k = run.early_exit[0]
        op = m.ops[i]
        return [dict(clause="C11.write_burst_abandoned", key="left_BURST_WRITE_while_write_low_with_beats_outstanding",
                     what="write burst (op %d, %d beats to word 0x%x, `write` low for %d cycles before beat %d): the bridge went back to START at cycle %d after %d of %d beats because its "
                          "FIFOs had drained while `write` was low; the remaining beats are taken as new accesses at whatever address/burstcount the master shows. Symptoms: %s. First: %s" % (
                              i, len(op["data"]), op["addr"], op["gaps"][k], k, t, k, len(op["data"]), sym, first))]
    up = cfg["port_dw"] // cfg["avl_dw"] if cfg["port_dw"] > cfg["avl_dw"] else 1
    fin = run.final
    if up > 1 and fin["state"] == "BURST_WRITE" and fin["wdata_fifo"] == 0 and (fin["cmd_fifo"] > 0 or m.in_write_burst() is None):
        return [dict(clause="C11.upconv_write_burst_stuck", key="wdata_fifo_empty_cmd_fifo_%s_in_BURST_WRITE" % ("nonempty" if fin["cmd_fifo"] else "empty"),
                     what="avalon %d -> port %d: the bridge stays in BURST_WRITE for ever with wdata_fifo.level = 0 and cmd_fifo.level = %d and no beat left that the master could still give "
                          "(the up-converter took the write data ahead of its command; commands are only issued while wdata_fifo.level > 0 and the state is only left on wdata_fifo.level == 1). "
                          "Symptoms: %s. First: %s" % (cfg["avl_dw"], cfg["port_dw"], fin["cmd_fifo"], sym, first))]
    if up > 1 and fin["state"] == "BURST_READ" and fin["conv"] == "FILL" and len(m.r_log) < m.r_expected:
        return [dict(clause="C11.upconv_read_burst_tail", key="converter_waits_in_FILL_no_cmd_last",
                     what="avalon %d -> port %d: a read burst that ends inside a wide native word never gets its last beats (%d of %d returned): the bridge issues burst commands without cmd.last/"
                          "flush, the up-converter waits in FILL for a further command. Symptoms: %s. First: %s" % (cfg["avl_dw"], cfg["port_dw"], len(m.r_log), m.r_expected, sym, first))]
    return fs


def evaluate(cfg, stim, backend="fast", trace=None):
    run = av.run_bridge(cfg, stim, backend, trace=trace)
    fs = diagnose(run, av.oracle(run, "C11"))
    classes = av.classify(cfg, stim, run)
    return run, fs, classes


NONTRIVIAL = ("write_burst_with_idle_gap", "burst_longer_than_fifo", "native_stall_inside_burst")


def shards(tier, seed):
    devs = devices()
    ns = 16
    out = []
    for i in range(ns):
        mine = devs[i::ns]
        k = (seed + i) % len(mine)
        mine = mine[k:] + mine[:k]
        if tier == "quick":
            mine = mine[:4]
        out.append(dict(tier=tier, seed=seed * 1000 + i, idx=i, devs=mine, ncases=(250 if tier == "quick" else 2500)))
    return out


def diff_selftest(cfg, stim, col):
    ta, tb = [], []
    ra, _, _ = evaluate(cfg, stim, "fast", trace=ta)
    rb, _, _ = evaluate(cfg, stim, "migen", trace=tb)
    if ta != tb:
        bad = [i for i in range(min(len(ta), len(tb))) if ta[i] != tb[i]]
        raise HarnessError("fastsim differs from migen.sim on %s at cycle %s (lengths %d/%d)" % (cfg, bad[0] if bad else "end", len(ta), len(tb)))
    col.diff_cycles += len(ta)


def run_shard(sh):
    col = Collector(ID)
    violations = []
    seen = set()            # clauses already established in this shard: the search goes on for OTHER clauses on the remaining devices
    nself = 2 if sh["tier"] == "quick" else 6
    for di, cfg in enumerate(sh["devs"]):
        state = dict(n=0)

        def t(stim, cfg=cfg, state=state, di=di):
            if di == 0 and state["n"] < nself:
                diff_selftest(cfg, stim, col)
            state["n"] += 1
            run, fs, classes = evaluate(cfg, stim)
            nt = [c for c in classes if c in NONTRIVIAL]
            col.case(dict(cfg=cfg, stim=stim), classes=sorted(classes) + [tag(cfg)], nontrivial=bool(nt),
                     sample=dict(device=tag(cfg), classes=sorted(classes), cycles=run.cycles, slave=stim["slave"],
                                 ops=[{k: ([hex(x) for x in v[:4]] if k == "data" else hex(v) if k == "addr" else v) for k, v in op.items()} for op in stim["ops"][:4]]))
            col.stats["simulated_cycles"] = col.stats.get("simulated_cycles", 0) + run.cycles
            col.stats["beats_held_under_waitrequest"] = col.stats.get("beats_held_under_waitrequest", 0) + run.master.held_cycles
            col.stat_max("max_cycles_per_case", run.cycles)
            return [f for f in col.filter(fs) if f["clause"] not in seen]
        found = hyp_search(t, stims(cfg, 6 if sh["tier"] == "quick" else 10), sh["seed"] * 100 + di, sh["ncases"], shrink=False)
        if found:
            stim, fs = found
            clause = fs[0]["clause"]
            stim = minimise(cfg, stim, clause, col.known)
            _, fm, _ = evaluate(cfg, stim, backend="migen")
            fm = [f for f in col.filter(fm) if f["clause"] == clause]
            if not fm:
                raise HarnessError("C11 finding %s does not reproduce on migen.sim" % clause)
            violations.append(dict(case=dict(cfg=cfg, stim=stim), findings=fm, confirmed_on="migen.sim"))
            seen.add(clause)
    # one violation per shard can be returned; shards rotate through what they found so that every distinct clause is reported by some shard
    return col.result(violations[sh["idx"] % len(violations)] if violations else None)


def _simpler(cfg, stim):
    """candidate simplifications of a stimulus, most drastic first (all stay inside the legal domain)"""
    ops = stim["ops"]
    off = av.word_offset(cfg)
    full = (1 << (cfg["avl_dw"] // 8)) - 1
    ratio = max(1, cfg["port_dw"] // cfg["avl_dw"])
    for i in range(len(ops) - 1, -1, -1):
        if len(ops) > 1:
            c = copy.deepcopy(stim)
            del c["ops"][i]
            yield c
    for key, val in (("ready", None), ("wlat", [3]), ("rlat", [5]), ("qmax", 8)):
        if stim["slave"].get(key) != val:
            c = copy.deepcopy(stim)
            c["slave"][key] = val
            yield c
    if stim.get("idle_clear"):
        c = copy.deepcopy(stim)
        c["idle_clear"] = False
        yield c
    for i, op in enumerate(ops):
        def variant(**kw):
            c = copy.deepcopy(stim)
            c["ops"][i].update(kw)
            return c
        if op["kind"] == "w":
            n = len(op["data"])
            for m in sorted(set([1, 2, n // 2, n - 1])):
                if 1 <= m < n:
                    yield variant(data=op["data"][:m], be=op["be"][:m], gaps=op["gaps"][:m])
                    if m >= 2:          # drop beats from the front of the tail instead (keeps the last gaps)
                        yield variant(data=op["data"][:1] + op["data"][n - m + 1:], be=op["be"][:1] + op["be"][n - m + 1:], gaps=[0] + op["gaps"][n - m + 1:])
            for k in range(1, n):
                g = op["gaps"][k]
                for ng in sorted(set([0, g // 2, g - 1])):
                    if 0 <= ng < g:
                        yield variant(gaps=op["gaps"][:k] + [ng] + op["gaps"][k + 1:])
            if op.get("later") != "hold":
                yield variant(later="hold")
            if any(b != full for b in op["be"]):
                yield variant(be=[full] * n)
            simple = [(0x0101010101010101010101010101010101 * (k + 1)) & ((1 << cfg["avl_dw"]) - 1) for k in range(n)]
            if op["data"] != simple:
                yield variant(data=simple)
        else:
            n = op["n"]
            for m in sorted(set([1, 2, n // 2, n - 1])):
                if 1 <= m < n:
                    yield variant(n=m)
            if op["be"] != full:
                yield variant(be=full)
        if op.get("gap"):
            yield variant(gap=0)
        if op.get("wait"):
            yield variant(wait=False)
        rel = op["addr"] - off
        for na in sorted(set([rel % ratio, rel % (4 * ratio), rel // 2 - (rel // 2) % ratio + rel % ratio])):
            if 0 <= na < rel:
                yield variant(addr=off + na)


def minimise(cfg, stim, clause, known, budget=500):
    """greedy, deterministic, bounded by a number of evaluations (not by time): keep a simplification while the same clause still fires"""
    left = [budget]

    def fails(c):
        left[0] -= 1
        try:
            _, fs, _ = evaluate(cfg, c)
        except Exception:      # a candidate that cannot be evaluated is not a reduction
            return False
        return any(f["clause"] == clause and match_known(known, f) is None for f in fs)
    progress = True
    while progress and left[0] > 0:
        progress = False
        for c in _simpler(cfg, stim):
            if left[0] <= 0:
                break
            if fails(c):
                stim = c
                progress = True
                break
    return stim


def replay(case):
    col = Collector(ID)
    _, fm, _ = evaluate(case["cfg"], case["stim"], backend="migen")
    return col.filter(fm)
