"""C15 ECC port corrects any single and flags any double bit error; byte-enable granularity errors.

Device: litedram.frontend.ecc.LiteDRAMNativePortECC(port_from, port_to, burst_cycles, with_error_injection=True,
with_we_error_detection=True).  User side: the conforming master of lib/native.py on port_from.  Memory side: the
realistic stub below (EccMemStub) on port_to: commands accepted with stalls, one-cycle wdata.ready / rdata.valid pulses
in acceptance order, a byte-enabled store of port_to words; the k-th accepted read of a segment is returned XOR-ed with a
flip mask.  CSRs are free signals in a bare simulation (enable.storage resets to 1, clear.re is pulsed by the testbench,
flip.storage drives the device's own error injection, *_errors.status are read).

Three parts with separately reported clauses (one does not hide the other):
  secded     : flip enumeration (every lane x every stored position, pairs of positions) + generated mixed traffic
  be_full    : writes with every byte enabled  -> no granularity error (C15.we_error_on_full_write)
  be_partial : every other byte-enable pattern -> error reported when an ECC word is touched partially, widened
               enables cover whole ECC words, read-back of enabled bytes / untouched lanes
Findings are collected per clause (the search goes on after the first one), each is re-built as a minimal single-access
case and confirmed on stock migen.sim before it is reported."""
import os
import lib.compat  # noqa
from hypothesis import strategies as st
from lib.runner import Collector, hyp_search, digest, match_known
from lib.fastsim import compile_dut, FastSim, MigenSim, HarnessError
from lib.native import NativeMaster, schedule_iter
from lib import secded

ID = "C15"
LEVEL = "fault_enumeration"
RULE = ("flip case = (configuration [lane data bits, burst_cycles, lane stored bits], lane, stored bit position(s), data word): one read of a "
        "previously written word returned by the memory stub with those stored bits flipped; singles over every lane x every code-word position "
        "(data + check + overall parity) exhaustively, pairs of positions of one lane exhaustively (thorough) or a seeded ~10% sample (quick), plus "
        "the device's own flip CSR (8 singles, 28 pairs in lane 0) and flips of unused padding bits (must be clean); every flip case is non-trivial "
        "by construction; generated traffic: clean / multi-lane flip mixes with stalls, and byte-enable writes where non-trivial = pattern neither "
        "all ones nor all zeros; distinct = distinct (configuration, flip mask, data word) or (configuration, enable pattern, data) digests")
ASSUMPTIONS = ["stored lane layout: bit 0 of a lane's stored word is the overall parity bit (litex ECCEncoder: o = Cat(parity, codeword)); only used to know "
               "which single flip is exempt from the 'counted as corrected' requirement (for that position 0 or 1 counts are both accepted)",
               "counters are per port word: one read with flips in one lane must move a counter by exactly 1; with single flips in several lanes of one "
               "word the corrected counter must move by 1..(number of lanes hit)",
               "a granularity error is 'reported' when we_errors moves at least once while that write's data is presented on port_from.wdata",
               "writes touching a lane partially may overwrite the whole lane (documented limitation): the not-enabled bytes of such a lane are unspecified on read-back",
               "a lane's code word is the low n+1 bits of its stored lane (n from litex compute_m_n); the remaining stored bits are unused padding whose flips must leave the read clean",
               "port widths are multiples of 8 bits (native ports have byte enables); lane data widths 8/16/32/64",
               "memory-side stub envelope = lib.native.NativeSlave (wdata.ready >= 3, rdata.valid >= 5 cycles after acceptance, pulses regardless of valid/ready)",
               "violations are confirmed on stock migen.sim before being reported; fastsim alone never produces a verdict",
               "lib/secded.py (textbook extended Hamming) is used for the minimum-distance cross-check of stored code words and as a layout-match statistic only"]

PAD_W = {8: 16, 16: 32, 32: 64, 64: 128}        # lane stored width when the memory port is a power of two (litedram/gen.py use)
FORCE_MIGEN = os.environ.get("VERIF_SIM") == "migen"

CL_SECDED = {"C15.clean_data", "C15.clean_counter", "C15.single_data", "C15.single_ded", "C15.single_sec_count", "C15.double_not_ded",
             "C15.double_sec", "C15.counter_spurious", "C15.sticky_flag", "C15.clear", "C15.code_distance", "C15.incomplete"}
CL_BE_FULL = {"C15.we_error_on_full_write", "C15.we_error_idle", "C15.we_widen_full", "C15.incomplete"}
CL_BE_PART = {"C15.we_error_missing", "C15.we_widen_cover", "C15.be_readback", "C15.clear", "C15.incomplete"}
CLAUSES = {"secded": CL_SECDED, "be_full": CL_BE_FULL, "be_partial": CL_BE_PART}


def EXHAUSTIVE(tier):
    return tier == "thorough"      # quick: singles exhaustive, pairs sampled


# ---------------------------------------------------------------------------------------------------
# configurations
def cw_bits(k):
    return secded.params(k)[1] + 1


def cfg_key(cfg):
    return "k=%d/bc=%d/wto=%d" % tuple(cfg)


def aligned(cfg):
    return cfg[2] % 8 == 0


def all_cfgs(tier):
    """[k, burst_cycles, stored lane width]; 'tight' = lane stored in exactly n+1 bits (upstream tests: 8*8 -> 13*8, 32*8 -> 39*8,
    64*8 -> 72*8), 'padded' = power-of-two memory port (what litedram/gen.py builds).  Port widths must be whole bytes."""
    out = []
    for k in (8, 16, 32, 64):
        cw = cw_bits(k)
        if tier == "quick":
            small = {8: (1, 3), 16: (2, 5), 32: (4, 7), 64: (6,)}[k]
            out.append([k, 8, cw])
            out.append([k, 8, PAD_W[k]])
            for bc in small:
                out.append([k, bc, PAD_W[k]])
            if k == 64:
                out.append([64, 1, 72])
            if k == 16:
                out.append([16, 4, 22])
        else:
            for bc in range(1, 9):
                out.append([k, bc, PAD_W[k]])
                if (cw * bc) % 8 == 0:
                    out.append([k, bc, cw])
    return out


def cost_ms(cfg):
    """rough cost of one simulated cycle (compiled simulator + drivers), only used to balance the shards"""
    k, bc, wto = cfg
    return 0.08 + 0.0013 * k * bc


def build_ms(cfg):
    """rough cost of elaborating + compiling one configuration in a process"""
    k, bc, wto = cfg
    return 60 + 0.008 * (k * bc) ** 2


# ---------------------------------------------------------------------------------------------------
# device, simulators
def build_dut(cfg):
    from migen import Module
    from litedram.common import LiteDRAMNativePort
    from litedram.frontend.ecc import LiteDRAMNativePortECC
    k, bc, wto = cfg

    class DUT(Module):
        def __init__(self):
            self.port_from = LiteDRAMNativePort("both", 24, k * bc)
            self.port_to = LiteDRAMNativePort("both", 24, wto * bc)
            self.submodules.ecc = LiteDRAMNativePortECC(self.port_from, self.port_to, burst_cycles=bc,
                                                        with_error_injection=True, with_we_error_detection=True)
    return DUT()


_compiled = {}


def get_sim(cfg, backend):
    if FORCE_MIGEN:
        backend = "migen"
    if backend == "fast":
        key = tuple(cfg)
        if key not in _compiled:
            dut = build_dut(cfg)
            _compiled[key] = (dut, compile_dut(dut, clocks={"sys": 10}))
        dut, comp = _compiled[key]
        return dut, FastSim(comp)
    dut = build_dut(cfg)
    return dut, MigenSim(dut, clocks={"sys": 10})


class EccMemStub:
    """Memory side of the ECC port: same envelope as lib.native.NativeSlave (single port) plus a flip plan.
    The k-th read accepted after set_flips() is returned as stored_word XOR flips[k] (transient fault on the way back)."""
    WMIN = 3
    RMIN = 5

    def __init__(self, port, ready=None, wlat=None, rlat=None, qmax=8):
        self.port = port
        self.ready = schedule_iter(ready)
        self.wlat = wlat or [self.WMIN]
        self.rlat = rlat or [self.RMIN]
        self.qmax = max(1, qmax)
        self.nw = self.nr = 0
        self.q = []
        self.last_due = -1
        self.mem = {}
        self.flips = []
        self.lost = []
        self.log = []          # ("C", t, we, addr) / ("W", t, addr, data, we, valid) / ("R", t, addr, data_returned, mask)
        self.pendw = None
        self.pendr = None
        self.drive_ready = 0
        self.width = port.data_width

    def set_flips(self, masks):
        self.flips = list(masks)

    def read_mem(self, addr):
        v = self.mem.get(addr)
        if v is None:
            return (addr * 0x9E3779B1 + 0x7F4A7C15) & ((1 << self.width) - 1)
        return v

    def idle(self):
        return not self.q and self.pendw is None and self.pendr is None

    def cycle(self, sim, t):
        get = sim.get
        p = self.port
        w = []
        if self.pendw is not None:
            addr = self.pendw
            self.pendw = None
            v = get(p.wdata.valid)
            d = get(p.wdata.data)
            we = get(p.wdata.we)
            if not v:
                self.lost.append(("W-novalid", t, addr))
            else:
                old = self.read_mem(addr)
                for b in range(self.width // 8):
                    if (we >> b) & 1:
                        old = (old & ~(0xff << (8 * b))) | (d & (0xff << (8 * b)))
                self.mem[addr] = old
            self.log.append(("W", t, addr, d, we, v))
        if self.pendr is not None:
            addr, data, mask = self.pendr
            self.pendr = None
            if not get(p.rdata.ready):
                self.lost.append(("R-noready", t, addr))
            self.log.append(("R", t, addr, data, mask))
        if self.drive_ready and get(p.cmd.valid):
            we = get(p.cmd.we)
            addr = get(p.cmd.addr)
            if we:
                lat = max(self.WMIN, self.wlat[self.nw % len(self.wlat)])
                self.nw += 1
                mask = 0
            else:
                lat = max(self.RMIN, self.rlat[self.nr % len(self.rlat)])
                self.nr += 1
                mask = self.flips.pop(0) if self.flips else 0
            due = max(t + lat, self.last_due + 1)
            self.last_due = due
            self.q.append((we, addr, due, mask))
            self.log.append(("C", t, we, addr))
        rdy = next(self.ready) and len(self.q) < self.qmax
        self.drive_ready = 1 if rdy else 0
        w.append((p.cmd.ready, self.drive_ready))
        w.append((p.wdata.ready, 0))
        w.append((p.rdata.valid, 0))
        if self.q and self.q[0][2] <= t + 1:
            we, addr, due, mask = self.q.pop(0)
            if we:
                w.append((p.wdata.ready, 1))
                self.pendw = addr
            else:
                data = self.read_mem(addr) ^ mask
                w.append((p.rdata.valid, 1))
                w.append((p.rdata.data, data))      # the bus keeps this value after the pulse, like a real read-data bus
                self.pendr = (addr, data, mask)
        return w


class SegObs:
    pass


class Obs:
    pass


def diff_signals(dut):
    pf, pt, e = dut.port_from, dut.port_to, dut.ecc
    return [pf.cmd.ready, pf.wdata.ready, pf.rdata.valid, pf.rdata.data, pt.cmd.valid, pt.cmd.we, pt.cmd.addr, pt.wdata.valid,
            pt.wdata.data, pt.wdata.we, pt.rdata.ready, e.sec_errors.status, e.ded_errors.status, e.we_errors.status, e.sec_detected, e.ded_detected]


def evaluate(case, backend="fast", trace=None):
    """case = dict(cfg=[k,bc,wto], segs=[dict(ops=[{we,addr,data,be,gap,lead}], flips=[mask per read, in order], inject=int)],
                   slave=dict(ready,wlat,rlat,qmax), wait_reads=bool).  After every segment the testbench pulses clear."""
    cfg = case["cfg"]
    dut, sim = get_sim(cfg, backend)
    pf, e = dut.port_from, dut.ecc
    watch = [e.sec_errors.status, e.ded_errors.status, e.we_errors.status, e.sec_detected, e.ded_detected, pf.wdata.valid, pf.wdata.we]
    dsig = diff_signals(dut) if trace is not None else None
    sl = case.get("slave") or {}
    stub = EccMemStub(dut.port_to, ready=sl.get("ready"), wlat=sl.get("wlat"), rlat=sl.get("rlat"), qmax=sl.get("qmax", 8))
    tr = []
    st_ = dict(t=0)

    def tick(drivers, extra=()):
        t = st_["t"]
        get = sim.get
        tr.append(tuple([get(s) for s in watch]))
        if dsig is not None:
            trace.append([get(s) for s in dsig])
        w = []
        for d in drivers:
            w += d.cycle(sim, t)
        w += list(extra)
        sim.step(w)
        st_["t"] = t + 1

    o = Obs()
    o.segs = []
    o.stub = stub
    for seg in case["segs"]:
        ops = seg["ops"]
        nreads = sum(1 for op in ops if not op["we"])
        stub.set_flips(seg.get("flips") or [])
        m = NativeMaster(pf, ops, wait_reads=bool(case.get("wait_reads")))
        so = SegObs()
        so.log0 = len(stub.log)
        so.lost0 = len(stub.lost)
        # one idle cycle in which the device's own injection mask is set up
        tick([stub], [(e.flip.storage, seg.get("inject", 0)), (pf.cmd.valid, 0), (pf.wdata.valid, 0), (pf.rdata.ready, 1), (e.clear.re, 0)])
        so.t_start = st_["t"]
        cap = st_["t"] + 120 + sum(op.get("gap", 0) for op in ops) + len(ops) * 45
        quiet = 0
        while st_["t"] < cap:
            tick([m, stub])
            if m.idle() and stub.idle() and len(m.r_log) >= nreads:
                quiet += 1
                if quiet >= 3:
                    break
            else:
                quiet = 0
        so.completed = quiet >= 3
        so.t_end = st_["t"]
        tick([m, stub], [(e.clear.re, 1)])
        tick([m, stub], [(e.clear.re, 0)])
        tick([m, stub], [(e.flip.storage, 0)])
        tick([m, stub])
        so.master = m
        so.log = stub.log[so.log0:]
        so.lost = stub.lost[so.lost0:]
        o.segs.append(so)
    o.tr = tr
    o.cycles = st_["t"]
    return o


# ---------------------------------------------------------------------------------------------------
# oracle
def lane_required_bytes(cfg, lane):
    """memory-side byte lanes that hold at least one bit of this lane's stored code word"""
    k, bc, wto = cfg
    lo = lane * wto
    hi = lo + cw_bits(k) - 1
    m = 0
    for b in range(lo // 8, hi // 8 + 1):
        m |= 1 << b
    return m


def be_class(cfg, be):
    k, bc, wto = cfg
    lb = k // 8
    full = (1 << lb) - 1
    lanes = [(be >> (i * lb)) & full for i in range(bc)]
    if all(x == full for x in lanes):
        return "full"
    if all(x == 0 for x in lanes):
        return "none"
    if any(0 < x < full for x in lanes):
        return "partial_lane"
    return "lane_granular"


def hx(v):
    return hex(v)


COUNT_CLAUSES = {"C15.clean_counter", "C15.single_ded", "C15.single_sec_count", "C15.double_not_ded", "C15.double_sec", "C15.counter_spurious"}


def oracle(case, obs, part, book=None):
    """The statement does not say in which cycle an event is counted: the counters are first read one cycle after the read data
    is valid on the memory port (what this tree does); if that shows a counting finding the evaluation is repeated assuming one
    more cycle of latency for every read of the case, and that verdict is taken if it has no counting finding."""
    fs, recs = _oracle(case, obs, part, book, 1)
    if any(f["clause"] in COUNT_CLAUSES or f["clause"] == "C15.be_readback" for f in fs):
        fs2, recs2 = _oracle(case, obs, part, None, 2)
        if not any(f["clause"] in COUNT_CLAUSES or f["clause"] == "C15.be_readback" for f in fs2):
            return fs2 + [f for f in fs if f["clause"] == "C15.code_distance"], recs2
    return fs, recs


def _oracle(case, obs, part, book, lat):
    """returns (findings, records); records = one dict per evaluated read / byte-enable write for the collector"""
    cfg = case["cfg"]
    k, bc, wto = cfg
    cw = cw_bits(k)
    cwm = (1 << cw) - 1
    lb = k // 8
    lfull = (1 << lb) - 1
    nb_from = k * bc // 8
    fbe = (1 << nb_from) - 1
    ck = cfg_key(cfg)
    al = "lane_aligned" if aligned(cfg) else "lane_unaligned"
    tr = obs.tr
    fs = []
    recs = []
    ref = {}        # addr -> list of bytes (None = unspecified)
    inj = {}        # addr -> injection mask in effect when the word was stored
    stored = {}     # addr -> lanes that hold a code word (written at least once); the rest is uninitialised memory
    is_be = part.startswith("be")

    def F(clause, key, what, repro):
        fs.append(dict(clause=clause, key=key + "/" + ck, what="%s: %s" % (ck, what), repro=repro))

    for si, (seg, so) in enumerate(zip(case["segs"], obs.segs)):
        ops = seg["ops"]
        flips = seg.get("flips") or []
        injm = seg.get("inject", 0)
        m = so.master
        Ws = [x for x in so.log if x[0] == "W"]
        Rs = [x for x in so.log if x[0] == "R"]
        nwr = sum(1 for op in ops if op["we"])
        nrd = len(ops) - nwr
        if (not so.completed) or len(m.r_log) != nrd or len(Ws) != nwr or len(Rs) != nrd or so.lost or len(m.w_taken) != nwr:
            F("C15.incomplete", "seg", "segment %d did not complete: completed=%s reads back %d/%d, memory writes %d/%d, lost beats at the memory side %s"
              % (si, so.completed, len(m.r_log), nrd, len(Ws), nwr, so.lost[:2]), dict(kind="case"))
            continue
        attributed = set()
        wi = ri = 0
        prev_taken = so.t_start - 1
        for oi, op in enumerate(ops):
            addr = op["addr"]
            if op["we"]:
                be = op["be"]
                data = op["data"]
                cur = ref.get(addr) or [None] * nb_from
                cur = list(cur)
                for ln in range(bc):
                    lbe = (be >> (ln * lb)) & lfull
                    if lbe == 0:
                        continue
                    stored.setdefault(addr, set()).add(ln)
                    for b in range(lb):
                        bi = ln * lb + b
                        cur[bi] = ((data >> (8 * bi)) & 0xff) if (lbe >> b) & 1 else None
                ref[addr] = cur
                inj[addr] = injm if be == fbe else (inj.get(addr, 0) | injm)
                # ---- byte-enable clauses
                _, tW, aW, dW, weW, vW = Ws[wi]
                tk, kk = m.w_taken[wi]
                if kk != oi or aW != addr:
                    raise HarnessError("write bookkeeping out of step (op %d taken %d, addr %d vs %d)" % (oi, kk, addr, aW))
                cyc = [c for c in range(prev_taken + 1, tk + 1) if tr[c][5]]
                for c in cyc:
                    if tr[c][6] != be:
                        raise HarnessError("port_from.wdata.we differs from the op's enables while it is the queue head")
                errs = sum(tr[c + 1][2] - tr[c][2] for c in cyc)
                prev_taken = tk
                bcl = be_class(cfg, be)
                rep = dict(kind="be", be=be, data=data)
                if bcl == "full":
                    if errs != 0:
                        F("C15.we_error_on_full_write", "full_write",
                          "write with ALL %d bytes enabled (we=%s, data=%s, presented %d cycle(s)) moved we_errors by %d; every lane's enables are all ones so no granularity error may be reported"
                          % (nb_from, hx(be), hx(data), len(cyc), errs), rep)
                else:
                    # "Writes that do not enable all bytes of an ECC word are reported": every lane (ECC word) whose enables are not all
                    # ones counts, whether it is enabled partially or not at all
                    if errs < 1:
                        F("C15.we_error_missing", bcl,
                          "write we=%s (%s) does not enable all bytes of every ECC word but we_errors did not move while it was presented (%d cycles)" % (hx(be), bcl, len(cyc)), rep)
                need = 0
                for ln in range(bc):
                    if (be >> (ln * lb)) & lfull:
                        need |= lane_required_bytes(cfg, ln)
                if need & ~weW and not (al == "lane_unaligned" and bcl != "full"):
                    # (lanes whose stored width is not a whole number of bytes share bytes with their neighbours: a partial write cannot be
                    #  expressed with byte enables at all there; the property only asks that it is REPORTED, which we_error_missing checks)
                    clause = "C15.we_widen_full" if bcl == "full" else "C15.we_widen_cover"
                    F(clause, al + "/" + bcl,
                      "write we=%s (%s): memory-side enables %s do not cover the bytes %s holding the stored code words of the enabled lanes (missing %s)"
                      % (hx(be), bcl, hx(weW), hx(need), hx(need & ~weW)), rep)
                if is_be:
                    recs.append(dict(kind="be", obj=[cfg, "be", be, data], cls="be %s, we_errors %s" % (bcl, "moved" if errs else "did not move"), nontrivial=bcl not in ("full", "none"), errs=errs,
                                     sample=dict(cfg=ck, we=hx(be), data=hx(data), we_errors_moved=errs, mem_we=hx(weW))))
                # ---- code book (stored code words seen at the memory side), only for uncorrupted full writes
                if book is not None and be == fbe and injm == 0:
                    for ln in range(bc):
                        dl = (data >> (ln * k)) & ((1 << k) - 1)
                        cl = (dW >> (ln * wto)) & cwm
                        for pr in book.add(dl, cl):
                            if pr[0] == "distance":
                                F("C15.code_distance", "distance", "stored code words of lane data %s and %s differ in only %d bits (%s vs %s); SECDED needs >= 4"
                                  % (hx(pr[2]), hx(pr[3]), pr[1], hx(pr[4]), hx(pr[5])), dict(kind="dist", a=pr[2], b=pr[3]))
                            else:
                                F("C15.code_distance", "nondeterministic", "lane data %s stored as %s and as %s" % (hx(pr[1]), hx(pr[2]), hx(pr[3])),
                                  dict(kind="dist", a=pr[1], b=pr[1]))
                wi += 1
                continue
            # ---- read
            got = m.r_log[ri][1]
            _, tR, aR, dR, maskR = Rs[ri]
            if aR != addr:
                raise HarnessError("read bookkeeping out of step")
            mask = flips[ri] if ri < len(flips) else 0
            if mask != maskR:
                raise HarnessError("flip plan out of step")
            eff = mask ^ inj.get(addr, 0)
            cur = ref.get(addr)
            if cur is None or len(stored.get(addr, ())) < bc:
                raise HarnessError("generated case reads a word with never-written lanes (uninitialised memory is not a code word)")
            nsingle = npar = ndouble = 0
            lanes_c = []
            for ln in range(bc):
                fl = (eff >> (ln * wto)) & cwm
                c = secded.popcount(fl)
                if c > 2:
                    raise HarnessError("generator produced more than two flips in one lane")
                lanes_c.append(c)
                if c == 2:
                    ndouble += 1
                elif c == 1:
                    if fl == 1:
                        npar += 1
                    else:
                        nsingle += 1
            dsec = tr[tR + lat][0] - tr[tR + lat - 1][0]
            dded = tr[tR + lat][1] - tr[tR + lat - 1][1]
            attributed.add(tR + lat - 1)
            want = 0
            for b in range(nb_from):
                want |= (cur[b] or 0) << (8 * b)
            rep = dict(kind="flip", mask=mask, inject=inj.get(addr, 0), data=want)
            where = "read %d of segment %d, stored flips %s%s, data %s" % (ri, si, hx(mask), (" + flip CSR %s" % hx(inj[addr])) if inj.get(addr) else "", hx(want))
            for ln in range(bc):
                c = lanes_c[ln]
                if c == 2:
                    continue
                bad = [b for b in range(ln * lb, (ln + 1) * lb) if cur[b] is not None and ((got >> (8 * b)) & 0xff) != cur[b]]
                if bad:
                    clause = "C15.clean_data" if c == 0 else "C15.single_data"
                    F(clause, "lane_flips=%d" % c, "%s: lane %d (%d flipped stored bit(s) in this lane) returned %s, written %s"
                      % (where, ln, c, hx((got >> (ln * k)) & ((1 << k) - 1)), hx((want >> (ln * k)) & ((1 << k) - 1))), rep)
            if ndouble == 0 and dded != 0:
                if nsingle + npar:
                    F("C15.single_ded", "single", "%s: single flips only, yet ded_errors moved by %d" % (where, dded), rep)
                else:
                    F("C15.clean_counter", "ded", "%s: no stored bit of a code word flipped, ded_errors moved by %d" % (where, dded), rep)
            if ndouble and dded < 1:
                F("C15.double_not_ded", "sec=%d" % dsec, "%s: two flipped bits in one ECC word, ded_errors did not move (sec_errors moved by %d)" % (where, dsec), rep)
            if nsingle == 0 and npar == 0 and dsec != 0:
                if ndouble:
                    F("C15.double_sec", "double", "%s: two flipped bits in one ECC word counted as corrected (sec_errors +%d, ded_errors +%d)" % (where, dsec, dded), rep)
                else:
                    F("C15.clean_counter", "sec", "%s: no stored bit of a code word flipped, sec_errors moved by %d" % (where, dsec), rep)
            if nsingle == 0 and npar and not (0 <= dsec <= 1):
                F("C15.single_sec_count", "parity", "%s: overall-parity flip moved sec_errors by %d" % (where, dsec), rep)
            if nsingle and not (1 <= dsec <= nsingle + npar):
                F("C15.single_sec_count", "single", "%s: %d lane(s) with one flipped code-word bit, sec_errors moved by %d (expected %s)"
                  % (where, nsingle, dsec, "1" if nsingle + npar == 1 else "1..%d" % (nsingle + npar)), rep)
            if not is_be:
                nl = sum(1 for c in lanes_c if c)
                pad_only = (eff != 0 and nl == 0)
                if nl == 0:
                    cls = "padding flip (clean)" if pad_only else "clean read"
                elif nl == 1:
                    c = max(lanes_c)
                    cls = "double flip" if c == 2 else ("parity-bit flip, sec %s" % ("counted" if dsec else "not counted") if npar else "single flip")
                else:
                    cls = "multi-lane flips"
                if inj.get(addr):
                    cls += " via flip CSR"
                recs.append(dict(kind="read", obj=[cfg, hx(eff), hx(want)], cls=cls, nontrivial=True,
                                 sample=dict(cfg=ck, flipped_stored_bits=hx(eff), data=hx(want), returned=hx(got), sec_moved=dsec, ded_moved=dded)))
            ri += 1
        # ---- cycles that belong to no read: counters must not move; flags follow the counters; enables idle
        for c in range(so.t_start, so.t_end):
            d0 = tr[c + 1][0] - tr[c][0]
            d1 = tr[c + 1][1] - tr[c][1]
            if c not in attributed and (d0 or d1):
                F("C15.counter_spurious", "novalid", "segment %d cycle %d: sec_errors %+d / ded_errors %+d although no read data was valid on the memory port in that cycle"
                  % (si, c, d0, d1), dict(kind="case"))
                break
        for c in range(so.t_start, so.t_end + 1):
            if tr[c][3] != (1 if tr[c][0] else 0) or tr[c][4] != (1 if tr[c][1] else 0):
                F("C15.sticky_flag", "flag", "segment %d cycle %d: sec_errors=%d sec_detected=%d ded_errors=%d ded_detected=%d (flags must be set exactly when the counter is non-zero)"
                  % (si, c, tr[c][0], tr[c][3], tr[c][1], tr[c][4]), dict(kind="case"))
                break
        for c in range(so.t_start, so.t_end):
            if not tr[c][5] and tr[c + 1][2] != tr[c][2]:
                F("C15.we_error_idle", "idle", "segment %d cycle %d: we_errors moved by %d while port_from.wdata.valid = 0" % (si, c, tr[c + 1][2] - tr[c][2]), dict(kind="case"))
                break
        # ---- clear
        before = tr[so.t_end]
        after = tr[so.t_end + 2]
        chk = [0, 1, 3, 4] + ([2] if part == "be_partial" else [])
        if any(after[i] for i in chk):
            F("C15.clear", "clear", "segment %d: after the clear pulse sec_errors=%d ded_errors=%d we_errors=%d sec_detected=%d ded_detected=%d (before: %s)"
              % (si, after[0], after[1], after[2], after[3], after[4], list(before[:5])), dict(kind="case"))
        if any(before[i] for i in chk):
            recs.append(dict(kind="meta", cls="clear of non-zero counters"))
    if is_be:
        remap = {"C15.clean_data": "C15.be_readback", "C15.clean_counter": "C15.be_readback", "C15.counter_spurious": "C15.be_readback"}
        if al == "lane_unaligned":
            fs = [f for f in fs if f["clause"] not in remap]       # read-back after a partial write is unspecified when lanes share bytes
        for f in fs:
            if f["clause"] in remap:
                f["key"] = al + "/" + f["clause"][4:] + "/" + ck
                f["clause"] = remap[f["clause"]]
                f["repro"] = dict(kind="case")
    allowed = CLAUSES[part]
    return [f for f in fs if f["clause"] in allowed], recs


# ---------------------------------------------------------------------------------------------------
# case construction
DEFAULT_SLAVE = dict(ready=[], wlat=[3], rlat=[5], qmax=8)


def wr(addr, data, be, gap=0, lead=0):
    return dict(we=1, addr=addr, data=data, be=be, gap=gap, lead=lead)


def rd(addr, gap=0):
    return dict(we=0, addr=addr, data=0, be=0, gap=gap, lead=0)


def full_be(cfg):
    return (1 << (cfg[0] * cfg[1] // 8)) - 1


def flip_items(cfg, tier, key):
    """deterministic list of (lane, positions) over the stored lane word; positions < n+1 are code-word bits, others padding"""
    k, bc, wto = cfg
    cw = cw_bits(k)
    items = []
    for ln in range(bc):
        for a in range(cw):
            items.append((ln, (a,)))
    pads = list(range(cw, wto))
    if tier == "quick" and len(pads) > 3:
        pads = [pads[0], pads[len(pads) // 2], pads[-1]]
    for ln in range(bc):
        for a in pads:
            items.append((ln, (a,)))
    for ln in range(bc):
        for a in range(cw):
            for b in range(a + 1, cw):
                if tier == "thorough" or int(digest([key, cfg, ln, a, b]), 16) % 10 == 0:
                    items.append((ln, (a, b)))
    return items


def inject_masks():
    out = [1 << a for a in range(8)]
    for a in range(8):
        for b in range(a + 1, 8):
            out.append((1 << a) | (1 << b))
    return out


def batch_plan(cfg, tier, key):
    """(reads per batch, data words per batch, words per flip, number of batches incl. the flip-CSR batches)"""
    nd = 4 if tier == "quick" else 8
    per = 1 if tier == "quick" else nd
    fpb = 48 if tier == "quick" else max(1, 96 // per)
    nit = len(flip_items(cfg, tier, key))
    nflip = (nit + fpb - 1) // fpb
    ninj = (len(inject_masks()) + 11) // 12
    return fpb, nd, per, nflip, ninj


def special_words(cfg):
    k, bc, wto = cfg
    W = k * bc
    ones = (1 << W) - 1
    out = [0, ones]
    step = max(1, W // 61)
    for i in range(0, W, step):
        out.append(1 << i)
        out.append(ones ^ (1 << i))
    out.append(int("aa" * (W // 8), 16))
    out.append(int("55" * (W // 8), 16))
    return out


def make_batch(cfg, tier, key, b, pool, items=None):
    """batch b of the configuration's enumeration -> simulation case"""
    fpb, nd, per, nflip, ninj = batch_plan(cfg, tier, key)
    k, bc, wto = cfg
    pe = pool[b % len(pool)]
    sp = special_words(cfg)
    words = list(pe["words"][:nd])
    words[0] = sp[b % len(sp)]
    if nd > 2:
        words[2] = sp[(b + 2 + b // len(sp)) % len(sp)] if b % 3 == 0 else words[2]
    fb = full_be(cfg)
    gaps = pe["gaps"]
    leads = pe["leads"]
    ops = [wr(a, words[a], fb, gap=gaps[a % len(gaps)], lead=leads[a % len(leads)]) for a in range(nd)]
    flips = []
    inject = 0
    if b < nflip:
        if items is None:
            items = flip_items(cfg, tier, key)
        chunk = items[b * fpb:(b + 1) * fpb]
        j = 0
        for (ln, pos) in chunk:
            mask = 0
            for p in pos:
                mask |= 1 << (ln * wto + p)
            for r in range(per):
                a = (j + b) % nd if per == 1 else r
                ops.append(rd(a, gap=gaps[(j + 1) % len(gaps)] if j % 7 == 3 else 0))
                flips.append(mask)
                j += 1
        slow = (b % 4 == 0)       # every fourth batch with the generated stall / latency schedules, the others fully pipelined
        return dict(cfg=cfg, part="secded", segs=[dict(ops=ops, flips=flips, inject=0)], slave=pe["slave"] if slow else DEFAULT_SLAVE,
                    wait_reads=bool(pe["wait_reads"] and slow))
    # device's own injection: one segment per mask (the mask is in effect while the words are stored)
    masks = inject_masks()[(b - nflip) * 12:(b - nflip + 1) * 12]
    segs = []
    for i, mk in enumerate(masks):
        o = [wr(a, words[(a + i) % nd], fb) for a in range(2)] + [rd(0), rd(1)]
        segs.append(dict(ops=o, flips=[0, 0], inject=mk))
    return dict(cfg=cfg, part="secded", segs=segs, slave=pe["slave"], wait_reads=pe["wait_reads"])


def minimal_cases(case, f):
    """candidate single-access reproductions of a finding, simplest first; the original case is the last resort"""
    cfg = case["cfg"]
    r = f.get("repro") or {}
    fb = full_be(cfg)
    out = []
    if r.get("kind") == "flip":
        for d in ([0, r["data"]] if r["data"] else [0]):
            out.append(dict(cfg=cfg, part=case["part"], segs=[dict(ops=[wr(0, d, fb), rd(0)], flips=[r["mask"]], inject=r.get("inject", 0))],
                            slave=DEFAULT_SLAVE, wait_reads=False))
    elif r.get("kind") == "dist":
        # the two lane data words side by side in every lane of two writes: the pair is then inside one case
        k, bc, wto = cfg
        wa = sum(r["a"] << (ln * k) for ln in range(bc))
        wb = sum(r["b"] << (ln * k) for ln in range(bc))
        out.append(dict(cfg=cfg, part=case["part"], segs=[dict(ops=[wr(0, wa, fb), wr(1, wb, fb)], flips=[], inject=0)], slave=DEFAULT_SLAVE, wait_reads=False))
    elif r.get("kind") == "be":
        cfgs = [cfg]
        if f["clause"] == "C15.we_error_on_full_write":
            cfgs = [[8, 1, 16], cfg]
        for c in cfgs:
            same = (c == cfg)
            be = r["be"] if same else full_be(c)
            for d in ([0, r["data"]] if (r["data"] and same) else [0]):
                if be == full_be(c):
                    ops = [wr(0, d, be)]
                else:
                    ops = [wr(0, 0, full_be(c)), wr(0, d, be), rd(0)]
                out.append(dict(cfg=c, part=case["part"], segs=[dict(ops=ops, flips=[0] * sum(1 for x in ops if not x["we"]), inject=0)],
                                slave=DEFAULT_SLAVE, wait_reads=False))
    out.append(case)
    return out


def ddmin_case(case, fails, budget=120):
    """bounded greedy removal of operations (flip masks stay attached to their reads), then stalls/gaps/data simplification;
    fails(trial) -> True when the clause still shows.  A smaller budget means a less minimal replay, never a changed verdict."""
    import copy
    n = [0]

    def attach(c):
        out = []
        for seg in c["segs"]:
            r = 0
            prs = []
            for op in seg["ops"]:
                if op["we"]:
                    prs.append((op, None))
                else:
                    prs.append((op, seg["flips"][r]))
                    r += 1
            out.append(prs)
        return out

    def detach(c, segs_pairs):
        d = dict(c)
        d["segs"] = [dict(ops=[copy.deepcopy(p[0]) for p in prs], flips=[p[1] for p in prs if not p[0]["we"]], inject=seg.get("inject", 0))
                     for prs, seg in zip(segs_pairs, c["segs"]) if prs]
        return d

    def ok(trial):
        if n[0] >= budget or not trial["segs"]:
            return False
        n[0] += 1
        try:
            return fails(trial)
        except HarnessError:
            return False

    cur = case
    pairs = attach(cur)
    for si in range(len(pairs)):
        chunk = max(1, len(pairs[si]) // 2)
        while chunk >= 1:
            i = 0
            while i < len(pairs[si]):
                trial_pairs = [list(x) for x in pairs]
                del trial_pairs[si][i:i + chunk]
                trial = detach(cur, trial_pairs)
                # segments may have been dropped by detach: keep the inject values aligned
                trial["segs"] = [dict(ops=[copy.deepcopy(p[0]) for p in prs], flips=[p[1] for p in prs if not p[0]["we"]], inject=cur["segs"][k].get("inject", 0))
                                 for k, prs in enumerate(trial_pairs) if prs]
                if ok(trial):
                    pairs = trial_pairs
                else:
                    i += chunk
            chunk //= 2
    cur = dict(cur)
    cur["segs"] = [dict(ops=[copy.deepcopy(p[0]) for p in prs], flips=[p[1] for p in prs if not p[0]["we"]], inject=case["segs"][k].get("inject", 0))
                   for k, prs in enumerate(pairs) if prs]
    for simpler in (dict(slave=DEFAULT_SLAVE, wait_reads=False),):
        trial = dict(cur)
        trial.update(simpler)
        if ok(trial):
            cur = trial
    k, bc, wto = cur["cfg"]
    lb = k // 8
    fb = full_be(cur["cfg"])
    for si, seg in enumerate(cur["segs"]):
        for oi, op in enumerate(seg["ops"]):
            for fld, val in (("gap", 0), ("lead", 0), ("data", 0), ("data", (1 << (k * bc)) - 1)):
                if op.get(fld) and cur["segs"][si]["ops"][oi].get(fld) != val and (fld != "data" or cur["segs"][si]["ops"][oi]["data"] != 0):
                    trial = copy.deepcopy(cur)
                    trial["segs"][si]["ops"][oi][fld] = val
                    if ok(trial):
                        cur = trial
            if op["we"] and op["be"] != fb:
                for ln in range(bc):          # drop the enables of whole lanes while the clause still shows
                    be = cur["segs"][si]["ops"][oi]["be"]
                    lm = ((1 << lb) - 1) << (ln * lb)
                    if be & lm and be & ~lm:
                        trial = copy.deepcopy(cur)
                        trial["segs"][si]["ops"][oi]["be"] = be & ~lm
                        if ok(trial):
                            cur = trial
    return cur


# ---------------------------------------------------------------------------------------------------
# strategies (data words, schedules, generated traffic)
def lane_word(k):
    ones = (1 << k) - 1
    return st.one_of(st.just(0), st.just(ones), st.integers(0, k - 1).map(lambda i: 1 << i), st.integers(0, k - 1).map(lambda i: ones ^ (1 << i)),
                     st.integers(0, ones), st.integers(0, ones))


def port_word(k, bc):
    def pack(ls):
        v = 0
        for i, x in enumerate(ls):
            v |= x << (i * k)
        return v
    return st.lists(lane_word(k), min_size=bc, max_size=bc).map(pack)


def slave_st():
    return st.fixed_dictionaries(dict(
        ready=st.one_of(st.just([]), st.just([]), st.lists(st.integers(1, 3), min_size=2, max_size=4)),
        wlat=st.lists(st.integers(3, 9), min_size=1, max_size=3),
        rlat=st.lists(st.integers(5, 11), min_size=1, max_size=3),
        qmax=st.integers(1, 8)))


def pool_entry(cfg, nd):
    k, bc, wto = cfg
    return st.fixed_dictionaries(dict(
        words=st.lists(port_word(k, bc), min_size=nd, max_size=nd),
        slave=st.one_of(st.just(DEFAULT_SLAVE), slave_st()),
        gaps=st.lists(st.integers(0, 2), min_size=1, max_size=4),
        leads=st.lists(st.integers(0, 2), min_size=1, max_size=3),
        wait_reads=st.sampled_from([False, False, False, True])))


def draw_examples(strategy, n, seed):
    out = []

    def t(c):
        if len(out) < n:
            out.append(c)
        return []
    hyp_search(t, strategy, seed, n, shrink=False)
    if not out:
        raise HarnessError("Hypothesis produced no example")
    return out


@st.composite
def mix_case(draw, cfgs):
    cfg = draw(st.sampled_from(cfgs))
    k, bc, wto = cfg
    cw = cw_bits(k)
    fb = full_be(cfg)
    mode = draw(st.sampled_from(["clean", "clean", "single", "double", "mixed", "mixed", "distance"]))
    nd = draw(st.integers(1, 4))
    words = [draw(port_word(k, bc)) for _ in range(nd)]
    if mode == "distance":
        i = draw(st.integers(0, k * bc - 1))
        j = draw(st.integers(0, k * bc - 1))
        nd = 3
        words = [words[0], words[0] ^ (1 << i), words[0] ^ (1 << i) ^ (1 << j)]
    gap = st.sampled_from([0, 0, 0, 1, 2, 5])

    def lane_flip(n):
        pos = draw(st.lists(st.integers(0, cw - 1), min_size=n, max_size=n, unique=True))
        return sum(1 << p for p in pos)

    def read_mask():
        if mode in ("clean", "distance"):
            return 0
        mask = 0
        if mode in ("single", "double"):
            lanes = draw(st.lists(st.integers(0, bc - 1), min_size=1, max_size=bc, unique=True))
            for ln in lanes:
                mask |= lane_flip(1 if mode == "single" else 2) << (ln * wto)
            return mask
        for ln in range(bc):
            n = draw(st.sampled_from([0, 0, 0, 1, 1, 2]))
            if n:
                mask |= lane_flip(n) << (ln * wto)
        return mask

    segs = []
    nseg = draw(st.integers(1, 2))
    for s in range(nseg):
        ops, flips = [], []
        if s == 0:
            for a in range(nd):
                ops.append(wr(a, words[a], fb, gap=draw(gap), lead=draw(st.integers(0, 2))))
        for _ in range(draw(st.integers(1, 8))):
            a = draw(st.integers(0, nd - 1))
            if draw(st.integers(0, 3)) == 0:
                ops.append(wr(a, draw(port_word(k, bc)), fb, gap=draw(gap), lead=draw(st.integers(0, 1))))
            else:
                ops.append(rd(a, gap=draw(gap)))
                flips.append(read_mask())
        segs.append(dict(ops=ops, flips=flips, inject=0))
    return dict(cfg=cfg, part="secded", mode=mode, segs=segs, slave=draw(slave_st()), wait_reads=draw(st.booleans()))


@st.composite
def be_case(draw, cfgs, full):
    cfg = draw(st.sampled_from(cfgs))
    k, bc, wto = cfg
    lb = k // 8
    lfull = (1 << lb) - 1
    fb = full_be(cfg)
    nd = draw(st.integers(1, 3))
    gap = st.sampled_from([0, 0, 1, 3])

    def pattern():
        if full:
            return fb
        lanes = []
        for ln in range(bc):
            kind = draw(st.sampled_from(["full", "full", "zero", "partial"]))
            if kind == "partial" and lb > 1:
                lanes.append(draw(st.integers(1, lfull - 1)))
            elif kind == "zero" or kind == "partial":
                lanes.append(0)
            else:
                lanes.append(lfull)
        if all(x == lfull for x in lanes):
            ln = draw(st.integers(0, bc - 1))
            lanes[ln] = draw(st.integers(1, lfull - 1)) if lb > 1 else 0
        be = 0
        for ln, x in enumerate(lanes):
            be |= x << (ln * lb)
        return be

    ops = [wr(a, draw(port_word(k, bc)), fb, gap=draw(gap), lead=draw(st.integers(0, 2))) for a in range(nd)]
    for _ in range(draw(st.integers(1, 5))):
        a = draw(st.integers(0, nd - 1))
        ops.append(wr(a, draw(port_word(k, bc)), pattern(), gap=draw(gap), lead=draw(st.integers(0, 1))))
        if draw(st.booleans()):
            ops.append(rd(a, gap=draw(gap)))
    for a in range(nd):
        ops.append(rd(a))
    nr = sum(1 for o in ops if not o["we"])
    return dict(cfg=cfg, part="be_full" if full else "be_partial", segs=[dict(ops=ops, flips=[0] * nr, inject=0)],
                slave=draw(slave_st()), wait_reads=draw(st.booleans()))


# ---------------------------------------------------------------------------------------------------
# shards
NFLIP = 16


def shards(tier, seed):
    key = draw_examples(st.integers(1 << 32, (1 << 64) - 1), 5, seed * 1000 + 777)[-1]
    cfgs = all_cfgs(tier)
    units = []
    for cfg in cfgs:
        fpb, nd, per, nflip, ninj = batch_plan(cfg, tier, key)
        nb = nflip + ninj
        cyc = fpb * per * 1.4 + nd * 2 + 12
        total = nb * cyc * cost_ms(cfg)
        units.append((total, cfg, nb, cyc))
    grand = sum(u[0] + build_ms(u[1]) for u in units)
    target = grand / float(NFLIP)
    pieces = []
    for total, cfg, nb, cyc in units:
        # splitting a configuration costs one more elaboration + compilation per piece
        np_ = int(min(NFLIP, nb, max(1, round(total / max(target / 2.0, 2.0 * build_ms(cfg))))))
        for i in range(np_):
            b0 = nb * i // np_
            b1 = nb * (i + 1) // np_
            if b1 > b0:
                pieces.append(((b1 - b0) * cyc * cost_ms(cfg) + build_ms(cfg), cfg, b0, b1))
    pieces.sort(key=lambda p: (-p[0], p[1], p[2]))
    load = [0.0] * NFLIP
    work = [[] for _ in range(NFLIP)]
    for wgt, cfg, b0, b1 in pieces:
        i = min(range(NFLIP), key=lambda x: (load[x], x))
        load[i] += wgt
        work[i].append([cfg, b0, b1])
    out = []
    for i in range(NFLIP):
        # cheapest configuration first: its first batch is the one compared on both simulators
        w = sorted(work[i], key=lambda u: (cost_ms(u[0]), u[0], u[1]))
        out.append(dict(kind="flip", tier=tier, seed=seed * 1000 + i, idx=i, key=key, work=w))
    n = 40 if tier == "quick" else 400
    for j in range(2):
        out.append(dict(kind="mix", tier=tier, seed=seed * 1000 + 100 + j, idx=j, n=n))
    for j in range(2):
        out.append(dict(kind="be_full", tier=tier, seed=seed * 1000 + 200 + j, idx=j, n=n // 2))
    for j in range(2):
        out.append(dict(kind="be_partial", tier=tier, seed=seed * 1000 + 300 + j, idx=j, n=n))
    return out


def quiet_filter(col, fs):
    return [f for f in fs if match_known(col.known, f) is None]


def diff_case(case, col):
    """run one case on both simulators, compare every observed signal on every cycle"""
    if FORCE_MIGEN:
        return
    ta, tb = [], []
    evaluate(case, "fast", trace=ta)
    evaluate(case, "migen", trace=tb)
    if len(ta) != len(tb):
        raise HarnessError("fastsim and migen.sim ran a different number of cycles (%d vs %d) cfg=%s" % (len(ta), len(tb), cfg_key(case["cfg"])))
    for c in range(len(ta)):
        if ta[c] != tb[c]:
            bad = [i for i in range(len(ta[c])) if ta[c][i] != tb[c][i]]
            raise HarnessError("fastsim differs from migen.sim at cycle %d signal indexes %s cfg=%s" % (c, bad[:5], cfg_key(case["cfg"])))
    col.diff_cycles += len(ta)


def shrink_for_diff(case, tier):
    """a short prefix of the shard's first case (stock migen.sim needs ~0.6 s per cycle on the 8 x 64-bit configuration)"""
    big = case["cfg"][0] * case["cfg"][1] > 256
    nr = 3 if (big and tier == "quick") else 8
    seg = case["segs"][0]
    ops, flips, r = [], [], 0
    for op in seg["ops"]:
        if op["we"]:
            ops.append(op)
        elif r < nr:
            ops.append(op)
            flips.append(seg["flips"][r])
            r += 1
    c = dict(case)
    c["segs"] = [dict(ops=ops, flips=flips, inject=seg.get("inject", 0))]
    return c


class Recorder:
    """first failing case per clause; the search is not stopped by a finding"""

    def __init__(self, col):
        self.col = col
        self.first = {}      # clause -> (case, finding)
        self.count = {}

    def take(self, case, fs):
        for f in self.col.filter(fs):
            self.count[f["clause"]] = self.count.get(f["clause"], 0) + 1
            if f["clause"] not in self.first:
                self.first[f["clause"]] = (case, f)

    def violation(self):
        """minimise + confirm every recorded clause on stock migen.sim; one violation object carrying one finding per clause"""
        if not self.first:
            return None
        out = []
        vcase = None
        for clause in sorted(self.first):
            case, f = self.first[clause]
            part = case["part"]
            chosen = None
            for cand in minimal_cases(case, f):
                obs = evaluate(cand, "fast")
                f2, _ = oracle(cand, obs, part, book=secded.CodeBook(cand["cfg"][0]))
                if any(x["clause"] == clause for x in quiet_filter(self.col, f2)):
                    chosen = cand
                    break
            if chosen is None:
                raise HarnessError("finding %s does not reproduce when its case is evaluated again" % clause)
            if chosen is case:
                def fails(trial, clause=clause, part=part):
                    try:
                        o2 = evaluate(trial, "fast")
                        f4, _ = oracle(trial, o2, part, book=secded.CodeBook(trial["cfg"][0]))
                    except Exception:      # a candidate that cannot be evaluated is not a reduction
                        return False
                    return any(x["clause"] == clause for x in quiet_filter(self.col, f4))
                chosen = ddmin_case(case, fails)
            obs = evaluate(chosen, "migen")
            f3, _ = oracle(chosen, obs, part, book=secded.CodeBook(chosen["cfg"][0]))
            f3 = [x for x in quiet_filter(self.col, f3) if x["clause"] == clause]
            if not f3:
                raise HarnessError("finding %s from fastsim does not reproduce on migen.sim (cfg %s)" % (clause, cfg_key(chosen["cfg"])))
            g = dict(f3[0])
            g.pop("repro", None)
            g["seen_in_shard"] = self.count[clause]
            g["minimal_case"] = chosen
            out.append(g)
            if vcase is None:
                vcase = chosen
        return dict(case=vcase, findings=out, confirmed_on="migen.sim")


def account(col, recs):
    for r in recs:
        if r["kind"] == "meta":
            col.classes[r["cls"]] += 1
        else:
            col.case(r["obj"], classes=[r["cls"], "k=%d" % r["obj"][0][0]], nontrivial=r["nontrivial"], sample=r["sample"])


def run_flip_shard(sh):
    col = Collector(ID)
    rec = Recorder(col)
    tier, key = sh["tier"], sh["key"]
    books = {}
    first = True
    for ui, (cfg, b0, b1) in enumerate(sh["work"]):
        fpb, nd, per, nflip, ninj = batch_plan(cfg, tier, key)
        pool = draw_examples(pool_entry(cfg, nd), max(2, min(12, b1 - b0)), sh["seed"] * 100 + ui)
        items = flip_items(cfg, tier, key)
        book = books.setdefault(cfg[0], secded.CodeBook(cfg[0]))
        for b in range(b0, b1):
            case = make_batch(cfg, tier, key, b, pool, items)
            if first:
                first = False
                if tier == "quick" and cfg[0] * cfg[1] > 256:
                    # stock migen.sim needs ~0.6 s per cycle on the 8 x 64-bit device: the quick tier compares the simulators on the
                    # same lane logic with 2 lanes, the thorough tier on the configuration itself
                    small = [cfg[0], 2, cfg[2]]
                    spool = draw_examples(pool_entry(small, nd), 2, sh["seed"] * 100 + 99)
                    diff_case(shrink_for_diff(make_batch(small, tier, key, 0, spool), tier), col)
                else:
                    diff_case(shrink_for_diff(case, tier), col)
            obs = evaluate(case, "fast")
            fs, recs = oracle(case, obs, "secded", book=book)
            account(col, recs)
            col.stats["simulated_cycles"] = col.stats.get("simulated_cycles", 0) + obs.cycles
            rec.take(case, fs)
    for k, book in sorted(books.items()):
        col.stats["codeword_pairs_distance_checked"] = col.stats.get("codeword_pairs_distance_checked", 0) + book.pairs_checked
        col.stat_min("min_codeword_distance_seen", book.min_seen)
        col.stats["stored_words_equal_reference_encoder"] = col.stats.get("stored_words_equal_reference_encoder", 0) + book.ref_match
        col.stats["stored_words_differ_from_reference_encoder"] = col.stats.get("stored_words_differ_from_reference_encoder", 0) + book.ref_differ
    if sh["idx"] == 0:
        bad = sum(secded.selfcheck(k, [0, (1 << k) - 1, 0x5a5a5a5a5a5a5a5a & ((1 << k) - 1)]) for k in (8, 16, 32))
        if bad:
            raise HarnessError("lib/secded.py reference codec fails its own exhaustive single/double flip check")
    return col.result(rec.violation())


def run_hyp_shard(sh):
    col = Collector(ID)
    rec = Recorder(col)
    tier = sh["tier"]
    cfgs = all_cfgs(tier)
    # generated traffic: keep the expensive 8 x 64 configurations rare
    cheap = [c for c in cfgs if c[0] * c[1] <= 256]
    big = [c for c in cfgs if c[0] * c[1] > 256]
    if tier == "quick":
        pick = cheap + cheap + cheap + [big[sh["idx"] % len(big)]]
    else:
        pick = cheap + cheap + cfgs
    kind = sh["kind"]
    books = {}
    state = dict(first=True)
    if kind == "mix":
        strat = mix_case(pick)
    else:
        strat = be_case(pick, full=(kind == "be_full"))

    def test(case):
        if state["first"]:
            state["first"] = False
            if case["cfg"][0] * case["cfg"][1] <= 256:
                diff_case(case, col)
        obs = evaluate(case, "fast")
        book = books.setdefault(case["cfg"][0], secded.CodeBook(case["cfg"][0]))
        fs, recs = oracle(case, obs, case["part"], book=book if kind == "mix" else None)
        if kind == "mix":
            flipped = any(any(s["flips"]) for s in case["segs"])
            col.case([case["cfg"], case["segs"], case["slave"]], classes=["traffic " + case["mode"], "k=%d" % case["cfg"][0]],
                     nontrivial=True, sample=dict(cfg=cfg_key(case["cfg"]), mode=case["mode"], ops=sum(len(s["ops"]) for s in case["segs"]), flipped=flipped))
            for r in recs:
                if r["kind"] != "meta":
                    col.classes["traffic read: " + r["cls"]] += 1
                else:
                    col.classes[r["cls"]] += 1
        else:
            account(col, recs)
        col.stats["simulated_cycles"] = col.stats.get("simulated_cycles", 0) + obs.cycles
        rec.take(case, fs)
        return []

    hyp_search(test, strat, sh["seed"], sh["n"], shrink=False)
    return col.result(rec.violation())


def _roomy(fn, nslots=33000):
    """Performance only.  CPython >= 3.11 keeps frames on a chunked data stack; a frame that does not fit into the current
    16 KB chunk gets a chunk of its own, mmap-ed at the call and unmapped at the return.  The compiled comb function of the
    8-lane devices has ~3600 locals, so every simulated cycle paid two mmap/munmap pairs plus page faults (measured: 11 ms per
    cycle, 85 % of it system time; stock migen.sim's deep recursion suffers the same).  Calling the work from a function whose
    own frame forces a 512 KB chunk leaves ~250 KB of that chunk free for the nested frames (0.7 ms per cycle)."""
    src = "def big(fn):\n " + "=".join("a%d" % i for i in range(nslots)) + "=None\n return fn()\n"
    ns = {}
    exec(src, ns)
    return ns["big"](fn)


def run_shard(sh):
    if sh["kind"] == "flip":
        return _roomy(lambda: run_flip_shard(sh))
    return _roomy(lambda: run_hyp_shard(sh))


def replay(case):
    def go():
        col = Collector(ID)
        obs = evaluate(case, "migen")
        fs, _ = oracle(case, obs, case.get("part", "secded"), book=secded.CodeBook(case["cfg"][0]))
        return quiet_filter(col, fs)
    return _roomy(go)
