"""C20 LPDDR4/LPDDR5 PHY translate each DFI command into the matching CA sequence.

Generated DFI command schedules (all command kinds, random address/bank bits, spacings from "next phase" to far apart) are
driven into the LPDDR4 adapters + CommandsPipeline (basic and extended overlap check), the LPDDR4PHY core, the double-rate
LPDDR4 PHY, the LPDDR5 adapter and the LPDDR5PHY core.  The CS/CA output stream is decoded slot by slot with the independent
JEDEC truth-table decoders of lib/jedec_ca.py and must equal, command for command, slot for slot and bit for bit, the list of
DFI commands that were not overlapped by a still-running multi-slot command."""
import copy, time
import lib.compat  # noqa
from hypothesis import strategies as st
from lib.runner import Collector, hyp_search, match_known
from lib.fastsim import HarnessError
from lib import cacase as cc

ID = "C20"
LEVEL = "exploration"
RULE = ("case = (device, idle-phase style, masked_write pattern, list of 30-260 DFI commands [gap to the previous command in DFI phases, kind, address|bank bits]) "
        "on one of 10 devices: LPDDR4 adapters+CommandsPipeline (basic / extended check, masked_write driven per cycle), LPDDR4PHY core (MASKED-WRITE+basic, WRITE+extended), "
        "DoubleRateLPDDR4PHY (sys+sys2x), LPDDR4SimPHY and DoubleRateLPDDR4SimPHY at the serial CS/CA pads, LPDDR5 DFIPhaseAdapter, LPDDR5PHY core (MASKED-WRITE / WRITE16); "
        "kinds ACT RD WR PRE REF MRW MRR MPC (+LPDDR5 NOP, +ZQC with an unassigned bank and cs_n-low NOP which must emit nothing); oracle = JEDEC decode of the CS/CA stream "
        "== DFI commands not overlapped, each at slot latency+phase with identical bank/row/column/AP/AB/MA/OP bits; non-trivial = the case contains a suppressed (overlapped) "
        "command AND a command in the last phases of a cycle whose sequence spills into the next cycle AND >= 3 different operations emitted (bare LPDDR5 adapter, which has no overlap logic: commands in consecutive cycles instead of an overlap); distinct = distinct case digests; "
        "per shard every operand bit of every operation is required to have been emitted both as 0 and as 1 (classes 'toggled <family>.<op>.<field>', harness error otherwise); "
        "plus one exhaustive shard over all 128 LPDDR4 / 256 LPDDR5 MPC op codes")
ASSUMPTIONS = [
    "lib/jedec_ca.py transcribes the JESD209-4 / JESD209-5 command truth tables from memory of the standards (not from litedram); it is part of the trusted base",
    "DFI encoding of commands = the SDRAM pin code used by litedram's multiplexer/refresher/init sequence; MRW: bank=MA, address[7:0]=OP; ZQC+bank 0 = MPC (address=OP), "
    "ZQC+bank 1 = MRR (address=MA), ZQC+bank 2 = LPDDR5 NOP (commands.py docstrings, init.py)",
    "'overlapped' per CommandsPipeline's documentation: basic check = any DFI command (sent or not) on the previous span-1 phases suppresses; extended check and the LPDDR5 PHY "
    "= only a command actually sent suppresses; every DFI command occupies the full window (LPDDR4 4 CK, LPDDR5 2 CK), single-word commands (PRE, REF, MPC, NOP) are placed "
    "in the second half of the window as the adapters document",
    "slot latency is a per-device constant taken from the sources' own bookkeeping: LPDDR4PHY ca_latency = 1 controller cycle, double-rate + Serializer.LATENCY (1 sys), "
    "sim PHYs + their ser_latency (1 sys, resp. 1 sys2x), LPDDR5PHY 0",
    "multi-clock devices are clocked like upstream's tests (all domains rise together, serdes_reset_cnt=-1 for the double-rate wrapper); in the pad-level sim PHYs the DQ/DQS "
    "serialiser domains (sys8x_ddr, sys8x_90, sys8x_90_ddr), which do not feed CS/CA, run at the sys8x rate to save ticks; vendor SERDES PHYs (S7 ...) are not simulated",
    "single rank (nranks = 1); V / X truth-table bits are not compared; BL (on-the-fly burst) is required 0; LPDDR5 column = DFI address[9:4] (B3:B0 are not transmitted), "
    "LPDDR4 column = address[9:2]; CAS WCK-sync operand: bare adapter exactly as its docstring says, inside LPDDR5PHY either the matching sync type or none (WCK state machine is out of scope)",
    "LPDDR5 MPC with DFI address 0 (the controller's ZQCS) is mapped by commands.py to MPC ZQCal Latch (0x86): taken from the code, exercised but not judged",
    "LPDDR4 MPC op codes RD FIFO / RD DQ CAL / WR FIFO (need a trailing CAS-2) are excluded from the random campaign and judged by the exhaustive MPC shard only",
    "violations are confirmed on stock migen.sim before being reported; fastsim alone never produces a verdict",
]

KW = {"l4": ["ACT"] * 3 + ["RD"] * 3 + ["WR"] * 3 + ["PRE"] * 2 + ["REF"] * 2 + ["MRW"] * 2 + ["MRR"] * 2 + ["MPC"] * 2 + ["ZQX", "NOPCS"],
      "l5": ["ACT"] * 3 + ["RD"] * 3 + ["WR"] * 3 + ["PRE"] * 2 + ["REF"] * 2 + ["MRW"] * 2 + ["MRR"] * 2 + ["MPC"] * 2 + ["L5NOP", "ZQX", "NOPCS"]}
# gap tables (in DFI phases), one is chosen per case: dense (mostly overlapping), mixed, sparse (mostly legal spacing)
GAPS = {"l4": [[1, 1, 2, 2, 3, 3, 3, 4, 4, 5, 6, 8], [1, 1, 2, 2, 3, 3, 4, 4, 4, 4, 5, 5, 6, 7, 8, 8, 9, 11, 13, 16, 24, 40], [1, 2, 3, 4, 4, 5, 6, 7, 8, 9, 11, 13, 16, 24, 40]],
        "l5phy": [[1, 1, 1, 2, 2, 3], [1, 1, 2, 2, 2, 2, 3, 3, 4, 5, 8], [1, 2, 2, 3, 4, 5, 8, 12]],
        "l5adapter": [[1, 1, 1, 2], [1, 1, 1, 2, 3], [1, 2, 3, 5]]}
FIELDS = {   # operand fields whose every bit must be seen 0 and 1: (family, op) -> [(field, lowest bit, number of bits)]
    "l4": {"ACT": [("bank", 0, 3), ("row", 0, 17)], "RD": [("bank", 0, 3), ("col", 2, 8), ("ap", 0, 1)], "WR": [("bank", 0, 3), ("col", 2, 8), ("ap", 0, 1)],
           "MWR": [("bank", 0, 3), ("col", 2, 8), ("ap", 0, 1)], "PRE": [("bank", 0, 3), ("ab", 0, 1)], "REF": [("bank", 0, 3), ("ab", 0, 1)],
           "MRW": [("ma", 0, 6), ("mr_op", 0, 8)], "MRR": [("ma", 0, 6)], "MPC": [("mpc_op", 0, 7)]},
    "l5": {"ACT": [("bank", 0, 4), ("row", 0, 18)], "RD16": [("bank", 0, 4), ("col", 0, 6), ("ap", 0, 1)], "WR16": [("bank", 0, 4), ("col", 0, 6), ("ap", 0, 1)],
           "MWR": [("bank", 0, 4), ("col", 0, 6), ("ap", 0, 1)], "PRE": [("bank", 0, 4), ("ab", 0, 1)], "REF": [("bank", 0, 3), ("ab", 0, 1)],
           "MRW": [("ma", 0, 7), ("mr_op", 0, 8)], "MRR": [("ma", 0, 7)], "MPC": [("mpc_op", 0, 8)]},
}
WS_CODE = {"WR": 1, "RD": 2}     # litedram.phy.lpddr5.commands.WCKSyncType values on the adapter's wck_sync output


# ------------------------------------------------------------------------------------------------ strategies
SIZES = {"l4": [60, 160, 260, 260], "l5phy": [30, 70, 100, 100], "l5adapter": [30, 80, 120, 120]}
_M = (1 << 64) - 1


def _mix(salt, i, j):
    """splitmix64-style bit mixer: a pure function of Hypothesis-drawn values.  Hypothesis' first examples are 'simple'
    (small integers, first list elements); adding this pad to every drawn field keeps its full control over the value
    (any value stays reachable, shrinking still works on the drawn part) while even the first cases are dense in all bits."""
    z = (salt * 0x9E3779B97F4A7C15 + i * 0xBF58476D1CE4E5B9 + j * 0x94D049BB133111EB + 0x2545F4914F6CDD1D) & _M
    z = ((z ^ (z >> 30)) * 0xBF58476D1CE4E5B9) & _M
    z = ((z ^ (z >> 27)) * 0x94D049BB133111EB) & _M
    return z ^ (z >> 31)


def case_strategy(dev, tier):
    spec = cc.DEVICES[dev]
    fam = spec["fam"]
    gkey = "l4" if fam == "l4" else ("l5phy" if spec["kind"] == "phy" else "l5adapter")
    gap_tables, kinds, sizes = GAPS[gkey], KW[fam], SIZES[gkey]
    nmax = max(sizes)
    raw = st.tuples(st.integers(0, 255), st.integers(0, 255), st.integers(0, (1 << 25) - 1))

    def build(t):
        salt, idle, den, mw, junk, nsel, rows = t
        n = sizes[(nsel + _mix(salt, 0, 7)) % len(sizes)]
        gaps = gap_tables[(nsel // 4 + _mix(salt, 0, 9)) % len(gap_tables)]
        cmds = []
        for i, (g, k, o) in enumerate(rows[:n]):
            opnd = o ^ (_mix(salt, i, 3) & ((1 << 25) - 1))
            sel = _mix(salt, i, 10) % 24
            if sel == 0:
                opnd = 0                              # boundary operands: all address and bank bits zero ...
            elif sel == 1:
                opnd = (1 << 25) - 1                  # ... all ones ...
            elif sel == 2:
                opnd &= ~((1 << 18) - 1)              # ... address zero with any bank (mode-register writes of the value 0) ...
            elif sel == 3:
                opnd = 1 << (_mix(salt, i, 11) % 25)  # ... a single bit
            cmds.append([gaps[(g + _mix(salt, i, 1)) % len(gaps)], kinds[(k + _mix(salt, i, 2)) % len(kinds)], opnd])
        return dict(dev=dev, idle=(idle + _mix(salt, 0, 4)) % 3, den=(den + _mix(salt, 0, 5)) % 2,
                    mw=[(m + _mix(salt, i, 6)) % 4 for i, m in enumerate(mw)],
                    junk=[j ^ (_mix(salt, i, 8) & ((1 << 25) - 1)) for i, j in enumerate(junk)], cmds=cmds)

    return st.tuples(st.integers(0, (1 << 32) - 1), st.integers(0, 2), st.integers(0, 1),
                     st.lists(st.integers(0, 3), min_size=1, max_size=5),
                     st.lists(st.integers(0, (1 << 25) - 1), min_size=1, max_size=4),
                     st.integers(0, 11), st.lists(raw, min_size=nmax, max_size=nmax)).map(build)


# ------------------------------------------------------------------------------------------------ oracle
def _ctx(case, info, i):
    spec = cc.DEVICES[case["dev"]]
    nph = cc.NPHASES[spec["fam"]]
    if i is None:
        return ""
    s = info["pos"][i]
    g, k, o = case["cmds"][i]
    fields = cc.dfi_fields(spec["fam"], k, o)
    return "command #%d %s at cycle %d phase %d (gap %d, address 0x%x bank 0x%x)" % (i, k, s // nph, s % nph, g, fields[4], fields[5])


def _nearest(info, t_slot):
    best = None
    for i, s in enumerate(info["pos"]):
        if info["meaning"][i] is not None and (best is None or abs(s - t_slot) < abs(info["pos"][best] - t_slot)):
            best = i
    return best


def compare(case, run, dec, exp, info):
    """first disagreement between the decoded stream and the expected command list -> [finding]"""
    dev = case["dev"]
    spec = cc.DEVICES[dev]
    fam, kind = spec["fam"], spec["kind"]
    lat = cc.LATENCY[(fam, kind)]
    E = {}
    for e in exp:
        E[e["t"]] = e
    D = {}
    for d in dec:
        D.setdefault(d["t"], d)

    def out(symptom, key, what, slot):
        return [dict(clause="C20.%s.%s" % (fam, symptom), key=key, what=what)]
    for t in sorted(set(E) | set(D)):
        d, e = D.get(t), E.get(t)
        if d is not None and d["op"] == "TRUNCATED":
            continue
        slot = (t - lat) // (2 if kind == "adapter" else 1)
        i = e["i"] if e is not None else _nearest(info, slot)
        if d is not None and d["op"] == "ILLEGAL":
            if d.get("first") == "MPC" and e is not None and e["op"] == "MPC":
                return [dict(clause="C20.%s.mpc_training_without_cas2" % fam, key="%s:MPC op=0x%02x" % (fam, d["mpc_op"]),
                             what="%s: bus slot %d carries '%s'; DFI %s is emitted as DESELECT + MPC with no CAS-2 behind it, which JESD209-4 requires for the "
                                  "RD FIFO / RD DQ CAL / WR FIFO op codes" % (dev, t, d["why"], _ctx(case, info, i)))]
            return out("illegal_sequence", "%s:illegal" % dev, "%s: bus slot %d is not a JEDEC command sequence (%s); expected there: %s; nearest DFI %s" % (
                dev, t, d["why"], _fmt(e), _ctx(case, info, i)), slot)
        if e is None:
            sup = ""
            if i is not None and not info["sent"][i]:
                sup = " (that command overlaps an earlier one and must be suppressed)"
            return out("unexpected_command", "%s:unexpected" % dev,
                       "%s: bus slot %d carries %s but no DFI command maps to that slot; nearest DFI %s%s" % (dev, t, _fmt(d), _ctx(case, info, i), sup), slot)
        if d is None:
            return out("missing_command", "%s:missing" % dev,
                       "%s: %s not overlapped by any command in flight must appear at bus slot %d as %s, nothing is there" % (dev, _ctx(case, info, i), t, _fmt(e)), slot)
        if d["op"] != e["op"]:
            return out("operation", "%s:%s->%s" % (dev, e["op"], d["op"]),
                       "%s: %s must be emitted as %s at bus slot %d, the bus decodes to %s" % (dev, _ctx(case, info, i), _fmt(e), t, _fmt(d)), slot)
        bad = []
        for k, v in e.items():
            if k in ("t", "i"):
                continue
            if k == "ws":
                if d.get("ws") not in v:
                    bad.append("ws=%s not in %s" % (d.get("ws"), v))
            elif d.get(k) != v:
                if isinstance(v, int) and isinstance(d.get(k), int):
                    bad.append("%s: bus 0x%x, DFI 0x%x (differing bits 0x%x)" % (k, d[k], v, d[k] ^ v))
                else:
                    bad.append("%s: bus %r, DFI %r" % (k, d.get(k), v))
        if bad:
            fld = bad[0].split(":")[0].split("=")[0]
            return out("operand", "%s:%s.%s" % (dev, e["op"], fld),
                       "%s: %s decodes at bus slot %d to %s with operand mismatch %s" % (dev, _ctx(case, info, i), t, d["op"], "; ".join(bad)), slot)
    if kind == "adapter":
        # the adapter's own flags: valid = a command is presented; wck_sync = sync type requested while WCK is not yet synchronised
        pos = dict(zip(info["pos"], range(len(info["pos"]))))
        mw = case.get("mw") or [1]
        for c, (valid, ws) in enumerate(run["extra"]):
            i = pos.get(c)
            m = info["meaning"][i] if i is not None else None
            wv = 1 if m is not None else 0
            done = (mw[c % len(mw)] >> 1) & 1
            ww = WS_CODE[m["cas"]] if (m is not None and m.get("cas") and not done) else 0
            if valid != wv:
                return [dict(clause="C20.l5.adapter_valid", key="%s:valid" % dev, what="%s: cycle %d valid=%d, expected %d (%s)" % (dev, c, valid, wv, _ctx(case, info, i)))]
            if ws != ww:
                return [dict(clause="C20.l5.adapter_wck_sync", key="%s:wck_sync" % dev,
                             what="%s: cycle %d wck_sync=%d, expected %d with wck_sync_done=%d (%s)" % (dev, c, ws, ww, done, _ctx(case, info, i)))]
    return []


def _fmt(e):
    if e is None:
        return "nothing"
    return e["op"] + "(" + ", ".join("%s=%s" % (k, ("0x%x" % v) if isinstance(v, int) else v) for k, v in e.items()
                                     if k not in ("op", "t", "i", "name", "why", "first", "ws_wr", "ws_rd", "ws_fs")) + ")"


def account(case, exp, info, bitcov):
    spec = cc.DEVICES[case["dev"]]
    fam, kind = spec["fam"], spec["kind"]
    nph = cc.NPHASES[fam]
    classes = [case["dev"], "idle_style_%d" % case.get("idle", 0)]
    ops = set()
    spill = False
    for e in exp:
        if e["op"] == "CAS":
            continue
        ops.add(e["op"])
        classes.append("%s.%s" % (fam, e["op"]))
        for fld, lo, nb in FIELDS[fam].get(e["op"], ()):
            z = bitcov.setdefault((fam, e["op"], fld, lo, nb), [0, 0, 0])
            v = e[fld] >> lo
            z[0] |= v
            z[1] |= ~v & ((1 << nb) - 1)
            z[2] += 1
        s = info["pos"][e["i"]]
        if fam == "l4":
            spill = spill or (s % 8) >= 5
        else:
            spill = True
    nsup = sum(1 for m, s in zip(info["meaning"], info["sent"]) if m is not None and not s)
    if nsup:
        classes.append("overlap_suppressed")
    if spill:
        classes.append("spills_into_next_cycle")
    if any(info["chain"]):
        classes.append("basic_check_suppressed_behind_suppressed")
    gaps = set(max(1, g) for g, k, o in case["cmds"])
    for g in (1, 2, 3, 4):
        if g in gaps:
            classes.append("%s_gap_%d" % (fam, g))
    if any(g >= 16 for g in gaps):
        classes.append("%s_gap_16+" % fam)
    if any(m is None for m in info["meaning"]):
        classes.append("non_command_dfi_codes")
    classes = sorted(set(classes))
    if kind == "adapter":     # no overlap handling in the bare adapter: back-to-back cycles instead
        nontrivial = (1 in gaps) and spill and len(ops) >= 3
    else:
        nontrivial = bool(nsup) and spill and len(ops) >= 3
    return classes, nontrivial, nsup


def evaluate(case, backend="fast", bitcov=None):
    run = cc.run_case(case, backend)
    dec = cc.decode(case, run)
    exp, info = cc.expected(case)
    fs = compare(case, run, dec, exp, info)
    classes, nontrivial, nsup = account(case, exp, info, bitcov if bitcov is not None else {})
    nph = cc.NPHASES[cc.DEVICES[case["dev"]]["fam"]]
    sample = dict(dev=case["dev"], commands=len(case["cmds"]), cycles=run["cycles"], emitted=sum(info["sent"]), suppressed=nsup,
                  idle=case.get("idle"), first=[[info["pos"][i] // nph, info["pos"][i] % nph, c[1], hex(c[2])] for i, c in enumerate(case["cmds"][:8])])
    st_ = dict(cycles=run["cycles"], presented=sum(1 for m in info["meaning"] if m is not None), emitted=sum(info["sent"]), suppressed=nsup,
               chain=sum(info["chain"]))
    return fs, classes, nontrivial, sample, st_


def quiet(col, fs):
    return [f for f in fs if match_known(col.known, f) is None]


# ------------------------------------------------------------------------------------------------ minimisation
def ddmin_cmds(case, fails, budget_s=45):
    t0 = time.time()
    cur = copy.deepcopy(case)

    def drop(c, i, n, keep_positions):
        t = copy.deepcopy(c)
        removed = t["cmds"][i:i + n]
        del t["cmds"][i:i + n]
        if keep_positions and i < len(t["cmds"]):
            t["cmds"][i][0] += sum(max(1, r[0]) for r in removed)
        return t
    chunk = max(1, len(cur["cmds"]) // 2)
    while chunk >= 1 and time.time() - t0 < budget_s:
        i = 0
        while i < len(cur["cmds"]) and time.time() - t0 < budget_s:
            done = False
            for keep in (True, False):
                t = drop(cur, i, chunk, keep)
                if t["cmds"] and fails(t):
                    cur = t
                    done = True
                    break
            if not done:
                i += chunk
        chunk //= 2
    # pull the start towards cycle 0 and zero operands / patterns where the failure survives
    for trial_fn in (lambda t: t["cmds"][0].__setitem__(0, 1 + (t["cmds"][0][0] - 1) % 8),
                     lambda t: t.__setitem__("idle", 0), lambda t: t.__setitem__("junk", [0]), lambda t: t.__setitem__("mw", [t["mw"][0]]),
                     lambda t: t.__setitem__("den", 0)):
        if time.time() - t0 > budget_s:
            break
        t = copy.deepcopy(cur)
        trial_fn(t)
        if fails(t):
            cur = t
    for k in range(len(cur["cmds"])):
        if time.time() - t0 > budget_s:
            break
        t = copy.deepcopy(cur)
        t["cmds"][k][2] = 0
        if fails(t):
            cur = t
    return cur


# ------------------------------------------------------------------------------------------------ shards
PLAN = [  # (device, number of shards, case-count multiplier)
    ("l4pipe_basic", 2, 1.0), ("l4pipe_ext", 2, 1.0), ("l4phy_mw", 2, 1.0), ("l4phy_wr_ext", 1, 1.0), ("l4dr_mw", 2, 1.0),
    ("l4simphy_pads", 1, 0.25), ("l4drsimphy_pads", 1, 0.25), ("l5adapter", 1, 2.0), ("l5phy_mw", 2, 1.5), ("l5phy_wr", 1, 2.0)]


def shards(tier, seed):
    per = 80 if tier == "quick" else 3000
    out = []
    for dev, n, mult in PLAN:
        for k in range(n):
            i = len(out)
            out.append(dict(kind="search", dev=dev, idx=i, tier=tier, seed=seed * 1000 + i, ncases=max(8, int(per * mult))))
    out.append(dict(kind="mpc_enum", idx=len(out), tier=tier, seed=seed * 1000 + len(out)))
    return out


def confirm(col, case, clause):
    f_m = quiet(col, evaluate(case, "migen")[0])
    if not any(f["clause"] == clause for f in f_m):
        raise HarnessError("finding %s from fastsim does not reproduce on migen.sim (device %s)" % (clause, case["dev"]))
    return [f for f in f_m if f["clause"] == clause] + [f for f in f_m if f["clause"] != clause]


def run_enum(sh, col):
    """exhaustive: every MPC op code, alone on the bus, must come out as a complete JEDEC sequence with the same OP"""
    violation = None
    bad = []
    for dev, n in (("l4pipe_basic", 128), ("l4phy_mw", 128), ("l4dr_mw", 128), ("l5phy_mw", 256), ("l5adapter", 256)):
        for op in range(n):
            case = dict(dev=dev, idle=0, den=0, mw=[1], junk=[0], cmds=[[1 + op % 8, "MPC_RAW", op]])
            fs, classes, nontrivial, sample, st_ = evaluate(case)
            col.case(case, classes=["mpc_enum " + dev], nontrivial=False)
            unknown = col.filter(fs)
            if unknown:
                bad.append((case, unknown))
    col.stats["mpc_opcodes_enumerated"] = col.evals
    if bad:
        case, fs = bad[0]
        clause = fs[0]["clause"]
        f_m = confirm(col, case, clause)
        others = [f for c, ff in bad[1:] for f in ff if f["clause"] == clause and c["dev"] == case["dev"]]
        violation = dict(case=case, findings=f_m + others, confirmed_on="migen.sim")
    return col.result(violation)


def run_shard(sh):
    col = Collector(ID)
    if sh["kind"] == "mpc_enum":
        return run_enum(sh, col)
    dev, tier = sh["dev"], sh["tier"]
    bitcov = {}
    state = dict(n=0)
    ndiff = 1 if tier == "quick" else 3

    def test(case):
        if state["n"] < ndiff:
            short = dict(case)
            short["cmds"] = case["cmds"][:30 if cc.DEVICES[dev].get("kind") in ("simphy", "drsimphy") else 150]
            col.diff_cycles += cc.diff_selftest(short)
        state["n"] += 1
        fs, classes, nontrivial, sample, st_ = evaluate(case, "fast", bitcov)
        col.case(case, classes=classes, nontrivial=nontrivial, sample=sample)
        for k, v in st_.items():
            col.stats["total_" + k] = col.stats.get("total_" + k, 0) + v
        col.stat_max("max_cycles_per_case", st_["cycles"])
        return col.filter(fs)

    # minimisation is done by ddmin_cmds below in both tiers (bounded in time; Hypothesis' own shrinker has no time cap in hyp_search)
    found = hyp_search(test, case_strategy(dev, tier), sh["seed"], sh["ncases"], shrink=False)
    violation = None
    if found:
        case, fs = found
        clause = fs[0]["clause"]

        def fails(c):
            try:
                f2 = quiet(col, evaluate(c)[0])
            except Exception:      # a candidate that cannot be evaluated is not a reduction
                return False
            return any(f["clause"] == clause for f in f2)
        case = ddmin_cmds(case, fails, 45 if tier == "quick" else 120)
        violation = dict(case=case, findings=confirm(col, case, clause), confirmed_on="migen.sim")
    else:
        fam = cc.DEVICES[dev]["fam"]
        spec = cc.DEVICES[dev]
        for op, flds in FIELDS[fam].items():
            if spec["masked"] is True and op in ("WR", "WR16"):
                continue
            if spec["masked"] is False and op == "MWR":
                continue
            for fld, lo, nb in flds:
                z = bitcov.get((fam, op, fld, lo, nb), [0, 0, 0])
                full = (1 << nb) - 1
                name = "%s.%s.%s[%d:%d]" % (fam, op, fld, lo + nb - 1, lo)
                if z[0] == full and z[1] == full:
                    col.classes["toggled " + name] += 1
                else:
                    raise HarnessError("operand bits not exercised both ways on %s: %s ones=0x%x zeros=0x%x over %d commands" % (dev, name, z[0], z[1], z[2]))
                col.stat_min("min_commands_per_operand_field", z[2])
    return col.result(violation)


def replay(case):
    col = Collector(ID)
    return quiet(col, evaluate(case, "migen")[0])
