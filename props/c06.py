"""C06 Port addresses map one-to-one onto DRAM locations.

Static part (exhaustive per small geometry): the REAL crossbar (elaborated controller + crossbar, one port) is poked combinationally
with every port address and the bank select / row-column address it routes is read back; the REAL _AddressSlicer is evaluated on every
row-column address.  Oracle: injective + onto, equality with the independent map lib/addrmap.py, A10 never a column bit, burst alignment.
Dynamic part: single commands through the whole core, ACT/RD/WR bank,row,column on DFI against the independent map (C02's monitor)."""
import itertools
import lib.compat  # noqa
from migen import *
from hypothesis import strategies as st
from lib.runner import Collector, hyp_search, digest
from lib import corecase as cc
from lib.core import CoreDUT, address_align
from lib.fastsim import compile_dut, FastSim, MigenSim, HarnessError
from lib.addrmap import AddrMap

ID = "C06"
REQUIRED_CLASSES = ['colbits>10', '2 ranks', 'bank_byte_alignment', 'exhaustive', 'dynamic']      # classes that must occur in every run (else harness error: vacuous generator)
LEVEL = "exploration"
RULE = ("case = geometry (memtype/burst alignment, bankbits 1-4, rowbits, colbits 8-12, ranks 1-2, bank_byte_alignment) ; per geometry EVERY port address when the "
        "address space is <= 2^17 (else 20 000 generated addresses incl. all single-carry neighbours) is routed through the real crossbar and slicer; non-trivial = geometry has "
        "colbits > 10, or 2 ranks, or a non-default bank alignment; distinct = distinct geometry digests")
ASSUMPTIONS = ["bank_byte_alignment is 0 or a power of two between one data word and the row-column space of one rank (larger values cannot be honoured by any mapping)",
               "lib/addrmap.py is written from the documentation of the mapping (column low, bank field with rank above bank, row high)",
               "the static part reads the crossbar's combinational routing (bankN.valid / bankN.addr) and the _AddressSlicer class; the registered path to DFI is covered by the dynamic part and by C02"]


class SlicerDUT(Module):
    def __init__(self, colbits, align, width):
        from litedram.core.bankmachine import _AddressSlicer
        self.a = Signal(width)
        sl = _AddressSlicer(colbits, align)
        self.row = Signal(width + 2)
        self.col = Signal(colbits + 2)
        self.comb += [self.row.eq(sl.row(self.a)), self.col.eq(sl.col(self.a))]


class XbarDUT(Module):
    def __init__(self, full):
        from litedram.common import LiteDRAMInterface
        from litedram.core.crossbar import LiteDRAMCrossbar
        ctrl = full.controller
        self.interface = LiteDRAMInterface(ctrl.interface.address_align, ctrl.settings)
        self.submodules.crossbar = LiteDRAMCrossbar(self.interface)
        self.ports = [self.crossbar.get_port()]


def geom_cfg(g):
    memtype, nph = g["mem"]
    cfg = dict(memtype=memtype, nphases=nph, dfi_databits=g["dfi"], rdphase=0, wrphase=0, cl=3, cwl=None if memtype in ("SDR", "DDR", "LPDDR") else 5,
               read_latency=4, write_latency=1, nranks=g["nranks"], bankbits=g["bankbits"], rowbits=g["rowbits"], colbits=g["colbits"], clk_freq=100e6,
               timing=dict(tRP=2, tRCD=2, tWR=2, tWTR=2, tREFI=200, tRFC=6, tFAW=None, tCCD=1, tRRD=None, tRC=None, tRAS=None, tZQCS=None),
               ctrl=dict(cmd_buffer_depth=4, with_refresh=False, bank_byte_alignment=g["bba"]), ports=[{}])
    return cfg


@st.composite
def geometries(draw, small, big_cols=False, two_ranks=False):
    mem = draw(st.sampled_from(cc.MEMTYPES))
    dfi = draw(st.sampled_from([8, 16, 32, 64]))
    cfg0 = dict(memtype=mem[0], nphases=mem[1])
    align = address_align(cfg0)
    colbits = draw(st.integers(11 if big_cols else max(8, align + 1), 12))
    bankbits = draw(st.integers(1, 4))
    nranks = 2 if two_ranks else draw(st.sampled_from([1, 1, 2]))
    rowbits = draw(st.integers(1, 5)) if small else draw(st.integers(11, 16))
    wbytes = dfi * mem[1] // 8
    bba = 0
    if draw(st.integers(0, 2)) == 0:
        bba = wbytes << draw(st.integers(0, rowbits + colbits - align))
    return dict(mem=list(mem), dfi=dfi, colbits=colbits, bankbits=bankbits, nranks=nranks, rowbits=rowbits, bba=bba)


def check_geometry(g, col, backend="fast", addr_list=None):
    cfg = geom_cfg(g)
    align = address_align(cfg)
    am = cc.addrmap_of(cfg)
    full = CoreDUT(cfg)           # the real controller decides address_align / widths ...
    if full.interface.address_align != align:
        return [dict(clause="C06.address_align", key="align", what="controller uses address_align=%d, burst length of %s needs %d" % (full.interface.address_align, cfg["memtype"], align))], 0
    dut = XbarDUT(full)           # ... the real crossbar alone is then poked (same settings object, no bank machines: much less comb logic)
    port = dut.ports[0]
    width = len(port.cmd.addr)
    fs = []
    if len(full.ports[0].cmd.addr) != width:
        return [dict(clause="C06.harness", key="w", what="crossbar-only DUT differs from full DUT")], 0
    if width != am.width:
        fs.append(dict(clause="C06.address_width", key="width", what="port address width %d, geometry needs %d bits" % (width, am.width)))
        return fs, 0
    sim = FastSim(compile_dut(dut)) if backend == "fast" else MigenSim(dut)
    rca_w = len(dut.interface.bank0.addr)
    sdut = SlicerDUT(cfg["colbits"], align, rca_w)
    ssim = FastSim(compile_dut(sdut)) if backend == "fast" else MigenSim(sdut)
    nb = 1 << cfg["bankbits"]
    banks = [getattr(dut.interface, "bank%d" % i) for i in range(nb * cfg["nranks"])]
    total = 1 << width
    exhaustive = addr_list is None and total <= (1 << 17)
    if addr_list is None:
        if exhaustive:
            addr_list = range(total)
        else:
            # all single-bit addresses, carries around every field boundary, plus a deterministic spread
            s = set()
            for b in range(width):
                for d in (-2, -1, 0, 1):
                    s.add(((1 << b) + d) % total)
                    s.add((total - (1 << b) + d) % total)
            x = 12345
            while len(s) < 20000 and len(s) < total:
                x = (x * 6364136223846793005 + 1442695040888963407) & ((1 << 64) - 1)
                s.add((x >> 20) % total)
            addr_list = sorted(s)
    seen = {}
    n = 0
    for a in addr_list:
        sim.poke([(port.cmd.valid, 1), (port.cmd.addr, a)])
        sel = [i for i, b in enumerate(banks) if sim.get(b.valid)]
        n += 1
        exp = am.decode(a)
        if len(sel) != 1:
            fs.append(dict(clause="C06.bank_select", key="sel", what="address 0x%x selects banks %s (expected exactly one: rank %d bank %d)" % (a, sel, exp[0], exp[1])))
            break
        bi = sel[0]
        rca = sim.get(banks[bi].addr)
        ssim.poke([(sdut.a, rca)])
        row, colv = ssim.get(sdut.row), ssim.get(sdut.col)
        rank, bank = bi // nb, bi % nb
        # DFI column -> column number: A10 must be 0, bits above it shift down
        if (colv >> 10) & 1:
            fs.append(dict(clause="C06.a10_used_as_column", key="a10", what="address 0x%x: column value 0x%x on the address bus has A10 set" % (a, colv)))
            break
        colnum = (colv & 0x3ff) | ((colv >> 11) << 10)
        got = (rank, bank, row, colnum)
        if colnum % (1 << align):
            fs.append(dict(clause="C06.column_not_burst_aligned", key="align", what="address 0x%x -> column %d not aligned to the burst of %d" % (a, colnum, 1 << align)))
            break
        if got != exp:
            fs.append(dict(clause="C06.map_mismatch", key="map", what="address 0x%x -> (rank,bank,row,col) %s, documentation-derived map says %s [geometry %s]" % (a, got, exp, g)))
            break
        if colnum >= (1 << cfg["colbits"]) or row >= (1 << cfg["rowbits"]):
            fs.append(dict(clause="C06.out_of_device", key="range", what="address 0x%x -> %s outside the device" % (a, got)))
            break
        if got in seen:
            fs.append(dict(clause="C06.not_injective", key="inj", what="addresses 0x%x and 0x%x both reach %s" % (seen[got], a, got)))
            break
        seen[got] = a
    if exhaustive and not fs:
        device = cfg["nranks"] * nb * (1 << cfg["rowbits"]) * (1 << (cfg["colbits"] - align))
        if len(seen) != device:
            fs.append(dict(clause="C06.not_onto", key="onto", what="%d addresses reach %d of %d device bursts" % (total, len(seen), device)))
    return fs, n


def classes_of(g):
    c = []
    if g["colbits"] > 10:
        c.append("colbits>10")
    if g["nranks"] == 2:
        c.append("2 ranks")
    if g["bba"]:
        c.append("bank_byte_alignment")
    return c


def shards(tier, seed):
    ns = 16
    return [dict(tier=tier, seed=seed * 1000 + i, idx=i, n=(3 if tier == "quick" else 40)) for i in range(ns)]


def run_shard(sh):
    from lib.coreprop import draw_examples
    col = Collector(ID)
    violation = None
    for small in (True, False):
        gs = draw_examples(geometries(small, big_cols=sh["idx"] % 2 == 1, two_ranks=sh["idx"] % 4 >= 2), sh["n"] if small else max(1, sh["n"] // 2), sh["seed"] + (0 if small else 500))
        for g in gs:
            fs, n = check_geometry(g, col)
            cl = classes_of(g)
            col.case(g, classes=cl + (["exhaustive"] if small else ["sampled"]), nontrivial=bool(cl), sample=dict(geometry=g, addresses_checked=n))
            col.stats["addresses_evaluated"] = col.stats.get("addresses_evaluated", 0) + n
            fs = col.filter(fs)
            if fs and violation is None:
                # confirm on stock migen.sim with a short address list around the failing address
                fm, _ = check_geometry(g, col, backend="migen", addr_list=_around(fs[0]))
                if not any(f["clause"] == fs[0]["clause"] for f in fm) and fs[0]["clause"] not in ("C06.not_onto", "C06.not_injective"):
                    raise HarnessError("C06 finding does not reproduce on migen.sim: %s" % fs[0])
                violation = dict(case=dict(geometry=g), findings=fs, confirmed_on="migen.sim")
        if violation:
            break
    # dynamic part: single commands through the whole core (DFI bank/row/column against the independent map)
    if violation is None:
        import props.c02 as c02
        from lib.coreprop import evaluate
        gs = draw_examples(geometries(False, big_cols=sh["idx"] % 2 == 0, two_ranks=sh["idx"] % 4 < 2), 1 if sh["tier"] == "quick" else 4, sh["seed"] + 900)
        for g in gs:
            g = dict(g)
            g["rowbits"] = max(g["rowbits"], 11, g["colbits"] + 1)
            cfg = geom_cfg(g)
            cfg["ctrl"]["with_refresh"] = True

            def t(stim, cfg=cfg, g=g):
                run, fs, classes, _ = evaluate(c02, cfg, stim)
                fs = [f for f in fs if f["clause"] in ("C02.access_mismatch", "C02.unrequested_access", "C02.request_not_performed", "C02.col_misaligned_or_out_of_range", "C02.row_out_of_range")]
                for f in fs:
                    f["clause"] = "C06.dfi_" + f["clause"][4:]
                col.case(dict(g=g, stim=stim), classes=["dynamic"] + classes_of(g), nontrivial=bool(classes_of(g)), sample=dict(geometry=g, dynamic_ops=sum(len(o) for o in stim["ports"])))
                return col.filter(fs)
            found = hyp_search(t, _dyn_stim(cfg), sh["seed"] + 77, 6 if sh["tier"] == "quick" else 20, shrink=False)
            if found:
                stim, fs = found
                _, fm, _, _ = evaluate(c02, cfg, stim, backend="migen")
                if not any(f["clause"][4:] == fs[0]["clause"][8:] for f in fm):
                    raise HarnessError("C06 dynamic finding does not reproduce on migen.sim")
                violation = dict(case=dict(cfg=cfg, stim=stim), findings=fs, confirmed_on="migen.sim")
                break
    return col.result(violation)


@st.composite
def _dyn_stim(draw, cfg):
    am = cc.addrmap_of(cfg)
    W = cc.word_width(cfg)
    total = 1 << am.width
    ops = []
    for _ in range(draw(st.integers(4, 16))):
        kind = draw(st.integers(0, 3))
        if kind == 0:
            a = draw(st.integers(0, total - 1))
        elif kind == 1:
            a = (1 << draw(st.integers(0, am.width - 1))) - draw(st.integers(0, 1))
        elif kind == 2:
            a = total - 1 - draw(st.integers(0, 3))
        else:
            a = draw(st.integers(0, 3))
        we = draw(st.integers(0, 1))
        op = dict(we=we, addr=a % total, gap=0)
        if we:
            op.update(data=draw(st.integers(0, (1 << W) - 1)), be=(1 << (W // 8)) - 1, lead=0)
        ops.append(op)
    return dict(pool=[], ports=[ops])


def _around(f):
    import re
    m = re.search(r"0x([0-9a-f]+)", f["what"])
    a = int(m.group(1), 16) if m else 0
    return [max(0, a - 1), a, a + 1]


def replay(case):
    col = Collector(ID)
    if "geometry" in case:
        fs, _ = check_geometry(case["geometry"], col, backend="migen", addr_list=None if (case["geometry"]["rowbits"] <= 5) else None)
        return col.filter(fs)
    import props.c02 as c02
    from lib.coreprop import evaluate
    _, fm, _, _ = evaluate(c02, case["cfg"], case["stim"], backend="migen")
    return col.filter([f for f in fm if f["clause"].startswith("C02.")])
