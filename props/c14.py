"""C14 BIST reports exactly the words that differ.

Devices: _LiteDRAMBISTGenerator + _LiteDRAMBISTChecker (and _LiteDRAMPatternGenerator + _LiteDRAMPatternChecker) of
litedram/frontend/bist.py, generator on a write port and checker on a read port of ONE memory:
  * native ports (LiteDRAMNativeWritePort / ReadPort, data width 8..256) on lib.native.NativeSlave (realistic stub:
    one-cycle wdata.ready / rdata.valid pulses regardless of valid/ready, acceptance order, generated stalls/latencies);
  * AXI ports (LiteDRAMAXIPort) on lib.aximem14.AXIMemSlave (conforming single-beat AXI4 memory, generated stalls).
Drive exactly like upstream's GenCheckDriver: reset pulse, base/end/length/random_* together with the start pulse, wait done.
Oracle: lib.lfsr (own PRBS31/counter model, `strict` address model = mask to the range in WORDS):
  generator : done reached; at done every command accepted; the performed writes == model (address, data) sequence, all
              byte enables set; every written byte address in [base, end); no lost beat in the slave.
  checker   : done reached; read addresses == model address sequence; errors == number of sequence positions whose stored
              word (memory image at the start of the check) differs from the generated word; no lost beat.
  Derived (asserted on the oracle itself): faithful memory + no repeated address => 0; k corrupted words read once => k.
One specific cause is named separately so that every other deviation stays distinguishable: an address that differs from
the strict model but equals the `bytemask` model (mask = range in BYTES - 1 applied to the word counter) is reported as
C14.write_outside_range / C14.read_outside_range with key "addr_mask_bytes_vs_words"; for such cases the remaining clauses
(data, count, byte enables, done, error count relative to the addresses really read, lost beats) are still checked.
Findings are collected per (clause, key) over the whole shard (the search does not stop at the first one)."""
import lib.compat  # noqa
import os, copy
from hypothesis import strategies as st
from lib.runner import Collector, hyp_search, digest, match_known
from lib.fastsim import compile_dut, FastSim, MigenSim, HarnessError
from lib.native import NativeSlave, native_slave, slave_style
from lib.aximem14 import AXIMemSlave
from lib import lfsr

ID = "C14"
REQUIRED_CLASSES = ["earlier_run_on_same_instances", "wrap", "random_addr_repeat", "pattern_duplicate_address", "k_errors_exact", "zero_errors_faithful", "preload=gen", "preload=model",
                    "checker_setting_differs"]      # classes that must occur in every run (else harness error: vacuous generator)
LEVEL = "exploration"
RULE = ("configuration = (port type native/AXI, data width 8..256, address width, BIST or pattern pair); case = (base, power-of-two "
        "range, length, random_data, random_addr, optional different checker setting, memory pre-load by a generator run or by the "
        "model, corruption set of 0..4 words applied between generation and check, slave stall/latency schedules); non-trivial = the "
        "address sequence repeats an address (random addresses or a pattern with duplicates) or length > range (wrap) or >= 1 corrupted "
        "word (the width clause 'not a multiple of 31' holds for every width used, it is not counted); distinct = distinct (configuration, case) digests")
ASSUMPTIONS = ["lib/lfsr.py is the reference for the PRBS31 / counter generators (cross-checked against a bit-serial PRBS31 recurrence and against the pinned images of test/test_bist.py at shard start)",
               "documented input domain: base and length multiples of the word size, length >= 1 word, end - base a power of two >= 1 word, end representable in the register",
               "lib.native.NativeSlave shows only behaviour the real crossbar can show (DESIGN 2.3); lib.aximem14.AXIMemSlave is a conforming AXI4 slave that pairs the k-th W beat with the k-th AW and does not require WLAST",
               "a pattern generator's `done` means 'all commands accepted' (writes take effect in acceptance order); the memory image is taken once the slave is idle",
               "violations are confirmed on stock migen.sim before being reported; fastsim alone never produces a verdict"]

CAUSE = "addr_mask_bytes_vs_words"
WIDTHS = (8, 16, 32, 64, 128, 256)


# ---------------------------------------------------------------------------------------------------------------------
# device
def build_dut(cfg):
    from migen import Module
    from litedram.common import LiteDRAMNativeWritePort, LiteDRAMNativeReadPort
    from litedram.frontend.axi import LiteDRAMAXIPort
    from litedram.frontend.bist import _LiteDRAMBISTGenerator, _LiteDRAMBISTChecker, _LiteDRAMPatternGenerator, _LiteDRAMPatternChecker

    class DUT(Module):
        def __init__(self):
            if cfg["port"] == "native":
                self.wp = LiteDRAMNativeWritePort(address_width=cfg["aw"], data_width=cfg["dw"])
                self.rp = LiteDRAMNativeReadPort(address_width=cfg["aw"], data_width=cfg["dw"])
            else:
                self.wp = LiteDRAMAXIPort(data_width=cfg["dw"], address_width=cfg["aw"], id_width=1)
                self.rp = LiteDRAMAXIPort(data_width=cfg["dw"], address_width=cfg["aw"], id_width=1)
            if cfg["kind"] == "bist":
                self.submodules.gen = _LiteDRAMBISTGenerator(self.wp)
                self.submodules.chk = _LiteDRAMBISTChecker(self.rp)
            else:
                pat = [tuple(x) for x in cfg["pattern"]]
                self.submodules.gen = _LiteDRAMPatternGenerator(self.wp, pat)
                self.submodules.chk = _LiteDRAMPatternChecker(self.rp, init=pat)
    return DUT()


def ashift_of(cfg):
    return (cfg["dw"] // 8).bit_length() - 1


def wab_of(cfg):
    """width of the word address on the port"""
    return cfg["aw"] if cfg["port"] == "native" else cfg["aw"] - ashift_of(cfg)


_compiled = {}


def get_compiled(cfg):
    k = digest(cfg)
    if k not in _compiled:
        _compiled[k] = compile_dut(build_dut(cfg))
    return _compiled[k]


def make_slave(cfg, dut, sl, init):
    if cfg["port"] == "native":
        return native_slave([dut.wp, dut.rp], sl, init=init)
    return AXIMemSlave(dut.wp, dut.rp, aw_pattern=sl.get("ready"), w_pattern=sl.get("wready"), ar_pattern=sl.get("ready"),
                       r_gap=sl.get("rgap"), rlat=sl.get("rlat"), qmax=sl.get("qmax", 8), init=init)


def obs_signals(cfg, dut):
    g, c = dut.gen, dut.chk
    s = [g.done, g.ticks, c.done, c.errors, c.ticks]
    if cfg["port"] == "native":
        s += [dut.wp.cmd.valid, dut.wp.cmd.addr, dut.wp.cmd.we, dut.wp.wdata.valid, dut.wp.wdata.data, dut.wp.wdata.we,
              dut.rp.cmd.valid, dut.rp.cmd.addr, dut.rp.cmd.we, dut.rp.rdata.ready]
    else:
        s += [dut.wp.aw.valid, dut.wp.aw.addr, dut.wp.aw.size, dut.wp.w.valid, dut.wp.w.data, dut.wp.w.strb, dut.wp.b.ready,
              dut.rp.ar.valid, dut.rp.ar.addr, dut.rp.r.ready]
    return s


# ---------------------------------------------------------------------------------------------------------------------
# running one case
def sched_period(p):
    return max(1, sum(p)) if p else 1


def stall_limit(sl):
    """a phase is declared hung when the slave saw no event (command, write, read) for this many cycles.  Far above what
    the schedules alone can cause: a command slot can be missed while the queue is full, so allow several schedule periods
    plus the largest latency.  (A fixed bound per word was a false alarm with AXI aw/w ready 1 cycle in 25 and qmax 1.)"""
    per = sched_period(sl.get("ready")) + sched_period(sl.get("wready"))
    lat = max([3, 5] + list(sl.get("wlat") or []) + list(sl.get("rlat") or [])) + max([0] + list(sl.get("rgap") or []))
    return 100 + 4 * per + 2 * lat


def phase_bound(n, sl):
    """absolute cap (guards against a device that makes events forever)"""
    return 400 + (4 * n + 64) * stall_limit(sl)


def sequences(cfg, p):
    """(strict, bytemask) model sequences for BIST parameters p = dict(base, end, length, rd, ra)"""
    a = (cfg["dw"], wab_of(cfg), p["base"], p["end"], p["length"], p["rd"], p["ra"])
    return lfsr.bist_sequence(*a, model="strict"), lfsr.bist_sequence(*a, model="bytemask")


def model_of(cfg, case):
    """gen/chk strict + bytemask sequences, interesting addresses for the corruption set"""
    if cfg["kind"] == "bist":
        gs, ga = sequences(cfg, case["gen"])
        cs, ca = sequences(cfg, case["chk"] or case["gen"])
    else:
        m = (1 << wab_of(cfg)) - 1
        gs = [(a & m, d & ((1 << cfg["dw"]) - 1)) for a, d in cfg["pattern"]]
        ga, cs, ca = gs, gs, gs
    return gs, ga, cs, ca


def corruption_universe(cfg, gs, ga, cs, ca):
    m = (1 << wab_of(cfg)) - 1
    u = set(a for a, _ in gs) | set(a for a, _ in ga) | set(a for a, _ in cs) | set(a for a, _ in ca)
    lo, hi = min(u), max(u)
    u |= {(lo - 1) & m, (hi + 1) & m, (hi + 2) & m}
    return sorted(u)


class Run:
    pass


def run_case(cfg, case, backend="fast", trace=None):
    if os.environ.get("VERIF_SIM") == "migen":
        backend = "migen"
    if backend == "fast":
        comp = get_compiled(cfg)
        dut = comp.dut
        sim = FastSim(comp)
    else:
        dut = build_dut(cfg)
        sim = MigenSim(dut, {"sys": 10})
    gs, ga, cs, ca = model_of(cfg, case)
    dwm = (1 << cfg["dw"]) - 1
    init = lfsr.image(gs) if case["mode"] == "model" else None
    slave = make_slave(cfg, dut, case["slave"], init)
    obs = obs_signals(cfg, dut) if trace is not None else None
    r = Run()
    r.cfg, r.case, r.slave = cfg, case, slave
    r.gs, r.ga, r.cs, r.ca = gs, ga, cs, ca
    r.t = 0
    r.hung_after = None

    def step(extra=()):
        w = slave.cycle(sim, r.t)
        if obs is not None:
            trace.append(tuple(sim.get(s) for s in obs))
        sim.step(list(w) + list(extra))
        r.t += 1

    def phase(mod, par, n):
        """reset, configure + start, wait for done exactly like GenCheckDriver; returns the cycle done was seen (or None)"""
        step([(mod.reset, 1)])
        step([(mod.reset, 0)])
        w = [(mod.start, 1)]
        if par is not None:
            w += [(mod.base, par["base"]), (mod.end, par["end"]), (mod.length, par["length"]), (mod.random_addr, par["ra"]), (mod.random_data, par["rd"])]
        step(w)
        step([(mod.start, 0)])
        bound = phase_bound(n, case["slave"])
        lim = stall_limit(case["slave"])
        k = 0
        seen, last = len(slave.log), r.t
        while not sim.get(mod.done):
            if len(slave.log) != seen:
                seen, last = len(slave.log), r.t
            if k >= bound or r.t - last > lim:
                r.hung_after = r.t - last
                return None
            step()
            k += 1
        return r.t

    bist = cfg["kind"] == "bist"
    # ---- earlier use of the same instances (optional): the cores are reset before every run exactly like GenCheckDriver does, so a
    #      previous run - whatever its settings - must not influence the run under test.  Memory and logs are put back afterwards.
    r.pre_hung = None
    pre = case.get("pre")
    if pre:
        W = cfg["dw"] // 8
        for which in pre["runs"]:
            mod = dut.gen if which == "gen" else dut.chk
            npre = (pre["par"]["length"] // W) if bist else len(gs)
            if phase(mod, pre["par"] if bist else None, npre) is None:
                r.pre_hung = which
                break
            k = 0
            while not slave.idle() and k < 64 * stall_limit(case["slave"]):
                step()
                k += 1
            for _ in range(4):
                step()
        slave.mem.clear()
        slave.mem.update(init or {})
        del slave.log[:]
        del slave.lost[:]
        r.hung_after = None if r.pre_hung is None else r.hung_after
    # ---- generation ----
    r.gen_ran = case["mode"] == "gen"
    r.gen_done_t = None
    r.gen_cmds_at_done = r.gen_writes_at_done = None
    if r.gen_ran:
        r.gen_done_t = phase(dut.gen, case["gen"] if bist else None, len(gs))
        r.gen_cmds_at_done = sum(1 for e in slave.log if e[0] == "C" and e[3])
        r.gen_writes_at_done = slave.writes_handed() if hasattr(slave, "writes_handed") else sum(1 for e in slave.log if e[0] == "W")
        k = 0
        while not slave.idle() and k < 64 * stall_limit(case["slave"]):
            step()
            k += 1
        for _ in range(8):
            step()
        r.gen_done_after = sim.get(dut.gen.done)
    if r.gen_ran and hasattr(slave, "finish"):
        slave.finish(r.t)      # stream-style port: data beats no command consumed
    r.gen_log = list(slave.log)
    r.gen_lost = list(slave.lost)
    # ---- corruption between generation and check ----
    uni = corruption_universe(cfg, gs, ga, cs, ca)
    r.corrupted = {}
    for sel, mask in case["corrupt"]:
        a = uni[sel % len(uni)]
        if a in r.corrupted:
            continue
        mask &= dwm
        if mask == 0:
            mask = 1
        r.corrupted[a] = mask
        slave.mem[a] = slave.read_mem(a, cfg["dw"]) ^ mask
    r.image = dict(slave.mem)
    r.read_image = lambda a: r.image[a] if a in r.image else slave.bg(a, cfg["dw"])
    # ---- check ----
    n0 = len(slave.log)
    l0 = len(slave.lost)
    r.chk_done_t = phase(dut.chk, (case["chk"] or case["gen"]) if bist else None, len(cs))
    r.errors = sim.get(dut.chk.errors)
    r.reads_at_done = sum(1 for e in slave.log[n0:] if e[0] == "R")
    for _ in range(8):
        step()
    r.errors_after = sim.get(dut.chk.errors)
    r.chk_done_after = sim.get(dut.chk.done)
    r.chk_log = slave.log[n0:]
    r.chk_lost = slave.lost[l0:]
    r.mem_changed_by_check = dict(slave.mem) != r.image
    r.notes = dict(getattr(slave, "notes", {}))
    r.cycles = r.t
    return r


# ---------------------------------------------------------------------------------------------------------------------
# oracle
def F(clause, key, what):
    return dict(clause="C14." + clause, key=key, what=what)


def byte_range(cfg, p):
    return p["base"], p["end"]


def compare_addresses(cfg, got, strict, alt, par, direction):
    """got: list of word addresses seen at the port; returns (findings, explained_by_bytemask: bool, n_deviating)"""
    fs = []
    sh = ashift_of(cfg)
    first = {}
    cnt = {}
    for i in range(min(len(got), len(strict))):
        a = got[i]
        if a == strict[i]:
            continue
        inside = par is not None and par["base"] <= (a << sh) < par["end"]
        if a == alt[i]:
            k = ("outside", CAUSE) if not inside else ("seq", CAUSE + "_wrapped_into_range")
        else:
            k = ("outside", "unexplained_address") if (par is not None and not inside) else ("seq", "address")
        cnt[k] = cnt.get(k, 0) + 1
        first.setdefault(k, i)
    for k in sorted(cnt):
        i = first[k]
        clause = ("%s_outside_range" % direction) if k[0] == "outside" else ("%s_sequence" % direction)
        rng = "" if par is None else " (range bytes [0x%x, 0x%x), %d-byte words)" % (par["base"], par["end"], cfg["dw"] // 8)
        fs.append(F(clause, k[1], "%s position %d at byte address 0x%x, model says 0x%x%s; %d of %d positions deviate this way" %
                    (direction, i, got[i] << sh, strict[i] << sh, rng, cnt[k], len(strict))))
    explained = all(k[1].startswith(CAUSE) for k in cnt)
    return fs, explained, sum(cnt.values())


def oracle(r):
    cfg, case = r.cfg, r.case
    sh = ashift_of(cfg)
    bist = cfg["kind"] == "bist"
    native = cfg["port"] == "native"
    fs = []
    classes = set()
    full_we = (1 << (cfg["dw"] // 8)) - 1
    gpar = case["gen"] if bist else None
    cpar = (case["chk"] or case["gen"]) if bist else None

    def waddr(e):      # log entry -> word address (AXI logs byte addresses)
        a = e[3] if e[0] in ("W", "R") else e[4]
        if native:
            return a, 0
        return a >> sh, a & ((1 << sh) - 1)

    gen_clean = True
    if case.get("pre"):
        classes.add("earlier_run_on_same_instances")
        if r.pre_hung:
            fs.append(F("generator_done" if r.pre_hung == "gen" else "checker_done", "timeout_in_earlier_run", "the %s did not finish an earlier run (%s, runs %s) on the same instance" % (
                "generator" if r.pre_hung == "gen" else "checker", case["pre"]["par"], case["pre"]["runs"])))
            return fs, classes, True
    # ---------------- generator ----------------
    if r.gen_ran:
        n = len(r.gs)
        writes = [e for e in r.gen_log if e[0] == "W" and e[6]]
        cmds = [e for e in r.gen_log if e[0] == "C"]
        if r.gen_done_t is None:
            fs.append(F("generator_done", "timeout", "generator not done and no port activity for %d cycles (%d words, %d commands accepted, %d words written)" %
                        (r.hung_after, n, r.gen_cmds_at_done, r.gen_writes_at_done)))
        else:
            if r.gen_cmds_at_done < n:
                fs.append(F("generator_done", "done_before_all_commands", "generator done with %d of %d commands accepted" % (r.gen_cmds_at_done, n)))
            if bist and r.gen_writes_at_done < n:
                fs.append(F("generator_done", "done_before_all_data", "BIST generator done with %d of %d words handed to the memory" % (r.gen_writes_at_done, n)))
            if r.gen_writes_at_done < n:
                classes.add("done_before_data(pattern)")
            if not r.gen_done_after:
                fs.append(F("generator_done", "done_dropped", "generator done went low again without a reset"))
        if any(e[0] == "C" and not e[3] for e in cmds):
            fs.append(F("write_sequence", "read_command_from_generator", "the generator issued a read command"))
        if any(e[0] == "R" for e in r.gen_log):
            fs.append(F("write_sequence", "read_command_from_generator", "read data phase during generation"))
        if len(writes) != n:
            fs.append(F("write_sequence", "count", "%d words written, the sequence has %d" % (len(writes), n)))
        if len(cmds) != n:
            fs.append(F("write_sequence", "command_count", "%d commands accepted, the sequence has %d" % (len(cmds), n)))
        got = [waddr(e)[0] for e in writes]
        if any(waddr(e)[1] for e in writes):
            fs.append(F("write_sequence", "unaligned_axi_address", "AXI write address with non-zero low bits"))
        f2, _, ndev = compare_addresses(cfg, got, [a for a, _ in r.gs], [a for a, _ in r.ga], gpar, "write")
        fs += f2
        if ndev:
            classes.add("bytemask_affected_write")
        # command addresses must be the data-phase addresses (same order)
        if [waddr(e)[0] for e in cmds if e[3]][:len(got)] != got[:len(cmds)]:
            fs.append(F("write_sequence", "command_data_order", "write data phases are not in command order"))
        for i in range(min(len(writes), n)):
            if writes[i][4] != r.gs[i][1]:
                fs.append(F("write_sequence", "data", "write position %d carries 0x%x, model says 0x%x (width %d, random_data=%s)" %
                            (i, writes[i][4], r.gs[i][1], cfg["dw"], gpar["rd"] if gpar else "pattern")))
                break
        for i in range(min(len(writes), n)):
            if writes[i][5] != full_we:
                fs.append(F("write_sequence", "byte_enables", "write position %d has byte enables 0x%x" % (i, writes[i][5])))
                break
        for l in r.gen_lost:
            fs.append(F("lost_beat", "generator_" + str(l[0]), "slave pulse met no partner during generation: %s" % (l,)))
            break
        gen_clean = not fs
    # ---------------- checker ----------------
    n = len(r.cs)
    reads = [e for e in r.chk_log if e[0] == "R"]
    cmds = [e for e in r.chk_log if e[0] == "C"]
    if r.chk_done_t is None:
        fs.append(F("checker_done", "timeout", "checker not done and no port activity for %d cycles (%d words, %d commands accepted, %d words returned)" %
                    (r.hung_after, n, len(cmds), r.reads_at_done)))
    elif not r.chk_done_after:
        fs.append(F("checker_done", "done_dropped", "checker done went low again without a reset"))
    if any(e[0] == "W" for e in r.chk_log) or any(e[0] == "C" and e[3] for e in cmds) or r.mem_changed_by_check:
        fs.append(F("read_sequence", "write_from_checker", "the checker wrote to memory"))
    if len(cmds) != n:
        fs.append(F("read_sequence", "count", "%d read commands accepted, the sequence has %d" % (len(cmds), n)))
    got = [waddr(e)[0] for e in cmds]
    if any(waddr(e)[1] for e in cmds):
        fs.append(F("read_sequence", "unaligned_axi_address", "AXI read address with non-zero low bits"))
    f2, explained, ndev = compare_addresses(cfg, got, [a for a, _ in r.cs], [a for a, _ in r.ca], cpar, "read")
    fs += f2
    if ndev:
        classes.add("bytemask_affected_read")
    for l in r.chk_lost:
        fs.append(F("lost_beat", "checker_" + str(l[0]), "slave pulse met no partner during the check: %s" % (l,)))
        break
    exp_strict = lfsr.expected_errors(r.cs, r.read_image)
    r.exp_strict = exp_strict
    if r.chk_done_t is not None:
        if ndev == 0 and len(got) == n:
            exp, how = exp_strict, "model addresses"
        else:
            # addresses already reported above; keep checking the count relative to the addresses really read
            seq = [(got[i], r.cs[i][1]) for i in range(min(len(got), n))]
            exp, how = lfsr.expected_errors(seq, r.read_image), ("byte-masked addresses" if explained else "the addresses really read")
            if explained and len(got) == n:
                assert exp == lfsr.expected_errors(r.ca, r.read_image)
        r.exp = exp
        if r.errors != exp:
            kind = "over" if r.errors > exp else "under"
            fs.append(F("errors_count", kind + ("" if ndev == 0 else "_given_addresses_read"),
                        "checker reports %d errors, %d sequence positions differ (%s; %d words, %d corrupted words, width %d)" %
                        (r.errors, exp, how, n, len(r.corrupted), cfg["dw"])))
        if r.errors_after != r.errors:
            fs.append(F("errors_count", "changes_after_done", "errors %d at done, %d eight cycles later" % (r.errors, r.errors_after)))
    # ---------------- classes / self-consistency of the oracle ----------------
    rep = lfsr.has_repeat(r.cs)
    same = (not bist) or case["chk"] is None or case["chk"] == case["gen"]
    k = len(r.corrupted)
    if bist:
        rng_w = (cpar["end"] - cpar["base"]) >> sh
        wrap = n > rng_w
        if wrap:
            classes.add("wrap")
        if cpar["ra"]:
            classes.add("random_addr")
            if rep:
                classes.add("random_addr_repeat")
        if cpar["rd"]:
            classes.add("random_data")
        if not same:
            classes.add("checker_setting_differs")
    else:
        if rep:
            classes.add("pattern_duplicate_address")
    if k:
        classes.add("corrupt_k=%d" % k)
    classes.add("preload=" + case["mode"])
    # derived claims of the statement, asserted on my own oracle (strict model world): no repeat + faithful => 0; k read once => k
    if ndev == 0 and not rep and same and (case["mode"] == "model" or gen_clean):
        hit = sum(1 for a, _ in r.cs if a in r.corrupted)
        if exp_strict != hit:
            raise HarnessError("oracle self-check: %d expected errors for %d corrupted sequence words without repeats" % (exp_strict, hit))
        if hit:
            classes.add("k_errors_exact")
        else:
            classes.add("zero_errors_faithful")
    nontrivial = bool(rep or k or (bist and wrap))
    return fs, classes, nontrivial


def evaluate(cfg, case, backend="fast", trace=None):
    r = run_case(cfg, case, backend, trace)
    fs, classes, nontrivial = oracle(r)
    return r, fs, classes, nontrivial


# ---------------------------------------------------------------------------------------------------------------------
# generation
def _pairs(maxlen, hi):
    return st.lists(st.tuples(st.integers(1, hi), st.integers(0, hi)), min_size=1, max_size=maxlen).map(lambda l: [x for p in l for x in p])


def slave_strategy(cfg):
    pat = st.one_of(st.just([]), _pairs(3, 5), st.tuples(st.integers(1, 2), st.integers(6, 25)).map(list))
    if cfg["port"] == "native":
        # (outstanding limits and read latencies beyond the 16 reservations of the checker's DMA reader are part of "memory timings")
        base = st.fixed_dictionaries(dict(ready=pat, wlat=st.lists(st.integers(3, 14), min_size=1, max_size=4),
                                          rlat=st.one_of(st.lists(st.integers(5, 24), min_size=1, max_size=4), st.lists(st.sampled_from([30, 45, 70]), min_size=1, max_size=2)),
                                          qmax=st.one_of(st.integers(1, 10), st.sampled_from([20, 40, 64]))))
        # BIST cores are routinely put on clock-domain-crossing ports (test_bist_csr_cdc): stream-style memory side in a quarter of the cases
        style = st.one_of(st.just({}), st.just({}), st.just({}),
                          st.fixed_dictionaries(dict(style=st.just("fifo"), wdepth=st.sampled_from([1, 2, 4, 16]), rdepth=st.sampled_from([1, 2, 4, 16]))))
        return st.tuples(base, style).map(lambda t: dict(t[0], **t[1]))
    return st.fixed_dictionaries(dict(ready=pat, wready=pat, rlat=st.lists(st.integers(1, 20), min_size=1, max_size=4),
                                      rgap=st.lists(st.integers(0, 3), min_size=1, max_size=3), qmax=st.integers(1, 8)))


def corrupt_strategy(cfg):
    dw = cfg["dw"]
    mask = st.one_of(st.integers(0, dw - 1).map(lambda b: 1 << b), st.integers(1, (1 << dw) - 1),
                     st.sampled_from([1 << (dw - 1), 1 << min(dw - 1, 30), 1 << min(dw - 1, 31)]))
    return st.lists(st.tuples(st.integers(0, 1 << 16), mask).map(list), min_size=0, max_size=4)


@st.composite
def bist_params(draw, cfg, nmax):
    wab = wab_of(cfg)
    W = cfg["dw"] // 8
    rlog = draw(st.integers(0, min(wab - 1, 7)))
    rw = 1 << rlog
    top = (1 << wab) - rw - 1            # highest base (words) such that end stays representable
    base_w = draw(st.one_of(st.just(0), st.integers(0, top), st.integers(0, top // rw).map(lambda x: x * rw)))
    nmax = min(nmax, (1 << wab) - 1)
    n = draw(st.one_of(st.integers(1, nmax), st.sampled_from(sorted(set(x for x in (rw - 1, rw, rw + 1, 2 * rw, 2 * rw + 1) if 1 <= x <= nmax)) or [1])))
    return dict(base=base_w * W, end=(base_w + rw) * W, length=n * W, rd=draw(st.integers(0, 1)), ra=draw(st.integers(0, 1)))


@st.composite
def case_strategy(draw, cfg, tier):
    nmax = 64 if tier == "quick" else 160
    c = dict(mode=draw(st.sampled_from(["gen", "gen", "model"])), corrupt=draw(corrupt_strategy(cfg)), slave=draw(slave_strategy(cfg)))
    if cfg["kind"] == "bist":
        c["gen"] = draw(bist_params(cfg, nmax))
        c["chk"] = draw(st.one_of(st.none(), st.none(), st.none(), bist_params(cfg, nmax)))
        if c["chk"] is not None and draw(st.booleans()):
            # related setting: same range, other length / flags (what upstream's bist_test does with a shifted base)
            g = c["gen"]
            W = cfg["dw"] // 8
            c["chk"] = dict(g, length=draw(st.integers(1, max(1, g["length"] // W))) * W)
    # an earlier run on the same instances (generator and / or checker, other length and flags), in a third of the cases
    if draw(st.integers(0, 2)) == 0:
        runs = draw(st.sampled_from([["gen"], ["gen", "chk"], ["chk"], ["gen", "gen"], ["chk", "gen"]]))
        par = None
        if cfg["kind"] == "bist":
            g = c["gen"]
            W = cfg["dw"] // 8
            par = dict(g, length=draw(st.integers(1, 9)) * W, rd=draw(st.sampled_from([1, 1, 0])), ra=draw(st.integers(0, 1)))
        c["pre"] = dict(runs=runs, par=par)
    return c


@st.composite
def pattern_cfg(draw, port, tier):
    dw = draw(st.sampled_from(WIDTHS))
    sh = (dw // 8).bit_length() - 1
    aw = draw(st.integers(6, 16)) + (sh if port == "axi" else 0)
    wab = aw - (sh if port == "axi" else 0)
    n = draw(st.integers(2, 24 if tier == "quick" else 48))      # a 1-entry pattern does not elaborate (Memory depth 1)
    pool = draw(st.lists(st.integers(0, (1 << wab) - 1), min_size=1, max_size=max(1, n), unique=True))
    addr = st.one_of(st.sampled_from(pool), st.integers(0, (1 << wab) - 1))
    data = st.one_of(st.integers(0, (1 << dw) - 1), st.sampled_from([0, (1 << dw) - 1, 1 << (dw - 1)]))
    pat = draw(st.lists(st.tuples(addr, data).map(list), min_size=n, max_size=n))
    return dict(port=port, kind="pattern", dw=dw, aw=aw, pattern=pat)


def draw_examples(strategy, n, seed):
    out, seen = [], set()

    def t(c):
        k = digest(c)
        if k not in seen:
            seen.add(k)
            out.append(c)
        return []
    hyp_search(t, strategy, seed, n * 3 + 3, shrink=False)
    return out[-n:]      # not the first ones: Hypothesis starts every run with the same all-minimal value


# ---------------------------------------------------------------------------------------------------------------------
# shards
def shards(tier, seed):
    quick = tier == "quick"
    out = []
    combos = [("native", "bist", w) for w in WIDTHS] + [("axi", "bist", w) for w in WIDTHS] + \
             [("native", "pattern", 0), ("native", "pattern", 1), ("axi", "pattern", 0), ("axi", "pattern", 1)]
    for i, (port, kind, w) in enumerate(combos):
        out.append(dict(idx=i, tier=tier, seed=seed * 1000 + i, port=port, kind=kind, dw=w,
                        ncfg=(3 if quick else 8) if kind == "bist" else (8 if quick else 40),
                        ncases=(180 if quick else 1500) if kind == "bist" else (40 if quick else 150)))
    return out


def shard_cfgs(sh):
    if sh["kind"] == "bist":
        s = (sh["dw"] // 8).bit_length() - 1
        cfgs = []
        for j in range(sh["ncfg"]):
            wa = 8 + (sh["seed"] * 7 + j * 5 + sh["idx"]) % 11          # word address width 8..18
            if j == 0:
                wa = max(wa, 12)
            cfgs.append(dict(port=sh["port"], kind="bist", dw=sh["dw"], aw=wa if sh["port"] == "native" else wa + s))
        return cfgs
    return draw_examples(pattern_cfg(sh["port"], sh["tier"]), sh["ncfg"], sh["seed"])


def quiet_unknown(col, fs):
    return [f for f in fs if match_known(col.known, f) is None]


def case_size(cfg, case):
    n = (case["gen"]["length"] if cfg["kind"] == "bist" else len(cfg["pattern"]))
    return (cfg["dw"], n, len(case["corrupt"]), case["chk"] is not None if "chk" in case else 0, len(digest(case["slave"])), digest(case))


def minimise(cfg, case, sig, col, budget=400):
    """greedy reduction of a failing case keeping the (clause, key) signature `sig`"""
    runs = [0]

    def fails(c):
        if runs[0] >= budget:
            return False
        runs[0] += 1
        try:
            _, fs, _, _ = evaluate(cfg, c)
        except Exception:      # a candidate that cannot be evaluated is not a reduction
            return False
        return any((f["clause"], f["key"]) == sig for f in quiet_unknown(col, fs))

    cur = copy.deepcopy(case)
    plain = dict(ready=[], wlat=[3], rlat=[5], qmax=8) if cfg["port"] == "native" else dict(ready=[], wready=[], rlat=[1], rgap=[0], qmax=8)
    changed = True
    while changed and runs[0] < budget:
        changed = False
        cands = []
        if cur["slave"] != plain:
            cands.append(dict(cur, slave=plain))
        if cur["corrupt"]:
            cands.append(dict(cur, corrupt=[]))
            cands += [dict(cur, corrupt=cur["corrupt"][:i] + cur["corrupt"][i + 1:]) for i in range(len(cur["corrupt"]))]
        if cfg["kind"] == "bist":
            W = cfg["dw"] // 8
            if cur["chk"] is not None:
                cands.append(dict(cur, chk=None))
            g = cur["gen"]
            rng = g["end"] - g["base"]
            for fld in ("rd", "ra"):
                if g[fld]:
                    cands.append(dict(cur, gen=dict(g, **{fld: 0})))
            if g["base"]:
                cands.append(dict(cur, gen=dict(g, base=0, end=rng)))
            r2 = W
            while r2 < rng:
                cands.append(dict(cur, gen=dict(g, end=g["base"] + r2)))
                r2 *= 2
            for n2 in list(range(1, min(g["length"] // W, 12))) + [g["length"] // W // 2]:
                if 1 <= n2 < g["length"] // W:
                    cands.append(dict(cur, gen=dict(g, length=n2 * W)))
        for c in cands:
            if fails(c):
                cur = c
                changed = True
                break
    return cur


def run_shard(sh):
    col = Collector(ID)
    tier = sh["tier"]
    # model self-checks (pure + pinned upstream images); a failure is a harness error, not a verdict
    lfsr.selfcheck_pure()
    try:
        from test.common import MemoryTestDataMixin
        pinned = lfsr.selfcheck_upstream_images(MemoryTestDataMixin().bist_test_data)
        if any(not v for v in pinned.values()):
            raise HarnessError("lib.lfsr reproduces none of its address models for pinned image(s) %s" % sorted(k for k, v in pinned.items() if not v))
        col.stats["pinned_images_only_bytemask_model"] = sum(1 for v in pinned.values() if v == ["bytemask"]) if sh["idx"] == 0 else 0
    except ImportError:
        pass
    recorded = {}          # (clause, key) -> (size, cfg, case, findings)
    diff_at = (0, 7) if tier == "quick" else (0, 7, 14, 21, 28, 35)
    for ci, cfg in enumerate(shard_cfgs(sh)):
        count = [0]

        def test(case, cfg=cfg, count=count):
            count[0] += 1
            if count[0] - 1 in diff_at:
                ta, tb = [], []
                evaluate(cfg, case, "fast", ta)
                evaluate(cfg, case, "migen", tb)
                if ta != tb:
                    k = next(i for i in range(min(len(ta), len(tb))) if ta[i] != tb[i]) if ta[:len(tb)] != tb[:len(ta)] else min(len(ta), len(tb))
                    raise HarnessError("fastsim and migen.sim differ at cycle %d (cfg %s)" % (k, {x: cfg[x] for x in ("port", "kind", "dw", "aw")}))
                col.diff_cycles += len(ta)
            r, fs, classes, nontrivial = evaluate(cfg, case)
            key = dict(cfg=cfg, case=case)
            col.case(key, classes=sorted(classes) + ["%s %s w%d" % (cfg["port"], cfg["kind"], cfg["dw"])], nontrivial=nontrivial,
                     sample=dict(cfg={k: cfg[k] for k in ("port", "kind", "dw", "aw")}, npattern=len(cfg.get("pattern", [])) or None,
                                 gen=case.get("gen"), chk=case.get("chk"), mode=case["mode"], corrupted=len(r.corrupted),
                                 slave=case["slave"], classes=sorted(classes), errors=r.errors, expected_errors=getattr(r, "exp", None), cycles=r.cycles))
            col.stats["simulated_cycles"] = col.stats.get("simulated_cycles", 0) + r.cycles
            col.stat_max("max_cycles_per_case", r.cycles)
            col.stat_max("max_errors_reported", r.errors)
            for k, v in r.notes.items():
                col.stats["axi_note_" + k] = col.stats.get("axi_note_" + k, 0) + v
            unknown = col.filter(fs)
            # collect per (clause, key), keep the smallest case, go on searching (do not stop at the first finding)
            for f in unknown:
                sig = (f["clause"], f["key"])
                sz = case_size(cfg, case)
                if sig not in recorded or sz < recorded[sig][0]:
                    recorded[sig] = (sz, cfg, case, unknown)
            return []

        hyp_search(test, case_strategy(cfg, tier), sh["seed"] * 100 + ci, sh["ncases"], shrink=False)
    if not recorded:
        return col.result()
    # report: any cause other than the named address-mask cause first
    order = sorted(recorded, key=lambda s: (s[1].startswith(CAUSE), not s[0].startswith("C14.write"), s))
    sig = order[0]
    _, cfg, case, _ = recorded[sig]
    case = minimise(cfg, case, sig, col)
    _, f_m, _, _ = evaluate(cfg, case, backend="migen")
    f_m = quiet_unknown(col, f_m)
    if not any((f["clause"], f["key"]) == sig for f in f_m):
        raise HarnessError("finding %s from fastsim does not reproduce on migen.sim" % (sig,))
    others = []
    for s in order[1:]:
        f = next(f for f in recorded[s][3] if (f["clause"], f["key"]) == s)
        others.append(dict(f, what=f["what"] + " [other case of this shard: cfg %s case %s]" %
                           ({k: recorded[s][1][k] for k in ("port", "kind", "dw", "aw")}, {k: v for k, v in recorded[s][2].items() if k != "slave"})))
    findings = [f for f in f_m if (f["clause"], f["key"]) == sig] + [f for f in f_m if (f["clause"], f["key"]) != sig] + others
    return col.result(dict(case=dict(cfg=cfg, case=case), findings=findings, confirmed_on="migen.sim"))


def replay(case):
    col = Collector(ID)
    _, fs, _, _ = evaluate(case["cfg"], case["case"], backend="migen")
    return quiet_unknown(col, fs)
