"""C10 Wishbone port: one acknowledge per access and memory semantics (both bridge directions)."""
import json
import lib.compat  # noqa
from migen import *
from hypothesis import strategies as st
from lib.runner import Collector, hyp_search, digest
from lib.fastsim import FastSim, MigenSim, compile_dut, HarnessError
from lib.native import NativeMaster, NativeSlave, native_slave
from lib.wishbone import WBMaster, WBMemSlave, CTI_INCR, CTI_END
from lib.portcase import slave_sched

ID = "C10"
REQUIRED_CLASSES = ['abort', 'rw_same_wide_word', 'burst_crosses_native_word', 'n2w', 'direction_change_inside_announced_burst']      # classes that must occur in every run (else harness error: vacuous generator)
LEVEL = "exploration"
RULE = ("case = (LiteDRAMWishbone2Native for bus:port width ratios 1/8..8 and base addresses, or LiteDRAMNative2Wishbone word/byte addressed) x (Wishbone master: classic cycles "
        "and incrementing bursts, any sel, back-to-back or with idle cycles, aborts = cyc and stb dropped at a generated cycle before the acknowledge) x (realistic native slave "
        "timings); non-trivial = writes and reads interleaved inside one wide word, or an abort, or a burst crossing into the next native word; distinct = distinct digests")
ASSUMPTIONS = ["per-byte allowed sets: the bytes SELECTED by an aborted write are undefined afterwards; every other byte must be untouched and every later access must behave normally",
               "the realistic native slave of lib/native.py (one-cycle strobes regardless of valid/ready, >= 3 / 5 cycles after acceptance)",
               "a Wishbone master may start the next access in the cycle after an acknowledge, and at the earliest one idle cycle after an abort",
               "violations are confirmed on stock migen.sim before being reported"]

_CACHE = {}


class W2N(Module):
    def __init__(self, cfg):
        from litex.soc.interconnect import wishbone
        from litedram.common import LiteDRAMNativePort
        from litedram.frontend.wishbone import LiteDRAMWishbone2Native
        self.wb = wishbone.Interface(data_width=cfg["bus_dw"], adr_width=30)
        self.port = LiteDRAMNativePort("both", address_width=cfg.get("aw", 24), data_width=cfg["port_dw"])
        self.submodules.bridge = LiteDRAMWishbone2Native(self.wb, self.port, base_address=cfg.get("base", 0))


class N2W(Module):
    def __init__(self, cfg):
        from litex.soc.interconnect import wishbone
        from litedram.common import LiteDRAMNativePort
        from litedram.frontend.wishbone import LiteDRAMNative2Wishbone
        self.wb = wishbone.Interface(data_width=cfg["bus_dw"], adr_width=32, addressing=cfg.get("addressing", "word"))
        self.port = LiteDRAMNativePort("both", address_width=cfg.get("aw", 20), data_width=cfg["port_dw"])
        self.submodules.bridge = LiteDRAMNative2Wishbone(self.port, self.wb, base_address=cfg.get("base", 0))


def get_sim(cfg, backend):
    cls = W2N if cfg["kind"] == "w2n" else N2W
    if backend == "migen":
        d = cls(cfg)
        return d, MigenSim(d)
    k = json.dumps(cfg, sort_keys=True)
    if k not in _CACHE:
        if len(_CACHE) > 8:
            _CACHE.clear()
        d = cls(cfg)
        _CACHE[k] = (d, compile_dut(d))
    d, c = _CACHE[k]
    return d, FastSim(c)


# ---------------------------------------------------------------------------------------------------
class ByteRef:
    """byte-addressed reference memory with allowed sets"""
    def __init__(self, initial):
        self.initial = initial          # function byte address -> value
        self.m = {}

    ANY = frozenset(range(256))

    def allowed(self, a):
        s = self.m.get(a)
        return {self.initial(a)} if s is None else s

    def write(self, a, v, certain=True):
        if certain:
            self.m[a] = {v}
        else:
            # a byte selected by an ABORTED write is undefined afterwards (the master abandoned it); the property only demands
            # that nothing else is disturbed
            self.m[a] = self.ANY

    def observe(self, a, v):
        self.m[a] = {v}


def _fmt(s):
    return "any" if len(s) == 256 else sorted("0x%02x" % x for x in s)


def run_w2n(cfg, stim, backend="fast"):
    dut, sim = get_sim(cfg, backend)
    sl = stim["slave"]
    slave = native_slave([dut.port], sl, apply_lost=True)
    master = WBMaster(dut.wb, stim["ops"])
    ratio_dn = max(1, cfg["bus_dw"] // cfg["port_dw"])
    lat = max((sl.get("wlat") or [3]) + (sl.get("rlat") or [5])) + sum(sl.get("ready") or [0]) + 10
    per = 40 + ratio_dn * lat * 2 + 8 * max(1, cfg["port_dw"] // cfg["bus_dw"])
    cap = 300 + sum(op.get("gap", 0) + per for op in stim["ops"])
    t = 0
    quiet = 0
    done = False
    while t < cap:
        w = slave.cycle(sim, t) + master.cycle(sim, t)
        sim.step(w)
        t += 1
        if master.done() and slave.idle():
            quiet += 1
            if quiet > 60 + 8 * max(1, cfg["port_dw"] // cfg["bus_dw"]):
                done = True
                break
        else:
            quiet = 0
    if hasattr(slave, "finish"):
        slave.finish(t)
    return dict(master=master, slave=slave, cycles=t, completed=done, dut=dut, per=per)


def oracle_w2n(cfg, stim, r):
    fs = []
    m, s = r["master"], r["slave"]
    bus_b, port_b = cfg["bus_dw"] // 8, cfg["port_dw"] // 8
    base = cfg.get("base", 0)

    def initial(a):
        wv = s.bg(a // port_b, cfg["port_dw"])
        return (wv >> (8 * (a % port_b))) & 0xff
    ref = ByteRef(initial)
    # strobes that belong to an aborted write may find no data (the master has gone); their effect on memory is judged by the
    # allowed sets below (the slave applies the data/enable wires like the real crossbar does)
    ab_ranges = [(op["adr"] * bus_b - base, op["adr"] * bus_b - base + bus_b) for k, op in enumerate(stim["ops"]) if m.result[k] and m.result[k][0] == "abort" and op["we"]]
    for e in s.lost:
        if e[0] == "W-extra":
            fs.append(dict(clause="C10.extra_write_beat", key="W-extra", what="stream-style native port: the bridge put more write-data beats on the port than write commands (a beat "
                           "is left over at the end of the run; every later write is paired with the data of an earlier one)"))
            break
        if e[0].startswith("W") and any(lo <= e[3] * port_b < hi or lo < (e[3] + 1) * port_b <= hi for lo, hi in ab_ranges):
            continue
        if e[0].startswith("R") and any(m.result[k] and m.result[k][0] == "abort" for k in range(len(stim["ops"]))):
            continue      # read data of an aborted read may be discarded
        fs.append(dict(clause="C10.lost_beat", key=e[0], what="native-side %s at cycle %d (address 0x%x): the bridge was not %s when the one-cycle strobe arrived" % (
            e[0], e[1], e[3], "presenting write data" if e[0].startswith("W") else "ready for read data")))
        break
    if m.spurious:
        fs.append(dict(clause="C10.ack_outside_cycle", key="ack", what="ack asserted at cycle %d while the master had cyc/stb low" % m.spurious[0]))
    for k, op in enumerate(stim["ops"]):
        res = m.result[k]
        if res is None:
            break
        ba = op["adr"] * bus_b - base
        if res[0] == "abort":
            if op["we"]:
                for b in range(bus_b):
                    if (op["sel"] >> b) & 1:
                        ref.write(ba + b, (op["data"] >> (8 * b)) & 0xff, certain=False)
            continue
        if op["we"]:
            for b in range(bus_b):
                if (op["sel"] >> b) & 1:
                    ref.write(ba + b, (op["data"] >> (8 * b)) & 0xff)
        else:
            d = res[2]
            for b in range(bus_b):
                if (op["sel"] >> b) & 1 or True:
                    v = (d >> (8 * b)) & 0xff
                    if v not in ref.allowed(ba + b):
                        fs.append(dict(clause="C10.read_data", key="data", what="access %d: read of bus address 0x%x returned 0x%x, byte %d = 0x%02x not in allowed %s" % (
                            k, op["adr"], d, b, v, _fmt(ref.allowed(ba + b)))))
                        break
                    ref.observe(ba + b, v)
            if fs and fs[-1]["clause"] == "C10.read_data":
                break
    if not r["completed"]:
        k = next((i for i, x in enumerate(m.result) if x is None), len(m.result))
        fs.append(dict(clause="C10.hang", key="hang", what="access %d (%s adr 0x%x) not acknowledged, run stopped after %d cycles; %d earlier aborts" % (
            k, "WR" if k < len(stim["ops"]) and stim["ops"][k]["we"] else "RD", stim["ops"][k]["adr"] if k < len(stim["ops"]) else 0, r["cycles"],
            sum(1 for x in m.result[:k] if x and x[0] == "abort"))))
    else:
        touched = set(ref.m) | set(a * port_b + b for a in s.mem for b in range(port_b))
        for a in sorted(touched):
            sv = (s.read_mem(a // port_b, cfg["port_dw"]) >> (8 * (a % port_b))) & 0xff
            if sv not in ref.allowed(a):
                fs.append(dict(clause="C10.final_memory", key="mem", what="memory byte 0x%x holds 0x%02x, allowed %s" % (a, sv, _fmt(ref.allowed(a)))))
                break
    return fs


def classify_w2n(cfg, stim):
    cl = set()
    ops = stim["ops"]
    if stim.get("slave", {}).get("style") == "fifo":
        cl.add("stream_style_native_port")
    wide = max(cfg["bus_dw"], cfg["port_dw"]) // 8
    bus_b = cfg["bus_dw"] // 8
    if any(op.get("abort_after") is not None for op in ops):
        cl.add("abort")
    for a, b in zip(ops, ops[1:]):
        if a["we"] != b["we"] and (a["adr"] * bus_b) // wide == (b["adr"] * bus_b) // wide:
            cl.add("rw_same_wide_word")
        if a.get("cti") == CTI_INCR and (a["adr"] * bus_b) // wide != (b["adr"] * bus_b) // wide:
            cl.add("burst_crosses_native_word")
        if a.get("cti") == CTI_INCR and a["we"] != b["we"] and b.get("gap", 0) == 0:
            cl.add("direction_change_inside_announced_burst")
    return cl


@st.composite
def w2n_stim(draw, cfg, max_acc):
    bus_b, port_b = cfg["bus_dw"] // 8, cfg["port_dw"] // 8
    base = cfg.get("base", 0)
    wide = max(bus_b, port_b)
    full = (1 << bus_b) - 1
    regions = [draw(st.integers(0, 63)) * wide for _ in range(draw(st.integers(1, 3)))]
    ops = []
    n = draw(st.integers(1, max_acc))
    allow_abort = draw(st.integers(0, 2)) == 0
    while len(ops) < n:
        reg = regions[draw(st.integers(0, len(regions) - 1))]
        first = (base + reg) // bus_b + draw(st.integers(0, max(0, 2 * wide // bus_b - 1)))
        kind = draw(st.sampled_from(["single", "single", "burst", "burst", "pair", "irregular"]))
        we = draw(st.integers(0, 1))
        blen = 1 if kind == "single" else draw(st.integers(2, 8)) if kind in ("burst", "irregular") else 2
        if kind == "irregular":
            # any sequence of (we, CTI) inside one held CYC: a master that announces an incrementing burst (CTI=2) and then
            # changes direction or address ("all access sequences (addresses, sel, we, CTI)"); this is what the merge buffer's
            # drain-before-read and the read cache's invalidate-on-write exist for
            for i in range(blen):
                op = dict(we=draw(st.integers(0, 1)), adr=first + draw(st.integers(0, max(1, wide // bus_b))) , sel=full if draw(st.integers(0, 2)) else draw(st.integers(1, full)),
                          gap=draw(st.sampled_from([0, 0, 1, 3])) if i == 0 else 0, cti=draw(st.sampled_from([CTI_INCR, CTI_INCR, CTI_END, 0])), hold_cyc=True)
                if op["we"]:
                    op["data"] = draw(st.integers(0, (1 << cfg["bus_dw"]) - 1))
                ops.append(op)
            continue
        for i in range(blen):
            op = dict(we=we if kind != "pair" else (1 if i == 0 else 0), adr=first + (i if kind == "burst" else 0),
                      sel=full if draw(st.integers(0, 2)) else draw(st.integers(1, full)), gap=draw(st.sampled_from([0, 0, 1, 2, 5, 12])) if i == 0 else 0)
            if op["we"]:
                op["data"] = draw(st.integers(0, (1 << cfg["bus_dw"]) - 1))
            if kind == "burst":
                op["cti"] = CTI_INCR if i < blen - 1 else CTI_END
                op["hold_cyc"] = i < blen - 1
            if allow_abort and draw(st.integers(0, 5)) == 0:
                op["abort_after"] = draw(st.integers(0, 12))
                op["abort_idle"] = draw(st.integers(1, 4))
                op["hold_cyc"] = False
                ops.append(op)
                break
            ops.append(op)
    sl = draw(slave_sched())
    if allow_abort and draw(st.booleans()):
        # a cycle dropped while its native command is still waiting to be accepted, and the next access right behind it:
        # long command stalls on the native side, short waits before the abort, one idle cycle after it
        sl["ready"] = draw(st.sampled_from([[1, 9], [2, 14], [1, 20], [0, 8, 1, 12]]))
        for op in ops:
            if op.get("abort_after") is not None:
                op["abort_after"] = op["abort_after"] % 7
                op["abort_idle"] = 1
    if cfg["bus_dw"] != cfg["port_dw"]:
        # stream-style native ports (data accepted ahead of its command) are generated only where the repository composes the bridge with such a
        # port: bus and port of equal width on the user side of a converter / CDC / ECC port (gen.py). The bridge's own converters are always
        # built in front of a "sys" crossbar-style port (LiteDRAMNativePortConverter asserts equal clock domains), see DESIGN 8.2.
        for k in ("style", "wdepth", "rdepth", "wready"):
            sl.pop(k, None)
    return dict(ops=ops[:max_acc + 8], slave=sl)


# ---------------------------------------------------------------------------------------------------
def run_n2w(cfg, stim, backend="fast"):
    dut, sim = get_sim(cfg, backend)
    slave = WBMemSlave(dut.wb, latencies=stim["wb_lat"])
    master = NativeMaster(dut.port, stim["ops"], wait_reads=stim.get("wait_reads", False))
    cap = 200 + sum(op.get("gap", 0) + max(stim["wb_lat"]) + 6 for op in stim["ops"])
    nreads = sum(1 for op in stim["ops"] if not op["we"])
    t = 0
    quiet = 0
    done = False
    while t < cap:
        w = slave.cycle(sim, t) + master.cycle(sim, t)
        sim.step(w)
        t += 1
        if master.idle() and len(master.r_log) >= nreads:
            quiet += 1
            if quiet > 10:
                done = True
                break
        else:
            quiet = 0
    return dict(master=master, slave=slave, cycles=t, completed=done)


def oracle_n2w(cfg, stim, r):
    fs = []
    m, s = r["master"], r["slave"]
    dw = cfg["port_dw"]
    nb = dw // 8
    base = cfg.get("base", 0)
    byte = cfg.get("addressing", "word") == "byte"
    ref = {}
    exp = []

    def wbadr(a):
        return a * nb + base if byte else a + base // nb
    for k, op in enumerate(stim["ops"]):
        if m.accept_t[k] is None:
            break
        cur = ref.get(op["addr"])
        if cur is None:
            cur = s.bg(wbadr(op["addr"]), dw)
        if op["we"]:
            for b in range(nb):
                if (op["be"] >> b) & 1:
                    cur = (cur & ~(0xff << (8 * b))) | (op["data"] & (0xff << (8 * b)))
            ref[op["addr"]] = cur
        else:
            exp.append((k, cur))
    got = m.r_log
    if len(got) > len(exp) or (r["completed"] and len(got) != len(exp)):
        fs.append(dict(clause="C10.n2w_read_count", key="n2w", what="%d reads accepted, %d beats returned" % (len(exp), len(got))))
    for j in range(min(len(got), len(exp))):
        if got[j][1] != exp[j][1]:
            fs.append(dict(clause="C10.n2w_read_data", key="n2w", what="native read #%d returned 0x%x, reference 0x%x" % (j, got[j][1], exp[j][1])))
            break
    if not r["completed"]:
        fs.append(dict(clause="C10.n2w_hang", key="n2w", what="not finished after %d cycles" % r["cycles"]))
    else:
        for a, v in ref.items():
            if s.read_mem(wbadr(a)) != v:
                fs.append(dict(clause="C10.n2w_final_memory", key="n2w", what="wishbone memory word 0x%x holds 0x%x, reference 0x%x" % (wbadr(a), s.read_mem(wbadr(a)), v)))
                break
        for adr in s.mem:
            if adr not in set(wbadr(a) for a in ref):
                fs.append(dict(clause="C10.n2w_stray_write", key="n2w", what="wishbone address 0x%x written, no native write maps there" % adr))
                break
        # every wishbone access had all/selected sel as expected: reads use full sel
    return fs


@st.composite
def n2w_stim(draw, cfg, max_ops):
    dw = cfg["port_dw"]
    full = (1 << (dw // 8)) - 1
    top = (1 << cfg.get("aw", 20)) - 1      # "any base address", all addresses of the native port: bottom, top and middle of its range
    pool = [draw(st.one_of(st.integers(0, min(top, 1023)), st.integers(0, top), st.sampled_from([top, top - 1, (top + 1) // 2, (top + 1) // 2 - 1, (top + 1) // 4 * 3])))
            for _ in range(draw(st.integers(1, 4)))]
    ops = []
    for _ in range(draw(st.integers(1, max_ops))):
        we = draw(st.integers(0, 1))
        op = dict(we=we, addr=pool[draw(st.integers(0, len(pool) - 1))], gap=draw(st.sampled_from([0, 0, 1, 4])))
        if we:
            op.update(data=draw(st.integers(0, (1 << dw) - 1)), be=full if draw(st.booleans()) else draw(st.integers(0, full)), lead=draw(st.sampled_from([0, 0, 2])))
        ops.append(op)
    return dict(ops=ops, wb_lat=draw(st.lists(st.integers(1, 9), min_size=1, max_size=4)), wait_reads=draw(st.booleans()))


# ---------------------------------------------------------------------------------------------------
def devices():
    out = []
    for bus, port in ((32, 32), (64, 64), (8, 8), (32, 8), (64, 32), (64, 16), (32, 64), (32, 128), (32, 256), (8, 32), (16, 128), (64, 8)):
        for base in (0, 0x10000000):
            out.append(dict(kind="w2n", bus_dw=bus, port_dw=port, base=base))
        if bus < port:
            # "any base address": aligned to the bus word but not to the (wider) native word
            out.append(dict(kind="w2n", bus_dw=bus, port_dw=port, base=0x10000000 + (bus // 8) * (1 if port // bus == 2 else 3)))
    for addressing in ("word", "byte"):
        for base, aw in ((0, 20), (0x4000, 20), (0x40000000, 24), (0x80000000, 10), (0x10000000, 26 if addressing == "word" else 24)):
            out.append(dict(kind="n2w", bus_dw=32, port_dw=32, addressing=addressing, base=base, aw=aw))
    return out


def evaluate(cfg, stim, backend="fast"):
    if cfg["kind"] == "w2n":
        r = run_w2n(cfg, stim, backend)
        fs = oracle_w2n(cfg, stim, r)
        for f in fs:
            f["key"] = ("narrow_bus" if cfg["bus_dw"] < cfg["port_dw"] else "equal" if cfg["bus_dw"] == cfg["port_dw"] else "wide_bus") + "/" + f["key"] + ("/after_abort" if any(
                x and x[0] == "abort" for x in r["master"].result) else "")
        return r, fs, classify_w2n(cfg, stim)
    r = run_n2w(cfg, stim, backend)
    return r, oracle_n2w(cfg, stim, r), {"n2w"}


def stim_strategy(cfg, tier):
    n = 16 if tier == "quick" else 30
    return w2n_stim(cfg, n) if cfg["kind"] == "w2n" else n2w_stim(cfg, n)


def shards(tier, seed):
    devs = devices()
    out = []
    for i in range(16):
        mine = devs[i::16]
        out.append(dict(tier=tier, seed=seed * 1000 + i, idx=i, devs=mine, ncases=(150 if tier == "quick" else 4000)))
    return out


def run_shard(sh):
    col = Collector(ID)
    violation = None
    for di, cfg in enumerate(sh["devs"]):
        def t(stim, cfg=cfg):
            r, fs, classes = evaluate(cfg, stim)
            tag = "%s %d:%d%s" % (cfg["kind"], cfg["bus_dw"], cfg["port_dw"], " base" if cfg.get("base") else "")
            col.case(dict(cfg=cfg, stim=stim), classes=list(classes) + [tag], nontrivial=bool(classes),
                     sample=dict(device=tag, ops=[{k: (hex(v) if k in ("data", "adr", "addr") else v) for k, v in op.items()} for op in stim["ops"][:6]], cycles=r["cycles"]))
            col.stats["simulated_cycles"] = col.stats.get("simulated_cycles", 0) + r["cycles"]
            return col.filter(fs)
        found = hyp_search(t, stim_strategy(cfg, sh["tier"]), sh["seed"] * 100 + di, sh["ncases"], shrink=True)
        if found:
            stim, fs = found
            _, fm, _ = evaluate(cfg, stim, backend="migen")
            fm = col.filter(fm)
            if not any(f["clause"] == fs[0]["clause"] for f in fm):
                raise HarnessError("C10 finding %s does not reproduce on migen.sim" % fs[0]["clause"])
            violation = dict(case=dict(cfg=cfg, stim=stim), findings=fm, confirmed_on="migen.sim")
            break
    if sh["idx"] < 2 and violation is None:
        # differential self-test of the simulator on one generated case
        cfg = sh["devs"][0]
        from lib.coreprop import draw_examples
        for stim in draw_examples(stim_strategy(cfg, sh["tier"]), 1, sh["seed"] + 5):
            ra, fa, _ = evaluate(cfg, stim, "fast")
            rb, fb, _ = evaluate(cfg, stim, "migen")
            la = ra["master"].result if cfg["kind"] == "w2n" else ra["master"].r_log
            lb = rb["master"].result if cfg["kind"] == "w2n" else rb["master"].r_log
            if la != lb or ra["cycles"] != rb["cycles"]:
                raise HarnessError("fastsim differs from migen.sim on %s" % cfg)
            col.diff_cycles += ra["cycles"]
    return col.result(violation)


def replay(case):
    col = Collector(ID)
    _, fm, _ = evaluate(case["cfg"], case["stim"], backend="migen")
    return col.filter(fm)
