"""C04 Refresh is never starved and keeps the datasheet refresh rate (whole core, refresh monitor on the reference DRAM)."""
import math
from fractions import Fraction
import lib.compat  # noqa
from hypothesis import strategies as st
from lib import corecase as cc
from lib import modcfg
from lib import datasheet as ds
from lib.coreprop import core_shards, run_core_shard, replay_core

ID = "C04"
REQUIRED_CLASSES = ['idle_exact_period', 'refresh_under_traffic', 'zqcs_seen', 'row_thrash_stream']      # classes that must occur in every run (else harness error: vacuous generator)
LEVEL = "exploration"
RULE = ("case = (configuration with refresh on: datasheet tREFI of a library/generated module at a generated clock, or shortened 100-250 cycles; postponing 1-8; ZQCS on/off) x "
        "(traffic from idle to saturating single-bank / all-write / all-read streams looped for >= 3.5 refresh sequences); non-trivial = >= 3 refresh sequences of which at "
        "least one arrives while commands are queued on >= 2 banks, or an idle run used for the exact-period check; distinct = distinct (configuration, stimulus) digests")
ASSUMPTIONS = ["fixed service latency L = 4(tRC+tRP+tRCD+tWTP+tFAW) + 16 nbanks + read_latency + 64 + postponing (tRP+tRFC+4) controller cycles, a function of the configuration only",
               "ZQCS recurrence is accepted up to its period plus one refresh-sequence period plus L (it can only be issued at the end of a refresh sequence)",
               "bounded runs: a starvation that needs more than the simulated cycles is not reached",
               "violations are confirmed on stock migen.sim before being reported"]


def tval(cfg, k):
    return cfg["timing"].get(k) or 0


def service_latency(cfg):
    t = cfg["timing"]
    n = cfg["nphases"]
    cwl = cfg.get("cwl") if cfg.get("cwl") is not None else cfg["cl"]
    twtp = math.ceil(cwl / n) + t["tWR"] + t["tCCD"]
    trc = t.get("tRC") or (tval(cfg, "tRAS") + t["tRP"])
    nb = (1 << cfg["bankbits"]) * cfg.get("nranks", 1)
    post = cfg["ctrl"].get("refresh_postponing", 1)
    return 4 * (trc + t["tRP"] + t["tRCD"] + twtp + tval(cfg, "tFAW")) + 16 * nb + cfg["read_latency"] + 64 + post * (t["tRP"] + t["tRFC"] + 4)


def trefi_cycles_allowed(cfg):
    """the datasheet refresh interval in controller cycles (exact); the cycle count handed to the controller when it was overridden by the harness"""
    if "module" in cfg and not cfg.get("trefi_overridden"):
        cls = modcfg.module_class(cfg["module"])
        e = ds.entry(cls, cfg["module"].get("speedgrade"), "tREFI", cfg["module"].get("fine"))
        return (e[1] + ds.TOL_NS) / ds.period_ns(cfg["clk_freq"])
    return Fraction(cfg["timing"]["tREFI"])


def oracle(run):
    cfg = run.cfg
    fs = []
    classes = set()
    n = cfg["nphases"]
    N = cfg["ctrl"].get("refresh_postponing", 1)
    I = trefi_cycles_allowed(cfg)
    L = service_latency(cfg)
    refs = [t // n for t in run.dram.refs]            # controller cycles
    idle = all(len(o) == 0 for o in run.stim["ports"])
    # (b) k-th refresh no later than (k + N) intervals + L ; refreshes owed at the end of the run
    worst = None
    for k, t in enumerate(refs, start=1):
        late = t - (k + N) * I
        if worst is None or late > worst:
            worst = late
        if late > L:
            fs.append(dict(clause="C04.refresh_late", key="k", what="refresh #%d issued at cycle %d, bound (k+%d) x %.2f + L(%d) = %.1f" % (k, t, N, float(I), L, float((k + N) * I + L))))
            break
    owed_end = math.floor(run.cycles / I) - len(refs)
    if owed_end > N and (run.cycles - (len(refs) + 1 + N) * I) > L:
        fs.append(dict(clause="C04.refresh_missing", key="end", what="after %d cycles only %d refreshes were issued (interval %.2f cycles, %d postponable, L=%d)" % (run.cycles, len(refs), float(I), N, L)))
    run.c04_worst_late = None if worst is None else float(worst)
    # sequences = groups of N refreshes; request instants are not delayed by traffic
    seq_starts = refs[0::N]
    P = N * cfg["timing"]["tREFI"]
    for j, t in enumerate(seq_starts, start=1):
        if t < j * P:
            fs.append(dict(clause="C04.refresh_early", key="seq", what="refresh sequence #%d started at cycle %d, before its request instant %d" % (j, t, j * P)))
            break
        if t > j * P + L:
            fs.append(dict(clause="C04.request_delayed", key="seq", what="refresh sequence #%d started at cycle %d, more than L=%d after its free-running request instant %d" % (j, t, L, j * P)))
            break
    if len(refs) % N and run.completed and refs and (run.cycles - refs[-1]) > L:
        fs.append(dict(clause="C04.sequence_incomplete", key="seq", what="%d refreshes is not a multiple of postponing=%d" % (len(refs), N)))
    # (a) idle: exactly periodic, period within the datasheet
    if idle and len(seq_starts) >= 3:
        d = [b - a for a, b in zip(seq_starts, seq_starts[1:])]
        if len(set(d)) != 1:
            fs.append(dict(clause="C04.idle_not_periodic", key="idle", what="idle refresh sequence spacing varies: %s" % d[:6]))
        elif d[0] > N * I:
            fs.append(dict(clause="C04.idle_period_long", key="idle", what="idle refresh period %d cycles > %d x %.3f cycles allowed by the datasheet" % (d[0], N, float(I))))
        classes.add("idle_exact_period")
    # (c) precharge-all before each refresh with every bank closed; traffic resumes
    for f in run.dram.findings:
        if f["clause"] in ("C02.ref_with_open_bank", "C02.zqc_with_open_bank") or (f["clause"] == "C03.tRP" and f.get("cmd") in ("REF", "ZQC")) or f["clause"] in ("C03.tRFC", "C03.tZQCS"):
            fs.append(dict(clause="C04." + f["clause"][4:], key=f["clause"], what=str(f)))
            break
    prea_before = 0
    cmds = run.dram.cmds
    last_prea = None
    for (t, kind, ranks, bank, addr) in cmds:
        if kind == "PRE" and (addr >> 10) & 1:
            last_prea = t
        elif kind == "REF":
            if last_prea is None:
                fs.append(dict(clause="C04.ref_without_prea", key="ref", what="REF at t=%d not preceded by a precharge-all" % t))
                break
            prea_before += 1
            last_prea = None
        elif kind in ("ACT", "RD", "WR"):
            last_prea = None if kind == "ACT" else last_prea
    if not run.completed:
        fs.append(dict(clause="C04.traffic_not_resumed", key="cap", what="commands offered did not all complete within %d cycles" % run.cap))
    # (d) ZQCS
    if cfg["timing"].get("tZQCS") is not None and cfg["ctrl"].get("refresh_zqcs_freq"):
        Z = int(cfg["clk_freq"] / cfg["ctrl"]["refresh_zqcs_freq"])
        zqs = [t // n for t in run.dram.zqs]
        per = Z + N * I + L + N * (cfg["timing"]["tRP"] + cfg["timing"]["tRFC"] + 2) + cfg["timing"]["tRP"] + 16
        for j, t in enumerate(zqs, start=1):
            if t > j * per:
                fs.append(dict(clause="C04.zqcs_late", key="zq", what="ZQCS #%d at cycle %d, bound %d x (Z=%d + refresh sequence + L) = %.0f" % (j, t, j, Z, float(j * per))))
                break
        if (len(zqs) + 1) * per + per < run.cycles:
            fs.append(dict(clause="C04.zqcs_missing", key="zq", what="%d ZQCS commands in %d cycles, configured period %d cycles (recurrence bound %.0f)" % (len(zqs), run.cycles, Z, float(per))))
        if zqs:
            classes.add("zqcs_seen")
    # non-triviality: a refresh sequence arrives while >= 2 banks have queued commands
    busy = False
    open_rows = {}
    for (t, kind, ranks, bank, addr) in cmds:
        if kind == "ACT":
            open_rows[(ranks, bank)] = t
        elif kind == "PRE" and (addr >> 10) & 1:
            if len(open_rows) >= 2:
                busy = True
            open_rows.clear()
        elif kind == "PRE":
            open_rows.pop((ranks, bank), None)
    if busy:
        classes.add("refresh_under_traffic")
    if run.stim.get("kind") == "thrash":
        classes.add("row_thrash_stream")
    nseq = len(seq_starts)
    nt = nseq >= 3 and (busy or idle)
    return fs, classes, nt


@st.composite
def _cfg(draw):
    if draw(st.integers(0, 2)):
        cfg = draw(modcfg.module_cfg(short_refresh=False, refresh=True))
        if draw(st.integers(0, 2)) and cfg["ctrl"]["with_refresh"]:
            # shortened interval, but never one the device could not keep up with: every real part has tREFI >= 5 x tRFC
            cfg["timing"]["tREFI"] = max(draw(st.integers(100, 250)), 4 * (cfg["timing"]["tRP"] + cfg["timing"]["tRFC"]))
            cfg["trefi_overridden"] = True
    else:
        cfg = draw(cc.core_cfg(refresh=True))
        cfg["timing"]["tREFI"] = max(draw(st.integers(100, 250)), 4 * (cfg["timing"]["tRP"] + cfg["timing"]["tRFC"]))
    cfg["ctrl"]["with_refresh"] = True
    return cfg


def cfg_strategy(tier):
    return _cfg()


@st.composite
def _stim(draw, cfg, tier):
    N = cfg["ctrl"].get("refresh_postponing", 1)
    I = cfg["timing"]["tREFI"]
    span = int((3.6 if tier == "quick" else 6.5) * N * I) + 200
    span = min(span, 12000 if tier == "quick" else 40000)
    pool = draw(cc.loc_pool(cfg))
    kind = draw(st.sampled_from(["idle", "loop", "loop", "loop", "burst", "thrash", "thrash"]))
    ports = []
    loops = []
    am = cc.addrmap_of(cfg)
    W = cc.word_width(cfg)
    for _ in cfg["ports"]:
        if kind == "idle":
            ports.append([])
            loops.append(0)
        elif kind == "thrash":
            # saturating stream to ONE bank in which every access goes to another row than the previous one (each head command is a row
            # miss / auto-precharge candidate), all reads, all writes or mixed
            rk, bk = draw(st.integers(0, cfg.get("nranks", 1) - 1)), draw(st.integers(0, (1 << cfg["bankbits"]) - 1))
            nrows = draw(st.integers(2, 4))
            dirn = draw(st.integers(0, 2))
            ops = []
            for i in range(nrows * 2):
                we = dirn if dirn < 2 else (i // nrows) & 1
                op = dict(we=we, addr=am.encode(rk, bk, i % nrows, (i % 3) << am.align), gap=0)
                if we:
                    op.update(data=draw(st.integers(0, (1 << W) - 1)), be=(1 << (W // 8)) - 1, lead=0)
                ops.append(op)
            ports.append(ops)
            loops.append(span)
        else:
            style = draw(st.sampled_from(["stream", "writes", "reads", "mixed", "alternate", "stream"]))
            ops = draw(cc.port_ops(cfg, pool, max_ops=24, style=style, min_ops=2))
            if kind == "loop":
                for op in ops:
                    op["gap"] = min(op.get("gap", 0), 2)
            ports.append(ops)
            loops.append(span if kind == "loop" else 0)
    return dict(pool=[list(p) for p in pool], ports=ports, loop_until=loops, span=span, kind=kind)


def stim_strategy(cfg, tier):
    return _stim(cfg, tier)


def run_kwargs(cfg, stim):
    return dict(min_cycles=stim.get("span", 0))


def stats(run, col):
    col.stat_max("max_refresh_lateness_cycles_vs_bound_without_L", run.c04_worst_late)
    col.stat_max("max_service_latency_L", service_latency(run.cfg))


def shards(tier, seed):
    return core_shards(ID, tier, seed, ncfg=(2 if tier == "quick" else 6), ncases=(10 if tier == "quick" else 15))


def run_shard(sh):
    return run_core_shard(sh, __import__(__name__, fromlist=["x"]))


def replay(case):
    return replay_core(case, __import__(__name__, fromlist=["x"]))
