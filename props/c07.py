"""C07 Width-converted ports behave like one memory at the narrower or wider width."""
import lib.compat  # noqa
from hypothesis import strategies as st
from lib.runner import Collector, hyp_search, digest
from lib import portcase as pc
from lib.fastsim import HarnessError

ID = "C07"
REQUIRED_CLASSES = ['descending_in_word', 'repeated_in_word', 'read_after_write_same_word', 'partial_enable', 'core:conv']      # classes that must occur in every run (else harness error: vacuous generator)
LEVEL = "exploration"
RULE = ("case = (converter: up 1:2..1:32 or down 2:1..8:1, mode read/write/both, reverse on/off) x (user command sequence whose addresses inside one wide word are ascending, "
        "descending, repeated or random, random cmd.last, gaps, data lead, any byte enables; flush raised at the end) x (controller-side realistic slave: stall schedule, "
        "strobe latencies, outstanding limit); non-trivial = >= 2 commands inside one wide word in non-ascending order, or a read right after a write to the same wide word, or a "
        "partial-enable write, or a mid-sequence last; distinct = distinct (device, stimulus) digests")
ASSUMPTIONS = ["the realistic slave (lib/native.py) only shows behaviour the real crossbar can show: one-cycle wdata.ready / rdata.valid strobes regardless of valid/ready, >= 3 / 5 cycles after acceptance, acceptance order",
               "the master raises flush after its last command (the converter's documented way to complete an unfinished wide word)",
               "with reverse=True the sub-words of a wide word are laid out in the opposite order (a fixed byte permutation of the same memory)",
               "violations are confirmed on stock migen.sim before being reported"]


def devices():
    out = []
    for mode in ("both", "write", "read"):
        for rev in (False, True):
            for udw, ratio in ((8, 2), (8, 4), (16, 8), (8, 16), (8, 32), (32, 2), (32, 4)):
                out.append(dict(kind="conv", mode=mode, user_dw=udw, ctrl_dw=udw * ratio, aw=12, reverse=rev))
            for cdw, ratio in ((8, 2), (16, 4), (8, 8), (32, 2)):
                out.append(dict(kind="conv", mode=mode, user_dw=cdw * ratio, ctrl_dw=cdw, aw=12, reverse=rev))
    return out


@st.composite
def stims(draw, cfg, max_ops):
    ops = draw(pc.adapter_ops(cfg, max_ops))
    wait_reads = draw(st.integers(0, 4)) == 0
    if wait_reads:
        # a master that waits for read data before its next command must mark that read as the end of a burst (documented:
        # "last command has to use cmd.last=1 if the last burst is not complete"; the Wishbone bridge does exactly this)
        for op in ops:
            if not op["we"]:
                op["last"] = 1
    return dict(ops=ops, slave=draw(pc.slave_sched()), wait_reads=wait_reads)


def evaluate(cfg, stim, backend="fast"):
    run = pc.run_adapter(cfg, stim, backend)
    fs, _ = pc.oracle_adapter(run, "C07")
    for f in fs:
        f["key"] = ("up" if cfg["user_dw"] < cfg["ctrl_dw"] else "down") + "/" + f["key"]
    classes = pc.classify_ops(cfg, stim["ops"])
    return run, fs, classes


def shards(tier, seed):
    devs = devices()
    ns = 16
    out = []
    for i in range(ns):
        mine = devs[i::ns]
        if tier == "quick":
            k = (seed + i) % len(mine)
            mine = (mine[k:] + mine[:k])[:3]
        out.append(dict(tier=tier, seed=seed * 1000 + i, idx=i, devs=mine, ncases=(80 if tier == "quick" else 300)))
    for i in range(8 if tier == "quick" else 16):
        out.append(dict(kind="core", tier=tier, seed=seed * 1000 + 500 + i, idx=i, ncfg=(2 if tier == "quick" else 4), ncases=(12 if tier == "quick" else 25)))
    return out


def diff_selftest(cfg, stim, col):
    ta, tb = [], []
    for backend, tr in (("fast", ta), ("migen", tb)):
        dut, sim = pc.get_sim(cfg, backend)
        from lib.native import NativeMaster, NativeSlave
        sl = stim.get("slave", {})
        slave = NativeSlave([dut.ctrl], ready_pattern=sl.get("ready"), wlat=sl.get("wlat"), rlat=sl.get("rlat"), qmax=sl.get("qmax", 8))
        master = NativeMaster(dut.user, stim["ops"], flush_at_end=True, use_last=True)
        obs = [dut.user.cmd.ready, dut.user.wdata.ready, dut.user.rdata.valid, dut.user.rdata.data, dut.ctrl.cmd.valid, dut.ctrl.cmd.addr, dut.ctrl.cmd.we,
               dut.ctrl.wdata.valid, dut.ctrl.wdata.data, dut.ctrl.wdata.we, dut.ctrl.rdata.ready]
        for t in range(150):
            tr.append([sim.get(s) for s in obs])
            w = slave.cycle(sim, t) + master.cycle(sim, t)
            sim.step(w)
    if ta != tb:
        bad = [i for i in range(len(ta)) if ta[i] != tb[i]][0]
        raise HarnessError("fastsim differs from migen.sim on %s at cycle %d" % (cfg, bad))
    col.diff_cycles += len(ta)


def run_core_shard(sh):
    """the same property through crossbar.get_port(...) on the whole core (controller + reference DRAM)"""
    from lib import coremc
    from lib.coreprop import draw_examples
    col = Collector(ID)
    violation = None
    want = "conv" if sh["idx"] % 3 else "both"
    for ci, cfg in enumerate(draw_examples(coremc.core_cfg(want), sh["ncfg"], sh["seed"])):
        try:
            coremc.get_sim(cfg, "fast")
        except HarnessError:
            raise
        except Exception as e:
            # a configuration that the sources refuse to elaborate cannot be simulated; it is counted (evidence) and the shard goes on with its
            # other configurations (the generator only draws combinations get_port documents, so on the unchanged tree this stays 0)
            col.stats["configurations_that_do_not_elaborate"] = col.stats.get("configurations_that_do_not_elaborate", 0) + 1
            continue

        def t(stim, cfg=cfg):
            r = coremc.run(cfg, stim)
            fs = coremc.oracle(r, "C07")
            kinds = sorted(set(coremc._kind(pc, 0) for pc in cfg["ports"]))
            col.case(dict(cfg=cfg, stim=stim), classes=["core:" + k for k in kinds], nontrivial=True,
                     sample=dict(whole_core=True, memtype=cfg["memtype"], ports=cfg["ports"], clocks=cfg.get("clocks"), ops_per_port=[len(o) for o in stim["ports"]], sys_cycles=r.cycles))
            col.stats["simulated_core_cycles"] = col.stats.get("simulated_core_cycles", 0) + r.cycles
            return col.filter(fs)
        found = hyp_search(t, coremc.core_stim(cfg, 20 if sh["tier"] == "quick" else 40), sh["seed"] * 100 + ci, sh["ncases"], shrink=True)
        if found:
            stim, fs = found
            fm = col.filter(coremc.oracle(coremc.run(cfg, stim, backend="migen"), "C07"))
            if not any(f["clause"] == fs[0]["clause"] for f in fm):
                raise HarnessError("C07 whole-core finding %s does not reproduce on migen.sim" % fs[0]["clause"])
            violation = dict(case=dict(core=True, cfg=cfg, stim=stim), findings=fm, confirmed_on="migen.sim")
            break
    return col.result(violation)


def run_shard(sh):
    if sh.get("kind") == "core":
        return run_core_shard(sh)
    col = Collector(ID)
    violation = None
    for di, cfg in enumerate(sh["devs"]):
        state = dict(first=True)

        def t(stim, cfg=cfg, state=state):
            if state["first"] and di == 0 and sh["idx"] < 4:
                diff_selftest(cfg, stim, col)
            state["first"] = False
            run, fs, classes = evaluate(cfg, stim)
            tag = "%s %d:%d %s%s" % ("up" if cfg["user_dw"] < cfg["ctrl_dw"] else "down", cfg["user_dw"], cfg["ctrl_dw"], cfg["mode"], " rev" if cfg["reverse"] else "")
            col.case(dict(cfg=cfg, stim=stim), classes=list(classes) + [tag], nontrivial=bool(classes),
                     sample=dict(device=tag, ops=[{k: (hex(v) if k in ("data", "addr") else v) for k, v in op.items()} for op in stim["ops"][:8]], slave=stim["slave"], cycles=run.cycles))
            col.stats["simulated_cycles"] = col.stats.get("simulated_cycles", 0) + run.cycles
            return col.filter(fs)
        found = hyp_search(t, stims(cfg, 24 if sh["tier"] == "quick" else 40), sh["seed"] * 100 + di, sh["ncases"], shrink=True)
        if found:
            stim, fs = found
            _, fm, _ = evaluate(cfg, stim, backend="migen")
            fm = col.filter(fm)
            if not any(f["clause"] == fs[0]["clause"] for f in fm):
                raise HarnessError("C07 finding %s does not reproduce on migen.sim" % fs[0]["clause"])
            violation = dict(case=dict(cfg=cfg, stim=stim), findings=fm, confirmed_on="migen.sim")
            break
    return col.result(violation)


def replay(case):
    col = Collector(ID)
    if case.get("core"):
        from lib import coremc
        return col.filter(coremc.oracle(coremc.run(case["cfg"], case["stim"], backend="migen"), "C07"))
    _, fm, _ = evaluate(case["cfg"], case["stim"], backend="migen")
    return col.filter(fm)
