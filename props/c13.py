"""C13 DRAM-backed FIFO is lossless, ordered and bounded."""
import os
import lib.compat  # noqa
from lib.runner import Collector, hyp_search
from lib import fifocase as fc
from lib.fastsim import HarnessError

ID = "C13"
LEVEL = "exploration"
RULE = ("case = (device: LiteDRAMFIFO with bypass and stream:port width ratio 1/2/4/8, LiteDRAMFIFO without bypass, _LiteDRAMFIFO; depth 2..64 port words incl. "
        "non powers of two, base offsets, pre/post (writer/reader) FIFO depths) x (stream of 3..20 x depth distinct words, also lengths that are not a multiple of the ratio; "
        "producer and consumer schedules made of long stalls, threshold-sized stalls, bursts, duty cycles, trickles; from the horizon on both sides permanently willing) x "
        "(ONE realistic slave serving the write and the read port in acceptance order: per-port command stall schedules, strobe latencies, outstanding limit). "
        "non-trivial = write AND read pointer wrapped >= 2 times (bypass builds: and the mode FSM changed state >= 2 times), or ctrl.level reached depth; "
        "distinct = distinct (device, stimulus) digests")
REQUIRED_CLASSES = ["write_pointer_wrapped>=2", "read_pointer_wrapped>=2", "level_reached_depth", "mode_changed>=2", "state_DRAM", "raw"]
ASSUMPTIONS = ["the realistic slave (lib/native.py) only shows behaviour the real crossbar can show: one-cycle wdata.ready / rdata.valid strobes regardless of valid/ready, >= 3 / 5 cycles after acceptance; "
               "it serves both ports of the FIFO from one acceptance-ordered queue (the ordering the whole core guarantees, property C01)",
               "the producer keeps a word offered unchanged until it is taken; the consumer's ready may change freely",
               "occupancy of the memory region is tracked from the slave's log alone, in the order in which the slave performs the accesses",
               "ctrl.level and fsm.state are read from the design for the level clause and for classification only",
               "violations are confirmed on stock migen.sim before being reported"]


def devices():
    out = []
    prepost = [(16, 16), (2, 2), (4, 16), (16, 4), (32, 8), (8, 32)]
    bases = [0, 16, 1, 100, 4093, 7]
    widths = {1: [(32, 32), (64, 64), (16, 16), (128, 128)], 2: [(16, 32), (32, 64), (64, 128)], 4: [(8, 32), (16, 64), (32, 128)], 8: [(8, 64), (16, 128), (32, 256)]}
    aws = [24, 13, 32]
    # LiteDRAMFIFO with bypass
    for ri, r in enumerate((1, 2, 4, 8)):
        for di, depth in enumerate((2, 3, 4, 6, 8, 16, 33, 64)):
            k = di + ri
            dw, pdw = widths[r][k % len(widths[r])]
            pre, post = prepost[k % len(prepost)]
            out.append(dict(kind="top", bypass=1, dw=dw, pdw=pdw, aw=aws[k % 3], depth=depth, base=bases[(k * 5 + 1) % len(bases)], pre=pre, post=post))
    # LiteDRAMFIFO without bypass (ratio 1 only: asserted by the device)
    for di, depth in enumerate((2, 3, 4, 5, 8, 16, 31, 64)):
        dw = (32, 64, 8, 128)[di % 4]
        pre, post = prepost[(di + 1) % len(prepost)]
        out.append(dict(kind="top", bypass=0, dw=dw, pdw=dw, aw=aws[di % 3], depth=depth, base=bases[di % len(bases)], pre=pre, post=post))
    # _LiteDRAMFIFO
    fd = [(16, 16), (2, 2), (4, 16), (16, 2), (8, 4), (3, 5)]
    for di, depth in enumerate((2, 3, 4, 5, 7, 8, 12, 16, 17, 32, 63, 64, 2, 4, 9, 24)):
        dw = (32, 16, 64, 8)[di % 4]
        wfd, rfd = fd[di % len(fd)]
        out.append(dict(kind="raw", dw=dw, pdw=dw, aw=aws[(di + 1) % 3], depth=depth, base=bases[(di * 3 + 2) % len(bases)], wfd=wfd, rfd=rfd))
    return out


def shards(tier, seed):
    devs = devices()
    ns = 16
    # interleave the three device families over the shards
    order = sorted(range(len(devs)), key=lambda i: (i % 7, i))
    devs = [devs[i] for i in order]
    out = []
    for i in range(ns):
        mine = devs[i::ns]
        if tier == "quick":
            k = (seed + i) % len(mine)
            mine = (mine[k:] + mine[:k])[:2]
            ncases, nmax, ndiff = 140, 700, 1
        else:
            ncases, nmax, ndiff = 900, 4000, 2
        out.append(dict(tier=tier, seed=seed * 1000 + i, idx=i, devs=mine, ncases=ncases, nmax=nmax, ndiff=ndiff))
    return out


def backend_default():
    return "migen" if os.environ.get("VERIF_SIM") == "migen" else "fast"


def evaluate(cfg, stim, backend=None):
    run = fc.run_fifo(cfg, stim, backend or backend_default(), "C13")
    classes, nontrivial = fc.classify(run)
    return run, run.findings, classes, nontrivial


def run_shard(sh):
    col = Collector(ID)
    violation = None
    for di, cfg in enumerate(sh["devs"]):
        state = dict(n=0)

        def t(stim, cfg=cfg, state=state):
            if state["n"] < sh["ndiff"] and di == 0:
                col.diff_cycles += fc.diff_selftest(cfg, stim, 500)
            state["n"] += 1
            run, fs, classes, nontrivial = evaluate(cfg, stim)
            col.case(dict(cfg=cfg, stim=stim), classes=classes, nontrivial=nontrivial,
                     sample=dict(device=cfg, n=stim["n"], producer=stim["prod"], consumer=stim["cons"], slave=stim["slave"], cycles=run.cycles,
                                 write_wraps=run.wraps_w, mode_changes=run.fsm_changes, max_level=run.max_level))
            col.stats["simulated_cycles"] = col.stats.get("simulated_cycles", 0) + run.cycles
            col.stats["stream_words"] = col.stats.get("stream_words", 0) + len(run.cons.got)
            col.stats["words_through_memory"] = col.stats.get("words_through_memory", 0) + run.nrd
            col.stat_max("max_mode_changes", run.fsm_changes)
            col.stat_max("max_write_wraps", run.wraps_w)
            return col.filter(fs)
        found = hyp_search(t, fc.stim_strategy(cfg, sh["nmax"]), sh["seed"] * 100 + di, sh["ncases"], shrink=True)
        if found:
            stim, fs = found
            _, fm, _, _ = evaluate(cfg, stim, backend="migen")
            fm = col.filter(fm)
            if not any(f["clause"] == fs[0]["clause"] for f in fm):
                raise HarnessError("C13 finding %s does not reproduce on migen.sim (%s)" % (fs[0]["clause"], fs[0]["what"]))
            violation = dict(case=dict(cfg=cfg, stim=stim), findings=fm, confirmed_on="migen.sim")
            break
    return col.result(violation)


def replay(case):
    col = Collector(ID)
    _, fm, _, _ = evaluate(case["cfg"], case["stim"], backend="migen")
    return col.filter(fm)
