"""C16 Cycle counts derived from datasheets are never on the unsafe side.

Generator: every SDRAMModule subclass with a geometry x speedgrades x rates x DDR4 fine-refresh modes x controller
clock: a deterministic grid (quick: every 2 MHz, thorough: every 0.25 MHz) plus Hypothesis-drawn off-grid clocks
(floats and clocks constructed so that ns/period lands on or next to an integer).  SPD: the images under
test/spd_data and Hypothesis-mutated copies of their timing bytes.
Oracle: lib/datasheet.py exact rational arithmetic (and lib/spd.py's independent SPD decode)."""
import os, math, json, itertools
from fractions import Fraction
import lib.compat  # noqa
from lib import datasheet as ds
from lib.runner import Collector, hyp_search, digest

ID = "C16"
REQUIRED_CLASSES = ['spd DDR3', 'spd DDR4', 'tight']      # classes that must occur in every run (else harness error: vacuous generator)
LEVEL = "exploration"
RULE = ("case = (module class, speedgrade, rate, fine-refresh mode, clk_freq); grid over clk plus Hypothesis off-grid clocks; "
        "non-trivial = for some ns-valued timing the rounding decision is tight (ns/period + (n-1)/n within 1e-3 of an integer, "
        "or tREFI/period within 1e-3 above an integer); distinct = distinct (class, speedgrade, rate, fine, clk)")
ASSUMPTIONS = ["the (ck, ns) tables of litedram/modules.py are the datasheet", "tolerance 1e-6 ns for binary representation of decimal values",
               "rates per memory type: SDR 1:1/1:2, DDR/LPDDR/DDR2 1:1/1:2, DDR3/DDR4 1:2/1:4, LPDDR4 1:8, others 1:4"]
MIN_T = ["tRP", "tRCD", "tWR", "tRFC", "tWTR", "tFAW", "tCCD", "tRRD", "tRAS", "tZQCS"]
REQUIRED = ["tRP", "tRCD", "tWR", "tRFC", "tWTR"]

RATES = {"SDR": ["1:1", "1:2"], "DDR": ["1:1", "1:2"], "LPDDR": ["1:1", "1:2"], "DDR2": ["1:1", "1:2"], "DDR3": ["1:2", "1:4"], "DDR4": ["1:2", "1:4"],
         "LPDDR4": ["1:8", "1:4"], "LPDDR5": ["1:8", "1:4"], "RPC": ["1:4"]}
# usable DRAM clock range per type (MHz) -> controller clock = dram clock / n
DRAM_MHZ = {"SDR": (20, 200), "DDR": (66, 200), "LPDDR": (50, 200), "DDR2": (125, 533), "DDR3": (300, 1066), "DDR4": (625, 1600),
            "LPDDR4": (200, 2133), "LPDDR5": (200, 3200), "RPC": (300, 1066)}


def module_classes():
    import litedram.modules as M
    out = []
    for name in sorted(dir(M)):
        c = getattr(M, name)
        if isinstance(c, type) and issubclass(c, M.SDRAMModule) and hasattr(c, "nbanks") and hasattr(c, "memtype") and (hasattr(c, "technology_timings") or hasattr(c, "tREFI")):
            out.append(name)
    return out


def check_module(cls, name, sg, rate, fine, clk, timing=None):
    """returns (findings, tight) ; cls may be a class built from SPD data"""
    findings = []
    tight = False
    n = int(rate.split(":")[1])
    if timing is None:
        kw = {}
        if sg is not None and sg != "default":
            kw["speedgrade"] = sg
        if fine is not None:
            kw["fine_refresh_mode"] = fine
        m = cls(clk, rate, **kw)
        timing = m.timing_settings
    sgk = None if sg == "default" and not hasattr(cls, "speedgrade_timings") else sg
    T = ds.period_ns(clk)
    tck = T / n
    key = "%s/%s/%s/%s" % (name, sg, rate, fine)

    def one(tname, e, cycles):
        nonlocal tight
        if e is None:
            return
        if cycles is None:
            findings.append(dict(clause="C16.missing", key=key + "/" + tname, what="%s declared by datasheet but None for controller" % tname))
            return
        span = cycles * n - (n - 1)           # DRAM clocks between least favourable phases
        if span * tck < e[1] - ds.TOL_NS:
            findings.append(dict(clause="C16.ns_short", key=key + "/" + tname,
                                 what="%s=%d cycles covers %.4f ns on least favourable phases < datasheet %.4f ns at %.6f MHz" % (tname, cycles, float(span * tck), float(e[1]), clk / 1e6),
                                 clk=clk, cycles=cycles))
        if cycles * n < e[0]:
            findings.append(dict(clause="C16.ck_short", key=key + "/" + tname,
                                 what="%s=%d cycles x %d < datasheet %s ck" % (tname, cycles, n, e[0]), clk=clk, cycles=cycles))
        x = e[1] / T + Fraction(n - 1, n)
        if e[1] > 0 and abs(x - round(x)) < Fraction(1, 1000):
            tight = True

    for tname in MIN_T:
        e = ds.entry(cls, sgk, tname, fine)
        if e is None and tname in REQUIRED:
            findings.append(dict(clause="C16.harness", key=key + "/" + tname, what="required datasheet entry missing"))
            continue
        one(tname, e, getattr(timing, tname))
    e = ds.entry_sum(ds.entry(cls, sgk, "tRP", fine), ds.entry(cls, sgk, "tRAS", fine))
    one("tRC", e, timing.tRC)
    # refresh interval: maximum-type
    e = ds.entry(cls, sgk, "tREFI", fine)
    if e is not None:
        if timing.tREFI * T > e[1] + ds.TOL_NS:
            findings.append(dict(clause="C16.trefi_long", key=key + "/tREFI",
                                 what="tREFI=%d cycles = %.3f ns > datasheet %.3f ns at %.6f MHz" % (timing.tREFI, float(timing.tREFI * T), float(e[1]), clk / 1e6), clk=clk))
        if (e[1] / T) - math.floor(e[1] / T) < Fraction(1, 1000):
            tight = True
    return findings, tight


def grid_points(tier):
    step = Fraction(1, 4) if tier == "thorough" else Fraction(2)
    import litedram.modules as M
    pts = []
    for name in module_classes():
        cls = getattr(M, name)
        lo, hi = DRAM_MHZ.get(cls.memtype, (100, 800))
        for sg in ds.speedgrades(cls):
            for rate in RATES.get(cls.memtype, ["1:4"]):
                n = int(rate.split(":")[1])
                for fine in ds.fine_modes(cls):
                    pts.append((name, sg, rate, fine, float(Fraction(lo) / n), float(Fraction(hi) / n), float(step)))
    return pts


def shards(tier, seed):
    pts = grid_points(tier)
    nsh = 16
    out = [dict(kind="grid", tier=tier, seed=seed, idx=i, pts=pts[i::nsh]) for i in range(nsh)]
    for i in range(nsh):
        out.append(dict(kind="hyp", tier=tier, seed=seed * 1000 + i, n=(4000 if tier == "thorough" else 400)))
    out.append(dict(kind="spd", tier=tier, seed=seed * 1000 + 99, n=(3000 if tier == "thorough" else 300)))
    return out


def _finish(col, found):
    vio = None
    if found:
        case, fs = found
        vio = dict(case=case, findings=fs, confirmed_on="pure function")
    return col.result(vio)


def run_case(case, col):
    import litedram.modules as M
    name, sg, rate, fine, clk = case
    cls = getattr(M, name)
    fs, tight = check_module(cls, name, sg, rate, fine, clk)
    col.case(list(case), classes=[cls.memtype + " " + rate] + (["tight"] if tight else []), nontrivial=tight,
             sample=dict(module=name, speedgrade=sg, rate=rate, fine=fine, clk_freq=clk))
    return col.filter(fs)


def run_shard(sh):
    col = Collector(ID)
    if sh["kind"] == "grid":
        found = None
        for (name, sg, rate, fine, lo, hi, step) in sh["pts"]:
            k = 0
            while True:
                f = lo + k * step
                if f > hi:
                    break
                case = (name, sg, rate, fine, f * 1e6)
                fs = run_case(case, col)
                if fs and found is None:
                    found = (list(case), fs)
                k += 1
        return _finish(col, found)
    if sh["kind"] == "hyp":
        from hypothesis import strategies as st
        import litedram.modules as M
        names = module_classes()

        @st.composite
        def cases(draw):
            name = draw(st.sampled_from(names))
            cls = getattr(M, name)
            sg = draw(st.sampled_from(ds.speedgrades(cls)))
            rate = draw(st.sampled_from(RATES.get(cls.memtype, ["1:4"])))
            fine = draw(st.sampled_from(ds.fine_modes(cls)))
            n = int(rate.split(":")[1])
            lo, hi = DRAM_MHZ.get(cls.memtype, (100, 800))
            mode = draw(st.integers(0, 2))
            if mode == 0:
                clk = draw(st.floats(lo * 1e6 / n, hi * 1e6 / n, allow_nan=False))
            elif mode == 1:
                clk = draw(st.integers(int(lo * 1e3 / n), int(hi * 1e3 / n))) * 1e3 / draw(st.sampled_from([1, 3, 7, 9]))
                clk = min(max(clk, lo * 1e6 / n), hi * 1e6 / n)
            else:
                # clock chosen so that some ns value is an exact multiple of the period (+- 1 ulp)
                tn = draw(st.sampled_from(["tRP", "tRCD", "tWR", "tRFC", "tRAS", "tFAW", "tREFI", "tWTR", "tRRD"]))
                e = ds.entry(cls, sg, tn, fine)
                ns = float(e[1]) if e is not None and e[1] > 0 else 15.0
                k = draw(st.integers(1, 4000))
                clk = k * 1e9 / ns
                lo_c, hi_c = lo * 1e6 / n, hi * 1e6 / n
                if not (lo_c <= clk <= hi_c):
                    kk = max(1, int((lo_c + (hi_c - lo_c) * (k % 1000) / 1000.0) * ns / 1e9))
                    clk = kk * 1e9 / ns
                clk = math.nextafter(clk, clk + draw(st.sampled_from([-1, 0, 1])) * 1e9) if draw(st.booleans()) else clk
                clk = min(max(clk, lo_c), hi_c)
            return (name, sg, rate, fine, clk)

        found = hyp_search(lambda c: run_case(c, col), cases(), sh["seed"], sh["n"], shrink=True)
        if found:
            found = (list(found[0]), found[1])
        return _finish(col, found)
    if sh["kind"] == "spd":
        return run_spd(sh, col)


# ---- SPD ---------------------------------------------------------------------------------------------
def spd_images():
    """the Micron reference SPD tables under test/spd_data (CSV: Part Number, Byte Number, Byte Description, Byte Value)"""
    import glob, csv
    repo = os.environ.get("VERIF_REPO", "/repo")
    out = []
    for fn in sorted(glob.glob(os.path.join(repo, "test", "spd_data", "*.csv"))):
        data = [0] * 512
        with open(fn) as f:
            for row in csv.DictReader(f):
                a = row["Byte Number"]
                if len(a.split("-")) == 1:
                    data[int(a)] = int(row["Byte Value"], 16)
        if data[2] in (0x0b, 0x0c):
            out.append((os.path.basename(fn), data))
    if not out:
        raise RuntimeError("no SPD images found under %s/test/spd_data" % repo)
    return out


def check_spd(name, data, clk, fine, col):
    from litedram.modules import SDRAMModule
    from lib import spd as myspd
    dec = myspd.decode(data)        # independent decode -> dict name -> (ck, ns) Fractions ; plus memtype
    if dec is None:
        return []
    try:
        m = SDRAMModule.from_spd_data(list(data), clk, fine_refresh_mode=fine if data[2] == 0x0c else None)
    except (KeyError, ValueError, ZeroDivisionError, AssertionError):
        col.case([name, clk, fine, "rejected"], classes=["spd rejected"])
        return []
    n = int(m.rate.split(":")[1])
    T = ds.period_ns(clk)
    tck = T / n
    fs = []
    tight = False
    t = m.timing_settings
    key = "spd/" + name
    for tn, e in dec["timings"].items():
        if isinstance(e, dict):
            e = e[fine or "1x"]
        cycles = getattr(t, tn)
        if tn == "tREFI":
            if cycles * T > e[1] + ds.TOL_NS:
                fs.append(dict(clause="C16.trefi_long", key=key + "/tREFI", what="SPD module tREFI=%d cycles = %.3f ns > %.3f ns" % (cycles, float(cycles * T), float(e[1]))))
            continue
        if cycles is None:
            fs.append(dict(clause="C16.missing", key=key + "/" + tn, what="%s declared by SPD but None" % tn))
            continue
        span = cycles * n - (n - 1)
        if span * tck < e[1] - ds.TOL_NS:
            fs.append(dict(clause="C16.spd_ns_short", key=key + "/" + tn, what="SPD %s: %d cycles cover %.4f ns < SPD bytes say %.4f ns (clk %.4f MHz)" % (tn, cycles, float(span * tck), float(e[1]), clk / 1e6)))
        if cycles * n < e[0]:
            fs.append(dict(clause="C16.spd_ck_short", key=key + "/" + tn, what="SPD %s: %d cycles x %d < %s ck" % (tn, cycles, n, e[0])))
        x = e[1] / T + Fraction(n - 1, n)
        if abs(x - round(x)) < Fraction(1, 200):
            tight = True
    if m.geom_settings.bankbits != dec["bankbits"] or m.geom_settings.rowbits != dec["rowbits"] or m.geom_settings.colbits != dec["colbits"]:
        fs.append(dict(clause="C16.spd_geometry", key=key, what="geometry differs from independent SPD decode"))
    col.case([name, clk, fine, digest(list(data))], classes=["spd " + dec["memtype"]] + (["tight"] if tight else []), nontrivial=True,
             sample=dict(spd=name, clk_freq=clk, fine=fine, mutated=dec.get("mutated", False)))
    return col.filter(fs)


def run_spd(sh, col):
    from hypothesis import strategies as st
    from lib import spd as myspd
    imgs = spd_images()
    if not imgs:
        return col.result()
    found = None
    # unmodified images over a clock grid
    for name, data in imgs:
        lo, hi = (75, 266) if data[2] == 0x0b else (156, 400)
        f = lo
        while f <= hi:
            for fine in (["1x", "2x", "4x"] if data[2] == 0x0c else [None]):
                fs = check_spd(name, data, f * 1e6, fine, col)
                if fs and found is None:
                    found = ([name, f * 1e6, fine, None], fs)
            f += 3.5 if sh["tier"] == "quick" else 0.5

    @st.composite
    def cases(draw):
        i = draw(st.integers(0, len(imgs) - 1))
        name, data = imgs[i]
        data = list(data)
        muts = draw(st.lists(st.tuples(st.sampled_from(myspd.timing_bytes(data[2])), st.integers(0, 255)), min_size=1, max_size=4))
        for off, val in muts:
            data[off] = myspd.legal_mutation(data, off, val)
        lo, hi = (75, 266) if data[2] == 0x0b else (156, 400)
        clk = draw(st.floats(lo * 1e6, hi * 1e6, allow_nan=False))
        fine = draw(st.sampled_from(["1x", "2x", "4x"])) if data[2] == 0x0c else None
        return (name, data, clk, fine)

    def t(case):
        name, data, clk, fine = case
        return check_spd(name + "+mut", data, clk, fine, col)

    if found is None:
        r = hyp_search(t, cases(), sh["seed"], sh["n"], shrink=True)
        if r:
            found = ([r[0][0], r[0][2], r[0][3], r[0][1]], r[1])
    return _finish(col, found)


def replay(case):
    import litedram.modules as M
    col = Collector(ID)
    if len(case) == 5:
        return run_case(tuple(case), col)
    name, clk, fine, data = case
    if data is None:
        data = dict(spd_images())[name]
    return check_spd(name, data, clk, fine, col)
